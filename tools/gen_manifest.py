#!/usr/bin/env python3
"""Regenerates /verif/MANIFEST.json from the rule modules' META blocks and rules/NOT_APPLICABLE.json."""
import json, os, sys, importlib
HERE = os.path.dirname(os.path.dirname(os.path.abspath(__file__)))
sys.path.insert(0, HERE)
props = [json.loads(l) for l in open(os.path.join(HERE, 'properties.jsonl'))]
na = json.load(open(os.path.join(HERE, 'rules', 'NOT_APPLICABLE.json')))
checks = []
not_app = []
hooks_commits = []
for p in props:
    pid = p['id']
    if os.path.exists(os.path.join(HERE, 'rules', pid + '.py')) and pid not in na.get('_pending', []):
        m = importlib.import_module('rules.' + pid)
        meta = getattr(m, 'META', {})
        checks.append({
            'property_id': pid,
            'quick_cmd': './check %s --tier quick' % pid,
            'thorough_cmd': './check %s --tier thorough' % pid,
            'evidence_file': 'evidence/%s.json' % pid,
            'replay_cmd_template': 'cat {path}',
            'engine': 'btfacts+rules',
            'level_claimed': {'category': 'other', 'text': meta.get('level', (m.__doc__ or '').strip()), 'design_ref': 'DESIGN.md section 3 ' + pid},
            'level_note': meta.get('note', 'Trusted: clang 14 parser/type checker/CFG builder, the rule tables frozen from reading the code. Decides the structural clauses named in DESIGN.md, not run-time values.'),
            'technique': meta.get('technique', 'static analysis: repository-specific rules over clang AST/CFG facts'),
        })
    else:
        not_app.append({'property_id': pid, 'reason': na.get(pid, 'check built, violations on the unchanged tree still being triaged' if pid in na.get('_pending', []) else 'check not built yet (DESIGN.md section 7)')})
man = {
    'version': 1,
    'setup_cmd': 'make -C /verif/tools',
    'hooks': {'guard': 'BLUETOE_VERIF', 'enable': 'none needed: the checks read /repo sources through clang, no hook is compiled in',
              'baseline_off_cmd': '/verif/tools/run_baseline.sh', 'source_commits': hooks_commits, 'add_only': True},
    'engines': [
        {'name': 'btfacts+rules', 'path': 'tools/btfacts.cc, rules/', 'serves_properties': [c['property_id'] for c in checks],
         'kind_free_text': 'libTooling fact extractor (AST trees, clang CFG with dominating branch edges) + Python rule modules; static_assert witnesses compiled with clang -fsyntax-only'},
    ],
    'checks': checks,
    'notes': 'Static analysis only; see DESIGN.md. exit 2 = analysis broken (anchor vanished / unit no longer parses).',
    'not_applicable': not_app,
}
json.dump(man, open(os.path.join(HERE, 'MANIFEST.json'), 'w'), indent=1)
print('checks:', len(checks), 'not applicable:', len(not_app))
