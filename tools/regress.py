#!/usr/bin/env python3
"""usage: regress.py [neutral|seeds|all] [-j N] [Cxx ...]   -- applies every patch to a scratch copy and runs the property's quick check; prints exit codes"""
import os, sys, json, subprocess, tempfile, shutil
from concurrent.futures import ThreadPoolExecutor
what = sys.argv[1] if len(sys.argv) > 1 else 'all'
j = 4
props = []
a = sys.argv[2:]
while a:
    x = a.pop(0)
    if x == '-j': j = int(a.pop(0))
    else: props.append(x)
jobs = []
if what in ('neutral', 'all'):
    for d in sorted(os.listdir('/tmp/neutral')):
        if os.path.exists('/tmp/neutral/%s/patch.diff' % d): jobs.append(('neutral', d, '/tmp/neutral/%s' % d, d))
if what in ('neutral2', 'all'):
    for d in sorted(os.listdir('/tmp/neutral2')):
        if os.path.exists('/tmp/neutral2/%s/patch.diff' % d): jobs.append(('neutral2', d, '/tmp/neutral2/%s' % d, d))
if what in ('neutral3', 'all'):
    for d in sorted(os.listdir('/tmp/neutral3')):
        if os.path.exists('/tmp/neutral3/%s/patch.diff' % d): jobs.append(('neutral3', d, '/tmp/neutral3/%s' % d, d))
if what in ('seeds', 'all'):
    for root, tag in (('/tmp/seeds', 'r1'), ('/tmp/seeds2', 'r2'), ('/tmp/seeds3', 'r3')):
        for d in sorted(os.listdir(root)):
            mp = '%s/%s/meta.json' % (root, d)
            if os.path.exists(mp) and os.path.exists('%s/%s/patch.diff' % (root, d)):
                jobs.append((tag, d, '%s/%s' % (root, d), json.load(open(mp))['property']))
if props: jobs = [x for x in jobs if x[3] in props]
def run(job):
    tag, name, d, prop = job
    t = tempfile.mkdtemp(prefix='regr_', dir='/tmp')
    try:
        subprocess.run(['rsync', '-a', '--exclude', '_build', '--exclude', '.git', '/repo/', t + '/repo/'], check=True)
        r = subprocess.run(['patch', '-p1', '-s', '-d', t + '/repo', '-i', d + '/patch.diff'], capture_output=True, text=True)
        if r.returncode != 0: return job, 'NOAPPLY', ''
        env = dict(os.environ, BT_REPO=t + '/repo', BT_CACHE=t + '/cache', BT_EVIDENCE=t + '/ev', BT_JOBS='3')
        r = subprocess.run(['/verif/check', prop], capture_output=True, text=True, env=env, cwd='/verif')
        out = r.stdout + r.stderr
        lines = [l.strip()[:230] for l in out.splitlines() if ' violated' in l or 'BROKEN' in l]
        return job, r.returncode, lines[:3]
    finally:
        shutil.rmtree(t, ignore_errors=True)
res = {}
with ThreadPoolExecutor(max_workers=j) as ex:
    for job, rc, lines in ex.map(run, jobs):
        tag, name, d, prop = job
        want = 0 if tag.startswith('neutral') else 1
        mark = 'ok ' if rc == want else ('UNK' if rc == 2 else 'BAD')
        print('%s %-7s %-4s exit %s' % (mark, tag, name, rc), flush=True)
        if rc != want:
            for l in lines: print('      ' + l, flush=True)
        res.setdefault(tag, []).append(rc)
for tag, v in sorted(res.items()):
    print(tag, {k: v.count(k) for k in sorted(set(v), key=str)})
