#!/usr/bin/env python3
"""for every `fixed:` entry of known_findings.json: revert that commit on a scratch copy of /repo and run the property's check: the violation must come back (exit 1)"""
import json, re, subprocess, tempfile, shutil, os, sys
from concurrent.futures import ThreadPoolExecutor
d = json.load(open('/verif/known_findings.json'))
jobs = []
for e in d['fixed']:
    m = re.match(r'fixed: property=(C\d+) ([0-9a-f]+) (F\w+)', e)
    if m: jobs.append((m.group(1), m.group(2), m.group(3)))
def run(job):
    prop, commit, fid = job
    t = tempfile.mkdtemp(prefix='rev_', dir='/tmp')
    try:
        subprocess.run(['rsync', '-a', '--exclude', '_build', '--exclude', '.git', '/repo/', t + '/repo/'], check=True)
        diff = subprocess.run(['git', '-C', '/repo', 'show', '--format=', commit, '--', 'bluetoe'], capture_output=True, text=True).stdout
        open(t + '/p.diff', 'w').write(diff)
        r = subprocess.run(['patch', '-R', '-p1', '-s', '-d', t + '/repo', '-i', t + '/p.diff'], capture_output=True, text=True)
        if r.returncode != 0: return job, 'NOREVERT', r.stdout[-200:]
        env = dict(os.environ, BT_REPO=t + '/repo', BT_CACHE=t + '/cache', BT_EVIDENCE=t + '/ev', BT_JOBS='3')
        r = subprocess.run(['/verif/check', prop], capture_output=True, text=True, env=env, cwd='/verif')
        out = r.stdout + r.stderr
        return job, r.returncode, [l.strip()[:200] for l in out.splitlines() if ' violated' in l or 'BROKEN' in l][:2]
    finally:
        shutil.rmtree(t, ignore_errors=True)
with ThreadPoolExecutor(max_workers=5) as ex:
    for job, rc, lines in ex.map(run, jobs):
        print('%s %s %s %s exit %s' % ('ok ' if rc == 1 else 'BAD', job[2], job[0], job[1], rc), flush=True)
        if rc != 1:
            for l in (lines if isinstance(lines, list) else [lines]): print('     ', l)
