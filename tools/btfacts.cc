// btfacts - fact extractor for the Bluetoe static checks.
//
// For every function definition (template pattern, template instantiation or plain function)
// whose spelling lies under one of the --root prefixes, emits one JSON line with
//   * the body as an expression tree (implicit casts / parens elided, callees resolved where
//     the type checker resolved them, constants folded by clang's evaluator),
//   * clang's CFG (BuildOptions::setAllAlwaysAdd) as blocks referring to tree node ids.
// Additionally one JSON line per class (fields, bases) and per enum (enumerators).
//
// Nothing of the analysed program is executed.
#include "clang/AST/ASTConsumer.h"
#include "clang/AST/ASTContext.h"
#include "clang/AST/RecursiveASTVisitor.h"
#include "clang/AST/ExprCXX.h"
#include "clang/AST/StmtCXX.h"
#include "clang/Analysis/CFG.h"
#include "clang/Frontend/CompilerInstance.h"
#include "clang/Frontend/FrontendAction.h"
#include "clang/Tooling/CommonOptionsParser.h"
#include "clang/Tooling/Tooling.h"
#include "llvm/Support/CommandLine.h"
#include "llvm/Support/JSON.h"
#include "llvm/Support/Regex.h"
#include "llvm/Support/raw_ostream.h"
#include <map>
#include <set>
#include <string>
#include <unordered_map>

using namespace clang;
using namespace clang::tooling;
namespace json = llvm::json;

static llvm::cl::OptionCategory Cat("btfacts options");
static llvm::cl::list<std::string> Roots("root", llvm::cl::desc("path prefix of sources to report"), llvm::cl::cat(Cat));
static llvm::cl::opt<std::string> OutFile("o", llvm::cl::desc("output file (JSON lines)"), llvm::cl::init("-"), llvm::cl::cat(Cat));
static llvm::cl::opt<std::string> Select("select", llvm::cl::desc("regex on qualified function names"), llvm::cl::init(""), llvm::cl::cat(Cat));
static llvm::cl::opt<unsigned> MaxInst("max-inst", llvm::cl::desc("max distinct instantiations per pattern"), llvm::cl::init(64), llvm::cl::cat(Cat));

namespace {

std::string trunc(std::string s, size_t n = 140) {
    if (s.size() > n) { s.resize(n); s += "..."; }
    return s;
}

class Emitter {
public:
    Emitter(ASTContext &ctx, llvm::raw_ostream &os) : Ctx(ctx), SM(ctx.getSourceManager()), OS(os), PP(ctx.getLangOpts()) {
        PP.SuppressTagKeyword = true;
        PP.Bool = true;
        if (!Select.empty()) Sel.reset(new llvm::Regex(Select));
    }

    bool inRoots(SourceLocation loc, std::string *file = nullptr, unsigned *line = nullptr) {
        if (loc.isInvalid()) return false;
        SourceLocation sl = SM.getExpansionLoc(loc);
        PresumedLoc pl = SM.getPresumedLoc(sl);
        if (pl.isInvalid()) return false;
        std::string fn = pl.getFilename();
        // normalise "a/../b"
        llvm::SmallString<256> p(fn);
        llvm::sys::path::remove_dots(p, true);
        fn = std::string(p.str());
        if (file) *file = fn;
        if (line) *line = pl.getLine();
        for (auto &r : Roots) if (fn.compare(0, r.size(), r) == 0) return true;
        return false;
    }

    unsigned lineOf(SourceLocation loc) {
        if (loc.isInvalid()) return 0;
        return SM.getPresumedLoc(SM.getExpansionLoc(loc)).getLine();
    }

    std::string typeStr(QualType t) {
        if (t.isNull()) return "";
        return trunc(t.getAsString(PP));
    }

    // short name of a type: record / typedef / dependent member name without qualifiers and arguments
    std::string shortType(QualType t) {
        if (t.isNull()) return "";
        t = t.getNonReferenceType();
        while (t->isPointerType()) t = t->getPointeeType();
        t = t.getUnqualifiedType();
        const Type *tp = t.getTypePtr();
        if (auto *et = dyn_cast<ElaboratedType>(tp)) { tp = et->getNamedType().getTypePtr(); }
        if (auto *dn = dyn_cast<DependentNameType>(tp)) return dn->getIdentifier()->getName().str();
        if (auto *td = dyn_cast<TypedefType>(tp)) return td->getDecl()->getNameAsString();
        if (auto *ts = dyn_cast<TemplateSpecializationType>(tp)) { if (auto *d = ts->getTemplateName().getAsTemplateDecl()) return d->getNameAsString(); }
        if (auto *rd = tp->getAsCXXRecordDecl()) return rd->getNameAsString();
        if (auto *tt = dyn_cast<TemplateTypeParmType>(tp)) { if (tt->getIdentifier()) return tt->getIdentifier()->getName().str(); }
        return "";
    }

    static std::string nameOf(const NamedDecl *d) {
        if (!d) return "";
        if (auto *cd = dyn_cast<CXXConstructorDecl>(d)) return cd->getParent()->getNameAsString();
        if (auto *dd = dyn_cast<CXXDestructorDecl>(d)) return "~" + dd->getParent()->getNameAsString();
        if (d->getDeclName().isIdentifier()) return d->getName().str();
        return d->getNameAsString();
    }

    // qualified name without template arguments
    static std::string qnameOf(const NamedDecl *d) {
        if (!d) return "";
        std::string s;
        llvm::raw_string_ostream os(s);
        const DeclContext *dc = d->getDeclContext();
        llvm::SmallVector<std::string, 8> parts;
        while (dc) {
            if (auto *ns = dyn_cast<NamespaceDecl>(dc)) {
                if (!ns->isAnonymousNamespace() && !ns->isInline()) parts.push_back(ns->getNameAsString());
                else if (ns->isAnonymousNamespace()) parts.push_back("(anon)");
            } else if (auto *rd = dyn_cast<RecordDecl>(dc)) {
                parts.push_back(rd->getNameAsString().empty() ? "(anon)" : rd->getNameAsString());
            } else if (auto *fd = dyn_cast<FunctionDecl>(dc)) {
                parts.push_back(fd->getNameAsString());
            } else if (auto *ed = dyn_cast<EnumDecl>(dc)) {
                if (ed->isScoped()) parts.push_back(ed->getNameAsString());
            }
            dc = dc->getParent();
        }
        for (auto it = parts.rbegin(); it != parts.rend(); ++it) os << *it << "::";
        os << nameOf(d);
        return os.str();
    }

    // ---- expression / statement tree -------------------------------------------------
    struct FnState {
        std::unordered_map<const Stmt *, int> ids;
        int next = 0;
    };

    const Stmt *strip(const Stmt *s) {
        for (;;) {
            if (!s) return s;
            if (auto *e = dyn_cast<ImplicitCastExpr>(s)) { s = e->getSubExpr(); continue; }
            if (auto *e = dyn_cast<ParenExpr>(s)) { s = e->getSubExpr(); continue; }
            if (auto *e = dyn_cast<FullExpr>(s)) { s = e->getSubExpr(); continue; }
            if (auto *e = dyn_cast<MaterializeTemporaryExpr>(s)) { s = e->getSubExpr(); continue; }
            if (auto *e = dyn_cast<CXXBindTemporaryExpr>(s)) { s = e->getSubExpr(); continue; }
            if (auto *e = dyn_cast<SubstNonTypeTemplateParmExpr>(s)) { s = e->getReplacement(); continue; }
            if (auto *e = dyn_cast<CXXDefaultArgExpr>(s)) { s = e->getExpr(); continue; }
            if (auto *e = dyn_cast<CXXDefaultInitExpr>(s)) { s = e->getExpr(); continue; }
            if (auto *e = dyn_cast<CXXFunctionalCastExpr>(s)) {
                if (e->getCastKind() == CK_NoOp || e->getCastKind() == CK_ConstructorConversion) { s = e->getSubExpr(); continue; }
            }
            return s;
        }
    }

    int idOf(FnState &st, const Stmt *s) {
        const Stmt *t = strip(s);
        auto it = st.ids.find(t);
        if (it != st.ids.end()) return it->second;
        return -1;
    }

    void addValue(json::Object &o, const Expr *e) {
        if (!e || e->isValueDependent() || e->isTypeDependent() || e->containsErrors()) return;
        QualType t = e->getType();
        if (t.isNull()) return;
        if (!(t->isIntegralOrEnumerationType())) return;
        Expr::EvalResult r;
        if (e->EvaluateAsInt(r, Ctx, Expr::SE_NoSideEffects)) {
            o["v"] = r.Val.getInt().getExtValue();
        }
    }

    void addType(json::Object &o, const Expr *e) {
        QualType t = e->getType();
        if (t.isNull()) return;
        if (e->isTypeDependent()) { o["td"] = 1; }
        o["t"] = typeStr(t);
        if (!t->isDependentType() && t->isIntegralOrEnumerationType() && !t->isIncompleteType()) {
            o["w"] = (int64_t)Ctx.getTypeSize(t);
            if (t->isUnsignedIntegerOrEnumerationType()) o["u"] = 1;
        }
    }

    json::Value child(FnState &st, const Stmt *s, const char *role = nullptr) {
        json::Value v = tree(st, s);
        if (role) if (auto *o = v.getAsObject()) (*o)["r"] = role;
        return v;
    }

    // enumerators declared inside templates keep a zero APSInt: evaluate the written initialiser instead
    bool enumValue(const EnumConstantDecl *ec, int64_t &out) {
        const Expr *ie = ec->getInitExpr();
        const DeclContext *dc = ec->getDeclContext();
        bool dependent = dc && dc->isDependentContext();
        if (!dependent) { out = ec->getInitVal().getExtValue(); return true; }
        if (ie && !ie->isValueDependent() && !ie->isTypeDependent()) {
            Expr::EvalResult r;
            if (ie->EvaluateAsInt(r, Ctx, Expr::SE_NoSideEffects)) { out = r.Val.getInt().getExtValue(); return true; }
        }
        return false;
    }

    void explicitArgs(json::Object &o, llvm::ArrayRef<TemplateArgumentLoc> args) {
        json::Array a; bool any = false;
        for (auto &al : args) {
            const TemplateArgument &ta = al.getArgument();
            if (ta.getKind() == TemplateArgument::Expression && ta.getAsExpr() && !ta.getAsExpr()->isValueDependent()) {
                Expr::EvalResult r;
                if (ta.getAsExpr()->EvaluateAsInt(r, Ctx, Expr::SE_NoSideEffects)) { a.push_back(r.Val.getInt().getExtValue()); any = true; continue; }
            }
            if (ta.getKind() == TemplateArgument::Integral) { a.push_back(ta.getAsIntegral().getExtValue()); any = true; continue; }
            a.push_back(nullptr);
        }
        if (any) o["eta"] = std::move(a);
    }

    void declRefInfo(json::Object &o, const ValueDecl *d) {
        o["n"] = nameOf(d);
        o["q"] = qnameOf(d);
        o["dk"] = d->getDeclKindName();
        if (auto *ec = dyn_cast<EnumConstantDecl>(d)) { int64_t ev; if (enumValue(ec, ev)) o["v"] = ev; }
        if (auto *vd = dyn_cast<VarDecl>(d)) {
            if (vd->isLocalVarDeclOrParm()) o["local"] = 1;
        }
    }

    json::Value tree(FnState &st, const Stmt *s0) {
        const Stmt *s = strip(s0);
        json::Object o;
        if (!s) { o["k"] = "Null"; return json::Value(std::move(o)); }
        int id = st.next++;
        st.ids[s] = id;
        o["i"] = id;
        o["k"] = s->getStmtClassName();
        o["l"] = (int64_t)lineOf(s->getBeginLoc());
        json::Array kids;

        if (auto *e = dyn_cast<Expr>(s)) { addType(o, e); }

        if (auto *e = dyn_cast<DeclRefExpr>(s)) {
            declRefInfo(o, e->getDecl());
            addValue(o, e);
        } else if (auto *e = dyn_cast<MemberExpr>(s)) {
            o["n"] = nameOf(e->getMemberDecl());
            o["q"] = qnameOf(e->getMemberDecl());
            o["dk"] = e->getMemberDecl()->getDeclKindName();
            if (e->isArrow()) o["arrow"] = 1;
            kids.push_back(child(st, e->getBase()));
            addValue(o, e);
        } else if (auto *e = dyn_cast<CXXDependentScopeMemberExpr>(s)) {
            o["n"] = e->getMember().getAsString();
            if (e->hasExplicitTemplateArgs()) explicitArgs(o, e->template_arguments());
            if (e->isArrow()) o["arrow"] = 1;
            if (!e->isImplicitAccess()) kids.push_back(child(st, e->getBase()));
            else { json::Object t; t["k"] = "CXXThisExpr"; t["implicit"] = 1; kids.push_back(std::move(t)); }
        } else if (auto *e = dyn_cast<UnresolvedMemberExpr>(s)) {
            o["n"] = e->getMemberName().getAsString();
            if (e->hasExplicitTemplateArgs()) explicitArgs(o, e->template_arguments());
            if (!e->isImplicitAccess()) kids.push_back(child(st, e->getBase()));
            else { json::Object t; t["k"] = "CXXThisExpr"; t["implicit"] = 1; kids.push_back(std::move(t)); }
        } else if (auto *e = dyn_cast<UnresolvedLookupExpr>(s)) {
            o["n"] = e->getName().getAsString();
            if (e->hasExplicitTemplateArgs()) explicitArgs(o, e->template_arguments());
            if (e->getQualifier()) { std::string q; llvm::raw_string_ostream qs(q); e->getQualifier()->print(qs, PP); o["qual"] = trunc(qs.str()); }
        } else if (auto *e = dyn_cast<DependentScopeDeclRefExpr>(s)) {
            if (e->hasExplicitTemplateArgs()) explicitArgs(o, e->template_arguments());
            o["n"] = e->getDeclName().getAsString();
            if (e->getQualifier()) { std::string q; llvm::raw_string_ostream qs(q); e->getQualifier()->print(qs, PP); o["qual"] = trunc(qs.str()); }
        } else if (auto *e = dyn_cast<CXXOperatorCallExpr>(s)) {
            o["call"] = 1;
            o["o"] = getOperatorSpelling(e->getOperator());
            if (auto *fd = e->getDirectCallee()) { o["cn"] = nameOf(fd); o["cq"] = qnameOf(fd); }
            for (auto *a : e->arguments()) kids.push_back(child(st, a));
            addValue(o, e);
        } else if (auto *e = dyn_cast<CallExpr>(s)) {
            o["call"] = 1;
            if (auto *fd = e->getDirectCallee()) {
                o["cn"] = nameOf(fd); o["cq"] = qnameOf(fd);
                {
                    json::Array nta; bool any = false;
                    const DeclContext *dc = fd->getDeclContext();
                    if (auto *sp = dyn_cast_or_null<ClassTemplateSpecializationDecl>(dc))
                        for (auto &ta : sp->getTemplateArgs().asArray()) if (ta.getKind() == TemplateArgument::Integral) { nta.push_back(ta.getAsIntegral().getExtValue()); any = true; }
                    if (auto *targs = fd->getTemplateSpecializationArgs())
                        for (auto &ta : targs->asArray()) if (ta.getKind() == TemplateArgument::Integral) { nta.push_back(ta.getAsIntegral().getExtValue()); any = true; }
                    if (any) o["cnta"] = std::move(nta);
                }
                unsigned fl = 0; std::string ff;
                if (inRoots(fd->getLocation(), &ff, &fl)) { o["cl"] = (int64_t)fl; }
            } else {
                const Expr *c = e->getCallee();
                const Stmt *cs = strip(c);
                if (auto *m = dyn_cast_or_null<CXXDependentScopeMemberExpr>(cs)) o["cn"] = m->getMember().getAsString();
                else if (auto *m = dyn_cast_or_null<UnresolvedMemberExpr>(cs)) o["cn"] = m->getMemberName().getAsString();
                else if (auto *m = dyn_cast_or_null<UnresolvedLookupExpr>(cs)) o["cn"] = m->getName().getAsString();
                else if (auto *m = dyn_cast_or_null<DependentScopeDeclRefExpr>(cs)) o["cn"] = m->getDeclName().getAsString();
                else if (auto *m = dyn_cast_or_null<MemberExpr>(cs)) o["cn"] = nameOf(m->getMemberDecl());
                else if (auto *m = dyn_cast_or_null<DeclRefExpr>(cs)) o["cn"] = nameOf(m->getDecl());
            }
            kids.push_back(child(st, e->getCallee(), "callee"));
            for (auto *a : e->arguments()) kids.push_back(child(st, a));
            addValue(o, e);
        } else if (auto *e = dyn_cast<CXXConstructExpr>(s)) {
            o["call"] = 1; o["ctor"] = 1;
            o["cn"] = nameOf(e->getConstructor()->getParent());
            o["cq"] = qnameOf(e->getConstructor()->getParent());
            for (auto *a : e->arguments()) kids.push_back(child(st, a));
        } else if (auto *e = dyn_cast<CXXUnresolvedConstructExpr>(s)) {
            o["call"] = 1; o["ctor"] = 1;
            o["cn"] = typeStr(e->getTypeAsWritten());
            for (auto *a : e->arguments()) kids.push_back(child(st, a));
        } else if (auto *e = dyn_cast<CompoundAssignOperator>(s)) {
            o["o"] = e->getOpcodeStr().str();
            kids.push_back(child(st, e->getLHS())); kids.push_back(child(st, e->getRHS()));
        } else if (auto *e = dyn_cast<BinaryOperator>(s)) {
            o["o"] = e->getOpcodeStr().str();
            kids.push_back(child(st, e->getLHS())); kids.push_back(child(st, e->getRHS()));
            addValue(o, e);
        } else if (auto *e = dyn_cast<UnaryOperator>(s)) {
            o["o"] = UnaryOperator::getOpcodeStr(e->getOpcode()).str();
            if (e->isPostfix()) o["post"] = 1;
            kids.push_back(child(st, e->getSubExpr()));
            addValue(o, e);
        } else if (auto *e = dyn_cast<IntegerLiteral>(s)) {
            o["v"] = e->getValue().getLimitedValue();
        } else if (auto *e = dyn_cast<CXXBoolLiteralExpr>(s)) {
            o["v"] = e->getValue() ? 1 : 0;
        } else if (auto *e = dyn_cast<CharacterLiteral>(s)) {
            o["v"] = (int64_t)e->getValue();
        } else if (auto *e = dyn_cast<clang::StringLiteral>(s)) {
            if (e->getCharByteWidth() == 1) o["s"] = trunc(e->getString().str(), 80);
        } else if (auto *e = dyn_cast<ExplicitCastExpr>(s)) {
            o["t"] = typeStr(e->getTypeAsWritten());
            kids.push_back(child(st, e->getSubExpr()));
            addValue(o, e);
        } else if (auto *e = dyn_cast<UnaryExprOrTypeTraitExpr>(s)) {
            o["o"] = e->getKind() == UETT_SizeOf ? "sizeof" : "trait";
            if (e->isArgumentType()) o["at"] = typeStr(e->getArgumentType());
            else kids.push_back(child(st, e->getArgumentExpr()));
            addValue(o, e);
        } else if (auto *e = dyn_cast<ArraySubscriptExpr>(s)) {
            kids.push_back(child(st, e->getBase())); kids.push_back(child(st, e->getIdx()));
        } else if (auto *e = dyn_cast<ConditionalOperator>(s)) {
            kids.push_back(child(st, e->getCond(), "cond")); kids.push_back(child(st, e->getTrueExpr(), "then")); kids.push_back(child(st, e->getFalseExpr(), "else"));
            addValue(o, e);
        } else if (auto *e = dyn_cast<CXXThisExpr>(s)) {
            if (e->isImplicit()) o["implicit"] = 1;
        } else if (auto *e = dyn_cast<IfStmt>(s)) {
            if (e->getInit()) kids.push_back(child(st, e->getInit(), "init"));
            if (e->getConditionVariableDeclStmt()) kids.push_back(child(st, e->getConditionVariableDeclStmt(), "condvar"));
            kids.push_back(child(st, e->getCond(), "cond"));
            kids.push_back(child(st, e->getThen(), "then"));
            if (e->getElse()) kids.push_back(child(st, e->getElse(), "else"));
        } else if (auto *e = dyn_cast<ForStmt>(s)) {
            if (e->getInit()) kids.push_back(child(st, e->getInit(), "init"));
            if (e->getCond()) kids.push_back(child(st, e->getCond(), "cond"));
            if (e->getInc()) kids.push_back(child(st, e->getInc(), "inc"));
            kids.push_back(child(st, e->getBody(), "body"));
        } else if (auto *e = dyn_cast<WhileStmt>(s)) {
            kids.push_back(child(st, e->getCond(), "cond"));
            kids.push_back(child(st, e->getBody(), "body"));
        } else if (auto *e = dyn_cast<DoStmt>(s)) {
            kids.push_back(child(st, e->getBody(), "body"));
            kids.push_back(child(st, e->getCond(), "cond"));
        } else if (auto *e = dyn_cast<CXXForRangeStmt>(s)) {
            if (e->getLoopVarStmt()) kids.push_back(child(st, e->getLoopVarStmt(), "var"));
            if (e->getRangeInit()) kids.push_back(child(st, e->getRangeInit(), "range"));
            kids.push_back(child(st, e->getBody(), "body"));
        } else if (auto *e = dyn_cast<SwitchStmt>(s)) {
            kids.push_back(child(st, e->getCond(), "cond"));
            kids.push_back(child(st, e->getBody(), "body"));
        } else if (auto *e = dyn_cast<CaseStmt>(s)) {
            addValue(o, e->getLHS());
            kids.push_back(child(st, e->getLHS(), "label"));
            kids.push_back(child(st, e->getSubStmt(), "body"));
        } else if (auto *e = dyn_cast<DefaultStmt>(s)) {
            kids.push_back(child(st, e->getSubStmt(), "body"));
        } else if (auto *e = dyn_cast<DeclStmt>(s)) {
            for (auto *d : e->decls()) {
                if (auto *vd = dyn_cast<VarDecl>(d)) {
                    json::Object v;
                    v["k"] = "VarDecl"; v["n"] = nameOf(vd); v["t"] = typeStr(vd->getType()); v["tn"] = shortType(vd->getType());
                    v["l"] = (int64_t)lineOf(vd->getLocation());
                    if (vd->isStaticLocal()) v["static"] = 1;
                    json::Array vk;
                    if (vd->getInit()) vk.push_back(child(st, vd->getInit()));
                    v["c"] = std::move(vk);
                    kids.push_back(std::move(v));
                }
            }
        } else if (auto *e = dyn_cast<LambdaExpr>(s)) {
            kids.push_back(child(st, e->getBody(), "body"));
        } else if (auto *e = dyn_cast<CXXNewExpr>(s)) {
            for (auto *c : e->children()) if (c) kids.push_back(child(st, c));
        } else if (auto *e = dyn_cast<SizeOfPackExpr>(s)) {
            addValue(o, e);
        } else {
            for (auto *c : s->children()) if (c) kids.push_back(child(st, c));
            if (auto *e = dyn_cast<Expr>(s)) addValue(o, e);
        }
        if (!kids.empty()) o["c"] = std::move(kids);
        return json::Value(std::move(o));
    }

    // ---- CFG -------------------------------------------------------------------------
    json::Value cfgOf(FnState &st, const FunctionDecl *fd) {
        CFG::BuildOptions bo;
        bo.setAllAlwaysAdd();
        bo.AddImplicitDtors = true;
        bo.AddInitializers = true;
        bo.PruneTriviallyFalseEdges = false;
        std::unique_ptr<CFG> cfg = CFG::buildCFG(fd, fd->getBody(), &Ctx, bo);
        if (!cfg) return json::Value(nullptr);
        json::Object o;
        o["entry"] = (int64_t)cfg->getEntry().getBlockID();
        o["exit"] = (int64_t)cfg->getExit().getBlockID();
        json::Array blocks;
        for (const CFGBlock *b : *cfg) {
            json::Object jb;
            jb["id"] = (int64_t)b->getBlockID();
            json::Array elems;
            int last = -2;
            for (const CFGElement &el : *b) {
                if (auto cs = el.getAs<CFGStmt>()) {
                    int id = idOf(st, cs->getStmt());
                    if (id >= 0 && id != last) { elems.push_back(id); last = id; }
                } else if (auto dt = el.getAs<CFGAutomaticObjDtor>()) {
                    json::Object d; d["dtor"] = nameOf(dt->getVarDecl()); d["t"] = typeStr(dt->getVarDecl()->getType());
                    elems.push_back(std::move(d)); last = -2;
                } else if (auto in = el.getAs<CFGInitializer>()) {
                    const CXXCtorInitializer *ci = in->getInitializer();
                    json::Object d;
                    if (ci->isAnyMemberInitializer()) d["init"] = nameOf(ci->getAnyMember());
                    else d["init"] = "(base)";
                    elems.push_back(std::move(d)); last = -2;
                }
            }
            jb["e"] = std::move(elems);
            if (const Stmt *t = b->getTerminatorStmt()) {
                jb["tk"] = t->getStmtClassName();
                int tid = idOf(st, t);
                if (tid >= 0) jb["t"] = tid;
                if (const Stmt *c = b->getTerminatorCondition(false)) {
                    int cid = idOf(st, c);
                    if (cid >= 0) jb["cond"] = cid;
                }
            }
            if (const Stmt *l = b->getLabel()) {
                int lid = idOf(st, l);
                if (lid >= 0) jb["label"] = lid;
            }
            json::Array succ;
            for (auto it = b->succ_begin(); it != b->succ_end(); ++it) {
                const CFGBlock *sb = it->getReachableBlock();
                if (!sb) sb = it->getPossiblyUnreachableBlock();
                succ.push_back(sb ? (int64_t)sb->getBlockID() : (int64_t)-1);
            }
            jb["s"] = std::move(succ);
            blocks.push_back(std::move(jb));
        }
        o["blocks"] = std::move(blocks);
        return json::Value(std::move(o));
    }

    std::string templateArgsOf(const FunctionDecl *fd) {
        std::string s;
        llvm::raw_string_ostream os(s);
        const DeclContext *dc = fd->getDeclContext();
        llvm::SmallVector<std::string, 4> parts;
        if (auto *args = fd->getTemplateSpecializationArgs()) {
            std::string a; llvm::raw_string_ostream as(a);
            printTemplateArgumentList(as, args->asArray(), PP);
            parts.push_back(fd->getNameAsString() + as.str());
        }
        while (dc) {
            if (auto *sp = dyn_cast<ClassTemplateSpecializationDecl>(dc)) {
                std::string a; llvm::raw_string_ostream as(a);
                printTemplateArgumentList(as, sp->getTemplateArgs().asArray(), PP);
                parts.push_back(sp->getNameAsString() + as.str());
            }
            dc = dc->getParent();
        }
        for (auto it = parts.rbegin(); it != parts.rend(); ++it) { os << *it << " | "; }
        return trunc(os.str(), 1500);
    }

    void emitFunction(const FunctionDecl *fd) {
        if (!fd->doesThisDeclarationHaveABody() || !fd->getBody()) return;
        if (fd->isDefaulted() || fd->isDeleted()) return;
        std::string file; unsigned line = 0;
        if (!inRoots(fd->getBody()->getBeginLoc(), &file, &line)) return;
        if (!Seen.insert(fd).second) return;
        std::string qn = qnameOf(fd);
        if (Sel && !Sel->match(qn)) return;

        const char *kind = "plain";
        if (fd->isDependentContext()) kind = "pattern";
        else if (fd->isTemplateInstantiation() || fd->getTemplateInstantiationPattern()) kind = "inst";
        else {
            const DeclContext *dc = fd->getDeclContext();
            while (dc) { if (isa<ClassTemplateSpecializationDecl>(dc)) { kind = "inst"; break; } dc = dc->getParent(); }
        }

        FnState st;
        json::Object o;
        o["rec"] = "fn";
        o["q"] = qn;
        o["n"] = nameOf(fd);
        o["file"] = file;
        o["line"] = (int64_t)line;
        o["kind"] = kind;
        if (auto *md = dyn_cast<CXXMethodDecl>(fd)) {
            o["cls"] = qnameOf(md->getParent());
            if (md->isStatic()) o["static"] = 1;
            if (md->isConst()) o["const"] = 1;
        }
        o["ret"] = typeStr(fd->getReturnType());
        if (auto *targs = fd->getTemplateSpecializationArgs()) {
            json::Array nta;
            for (auto &ta : targs->asArray()) {
                if (ta.getKind() == TemplateArgument::Integral) nta.push_back(ta.getAsIntegral().getExtValue());
                else nta.push_back(nullptr);
            }
            o["nta"] = std::move(nta);
        }
        json::Array params;
        for (auto *p : fd->parameters()) {
            json::Object jp; jp["n"] = nameOf(p); jp["t"] = typeStr(p->getType()); jp["tn"] = shortType(p->getType());
            params.push_back(std::move(jp));
        }
        o["params"] = std::move(params);
        if (auto *cd = dyn_cast<CXXConstructorDecl>(fd)) {
            json::Array inits;
            for (auto *ci : cd->inits()) {
                if (!ci->isWritten()) continue;
                json::Object ji;
                if (ci->isAnyMemberInitializer()) ji["n"] = nameOf(ci->getAnyMember());
                else if (ci->isBaseInitializer()) ji["n"] = "(base)";
                ji["init"] = tree(st, ci->getInit());
                inits.push_back(std::move(ji));
            }
            o["inits"] = std::move(inits);
        }
        json::Value body = tree(st, fd->getBody());
        json::Value cfg = cfgOf(st, fd);

        std::string bodyStr, cfgStr;
        { llvm::raw_string_ostream bs(bodyStr); bs << body; }
        { llvm::raw_string_ostream cs(cfgStr); cs << cfg; }

        if (std::string(kind) == "inst") {
            std::string key = qn + "@" + std::to_string(line);
            auto &seen = InstSeen[key];
            std::string targs = templateArgsOf(fd);
            size_t h = std::hash<std::string>()(bodyStr + cfgStr);
            auto it = seen.find(h);
            if (it != seen.end()) {
                it->second++;
                json::Object d;
                d["n"] = nameOf(fd); d["file"] = file; d["line"] = (int64_t)line; d["targs"] = targs;
                if (auto *v = o.get("nta")) d["nta"] = *v;
                if (auto *v = o.get("cls")) d["cls"] = *v;
                d["same_as"] = std::to_string(h);
                OS << "{\"q\":" << json::Value(qn) << ",\"kind\":\"dup\",\"hdr\":" << json::Value(std::move(d)) << "}\n";
                return;
            }
            if (seen.size() >= MaxInst) { Dropped[key]++; return; }
            seen[h] = 1;
            o["targs"] = targs;
            o["h"] = std::to_string(h);
        }
        OS << "{\"q\":" << json::Value(qn) << ",\"kind\":\"" << kind << "\",\"hdr\":";
        OS << json::Value(std::move(o));
        OS << ",\"body\":" << bodyStr << ",\"cfg\":" << cfgStr << "}\n";
        ++NFn;
    }

    void emitRecord(const CXXRecordDecl *rd) {
        if (!rd->isThisDeclarationADefinition()) return;
        std::string file; unsigned line = 0;
        if (!inRoots(rd->getLocation(), &file, &line)) return;
        if (rd->isLambda()) return;
        if (!SeenDecl.insert(rd).second) return;
        // only patterns and plain classes and (deduplicated) specialisations
        json::Object o;
        o["rec"] = "class";
        o["q"] = qnameOf(rd);
        o["file"] = file; o["line"] = (int64_t)line;
        const char *kind = rd->isDependentContext() ? "pattern" : (isa<ClassTemplateSpecializationDecl>(rd) ? "inst" : "plain");
        o["kind"] = kind;
        if (std::string(kind) == "inst") {
            std::string key = qnameOf(rd) + "@" + std::to_string(line);
            if (++ClassInst[key] > 4) return;
            auto *sp = cast<ClassTemplateSpecializationDecl>(rd);
            std::string a; llvm::raw_string_ostream as(a);
            printTemplateArgumentList(as, sp->getTemplateArgs().asArray(), PP);
            o["targs"] = trunc(as.str(), 400);
        }
        json::Array fields;
        for (auto *f : rd->fields()) {
            json::Object jf; jf["n"] = nameOf(f); jf["t"] = typeStr(f->getType()); jf["tn"] = shortType(f->getType()); jf["l"] = (int64_t)lineOf(f->getLocation());
            if (f->isMutable()) jf["mutable"] = 1;
            fields.push_back(std::move(jf));
        }
        o["fields"] = std::move(fields);
        json::Array statics;
        for (auto *d : rd->decls()) {
            if (auto *vd = dyn_cast<VarDecl>(d)) {
                json::Object jf; jf["n"] = nameOf(vd); jf["t"] = typeStr(vd->getType()); jf["l"] = (int64_t)lineOf(vd->getLocation());
                if (vd->getInit()) { std::string is; llvm::raw_string_ostream ios(is); vd->getInit()->printPretty(ios, nullptr, PP); jf["init"] = trunc(ios.str(), 200); }
                if (vd->getInit() && !vd->getInit()->isValueDependent() && vd->getType()->isIntegralOrEnumerationType()) {
                    Expr::EvalResult r;
                    if (vd->getInit()->EvaluateAsInt(r, Ctx, Expr::SE_NoSideEffects)) jf["v"] = r.Val.getInt().getExtValue();
                }
                statics.push_back(std::move(jf));
            }
        }
        o["statics"] = std::move(statics);
        json::Array bases;
        for (auto &b : rd->bases()) bases.push_back(typeStr(b.getType()));
        o["bases"] = std::move(bases);
        json::Array methods;
        for (auto *m : rd->methods()) if (!m->isImplicit()) methods.push_back(nameOf(m));
        o["methods"] = std::move(methods);
        OS << json::Value(std::move(o)) << "\n";
    }

    // out-of-line definitions of static data members (attribute tables are built this way)
    void emitVar(const VarDecl *vd) {
        if (!vd->isStaticDataMember() || !vd->isOutOfLine() || !vd->isThisDeclarationADefinition() || !vd->getInit()) return;
        std::string file; unsigned line = 0;
        if (!inRoots(vd->getLocation(), &file, &line)) return;
        if (!vd->getDeclContext()->isDependentContext()) return;   // patterns only: instantiations repeat them
        std::string key = qnameOf(vd) + "@" + std::to_string(line);
        if (!EnumSeen.insert("var:" + key).second) return;
        json::Object o;
        o["rec"] = "var"; o["q"] = qnameOf(vd); o["file"] = file; o["line"] = (int64_t)line; o["t"] = typeStr(vd->getType());
        FnState st;
        o["init"] = tree(st, vd->getInit());
        OS << json::Value(std::move(o)) << "\n";
    }

    void emitEnum(const EnumDecl *ed) {
        if (!ed->isThisDeclarationADefinition()) return;
        std::string file; unsigned line = 0;
        if (!inRoots(ed->getLocation(), &file, &line)) return;
        if (ed->isDependentType()) {
            // enumerators of an enum inside a template are still useful when not value dependent
        }
        std::string key = qnameOf(ed) + "@" + std::to_string(line);
        if (!EnumSeen.insert(key).second) return;
        json::Object o;
        o["rec"] = "enum"; o["q"] = qnameOf(ed); o["file"] = file; o["line"] = (int64_t)line;
        o["ut"] = typeStr(ed->getIntegerType());
        json::Array es;
        for (auto *e : ed->enumerators()) {
            json::Object je; je["n"] = nameOf(e);
            { int64_t ev; if (enumValue(e, ev)) je["v"] = ev; }
            es.push_back(std::move(je));
        }
        o["enumerators"] = std::move(es);
        OS << json::Value(std::move(o)) << "\n";
    }

    void summary() {
        json::Object o; o["rec"] = "summary"; o["functions"] = (int64_t)NFn;
        json::Object d;
        for (auto &kv : Dropped) d[kv.first] = (int64_t)kv.second;
        o["dropped_instantiations"] = std::move(d);
        OS << json::Value(std::move(o)) << "\n";
    }

private:
    ASTContext &Ctx;
    SourceManager &SM;
    llvm::raw_ostream &OS;
    PrintingPolicy PP;
    std::unique_ptr<llvm::Regex> Sel;
    std::set<const FunctionDecl *> Seen;
    std::set<const Decl *> SeenDecl;
    std::set<std::string> EnumSeen;
    std::map<std::string, std::map<size_t, unsigned>> InstSeen;
    std::map<std::string, unsigned> Dropped;
    std::map<std::string, unsigned> ClassInst;
    unsigned NFn = 0;
};

class Visitor : public RecursiveASTVisitor<Visitor> {
public:
    explicit Visitor(Emitter &e) : E(e) {}
    bool shouldVisitTemplateInstantiations() const { return true; }
    bool shouldVisitImplicitCode() const { return false; }
    bool VisitFunctionDecl(FunctionDecl *fd) { E.emitFunction(fd); return true; }
    bool VisitCXXRecordDecl(CXXRecordDecl *rd) { E.emitRecord(rd); return true; }
    bool VisitEnumDecl(EnumDecl *ed) { E.emitEnum(ed); return true; }
    bool VisitVarDecl(VarDecl *vd) { E.emitVar(vd); return true; }
private:
    Emitter &E;
};

class Consumer : public ASTConsumer {
public:
    void HandleTranslationUnit(ASTContext &ctx) override {
        if (ctx.getDiagnostics().hasErrorOccurred()) {
            llvm::errs() << "btfacts: unit has compile errors, facts not written\n";
            HadError = true;
            return;
        }
        std::error_code ec;
        std::unique_ptr<llvm::raw_fd_ostream> fo;
        llvm::raw_ostream *os = &llvm::outs();
        if (OutFile != "-") { fo.reset(new llvm::raw_fd_ostream(OutFile, ec)); if (ec) { llvm::errs() << "cannot open " << OutFile << "\n"; HadError = true; return; } os = fo.get(); }
        Emitter e(ctx, *os);
        Visitor v(e);
        v.TraverseDecl(ctx.getTranslationUnitDecl());
        e.summary();
    }
    static bool HadError;
};
bool Consumer::HadError = false;

class Action : public ASTFrontendAction {
public:
    std::unique_ptr<ASTConsumer> CreateASTConsumer(CompilerInstance &, StringRef) override { return std::make_unique<Consumer>(); }
};

} // namespace

int main(int argc, const char **argv) {
    auto ep = CommonOptionsParser::create(argc, argv, Cat);
    if (!ep) { llvm::errs() << ep.takeError(); return 2; }
    if (Roots.empty()) Roots.push_back("/repo/bluetoe");
    ClangTool tool(ep->getCompilations(), ep->getSourcePathList());
    int rc = tool.run(newFrontendActionFactory<Action>().get());
    if (rc != 0 || Consumer::HadError) return 2;
    return 0;
}
