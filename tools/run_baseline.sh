#!/bin/sh
# Build the repository (the 5 test targets outside the pinned 70 do not compile: keep going) and run the pinned suite.
R=${1:-/repo}
cmake --build $R/_build -- -k 0 >/tmp/baseline_build.log 2>&1
ctest --test-dir $R/_build -j16 --timeout 900 > /tmp/baseline_ctest.log 2>&1
python3 - "$R" <<'PY'
import json,re,sys
base=set(n.split('::')[0] for n in json.load(open('/root/.vp/BASELINE.json'))['stable_pass'])
passed=set(); failed=set()
for l in open('/tmp/baseline_ctest.log'):
    m=re.search(r'Test\s+#\d+:\s+(\S+)\s+\.+\s*(Passed|\*\*\*\S*|Failed|Not Run)',l)
    if m:
        (passed if m.group(2)=='Passed' else failed).add(m.group(1))
missing=sorted(base-passed)
print('pinned tests passed: %d/%d' % (len(base&passed),len(base)))
if missing: print('NOT PASSED:',missing)
sys.exit(1 if missing else 0)
PY
