#!/bin/sh
# Build the repository (the 5 test targets outside the pinned 70 do not compile: keep going) and run the pinned suite.
R=${1:-/repo}
if [ ! -f $R/_build/build.ninja ]; then
  cmake -G Ninja -S $R -B $R/_build -DBLUETOE_BUILD_UNIT_TESTS=ON -DCMAKE_BUILD_TYPE=RelWithDebInfo -DCMAKE_CXX_FLAGS=-Wno-error >/tmp/baseline_cfg.$$.log 2>&1 || { cat /tmp/baseline_cfg.$$.log; exit 3; }
fi
cmake --build $R/_build -- -k 0 >/tmp/baseline_build.$$.log 2>&1
ctest --test-dir $R/_build -j16 --timeout 900 > /tmp/baseline_ctest.$$.log 2>&1
python3 - "$R" /tmp/baseline_ctest.$$.log <<'PY'
import json,re,sys
base=set(n.split('::')[0] for n in json.load(open('/root/.vp/BASELINE.json'))['stable_pass'])
passed=set(); failed=set()
for l in open(sys.argv[2]):
    m=re.search(r'Test\s+#\d+:\s+(\S+)\s+\.+\s*(Passed|\*\*\*\S*|Failed|Not Run)',l)
    if m:
        (passed if m.group(2)=='Passed' else failed).add(m.group(1))
missing=sorted(base-passed)
print('pinned tests passed: %d/%d' % (len(base&passed),len(base)))
if missing: print('NOT PASSED:',missing)
sys.exit(1 if missing else 0)
PY
rc=$?
rm -f /tmp/baseline_build.$$.log /tmp/baseline_ctest.$$.log /tmp/baseline_cfg.$$.log
exit $rc
