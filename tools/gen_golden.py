#!/usr/bin/env python3
"""Regenerates spec/golden_functions.json.gz from /repo's current tree: the structure of every function in the rule modules' SELECT scope
(quick unit set). Run only after the rules were re-confirmed against the tree by reading (it freezes what "the code the rules know" is)."""
import os, sys, importlib
sys.path.insert(0, os.path.dirname(os.path.dirname(os.path.abspath(__file__))))
from rules.lib import facts as F, golden
fns = {}
for i in range(1, 41):
    name = 'C%02d' % i
    try:
        mod = importlib.import_module('rules.' + name)
    except ImportError:
        continue
    outdir, units = F.ensure_facts('quick', getattr(mod, 'UNITS', None))
    facts = F.Facts(outdir, units, select=getattr(mod, 'SELECT', None))
    for fn in facts.functions:
        if fn.kind in ('pattern', 'plain', 'inst') and fn._cfg is not None or fn.kind in ('pattern', 'plain'):
            k = (golden.key(fn), tuple(golden.tokens(fn)))
            if k not in fns or (fns[k].kind == 'inst' and fn.kind != 'inst'):
                fns[k] = fn
n = golden.record(fns.values())
print('golden functions:', n, 'size', os.path.getsize(golden.PATH))
