#!/bin/sh
# usage: tools/verify_neutral.sh <dir with patch.diff, meta.json>  -- a behaviour-preserving refactoring: the pinned 70 tests must pass with it and the property's check must not report a violation
set -u
seed=$(cd "$1" && pwd)
prop=$(python3 -c "import json,sys;print(json.load(open('$seed/meta.json'))['property'])")
wt=/tmp/vseed
if [ ! -d $wt ]; then git -C /repo worktree add --detach $wt HEAD >/dev/null 2>&1 || exit 3; fi
git -C $wt checkout -q --detach $(git -C /repo rev-parse HEAD) 2>/dev/null; git -C $wt checkout -- . ; git -C $wt clean -fdq -e _build
if ! git -C $wt apply "$seed/patch.diff" 2>/tmp/vseed_apply.err; then echo "PATCH-DOES-NOT-APPLY: $(head -3 /tmp/vseed_apply.err)"; exit 4; fi
tests=$(/verif/tools/run_baseline.sh $wt | grep -v WARNING | tail -2 | tr '\n' ' ')
VD=$(dirname $0)/..
( cd $VD && BT_REPO=$wt BT_CACHE=/tmp/vseed_cache BT_EVIDENCE=/tmp/vseed_ev ./check $prop --tier quick ) > "$seed/check.txt" 2>&1; c1=$?
git -C $wt checkout -- .
rm -rf /tmp/vseed_cache /tmp/vseed_ev
echo "NEUTRAL prop=$prop tests='$tests' check=$c1"
