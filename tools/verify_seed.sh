#!/bin/sh
# usage: tools/verify_seed.sh <seed dir with patch.diff, build.sh, meta.json>
# Confirms an independently produced breaking change in a scratch worktree (/tmp/vseed, kept between calls for incremental builds):
#   1. patch applies, the pinned 70 tests still pass with it
#   2. the demonstration fails with the patch and passes without it
#   3. runs the property's quick check against the patched worktree and stores the output as caught.txt
# Nothing is changed in /repo.
set -u
seed=$(cd "$1" && pwd)
prop=$(python3 -c "import json,sys;print(json.load(open('$seed/meta.json'))['property'])")
wt=/tmp/vseed
if [ ! -d $wt ]; then git -C /repo worktree add --detach $wt HEAD >/dev/null 2>&1 || exit 3; fi
git -C $wt checkout -q --detach $(git -C /repo rev-parse HEAD) 2>/dev/null; git -C $wt checkout -- . ; git -C $wt clean -fdq -e _build
echo "== seed $seed (property $prop)"
if ! git -C $wt apply "$seed/patch.diff" 2>/tmp/vseed_apply.err; then echo "PATCH-DOES-NOT-APPLY: $(head -3 /tmp/vseed_apply.err)"; exit 4; fi
tests=$(/verif/tools/run_baseline.sh $wt | grep -v WARNING | tail -2 | tr '\n' ' ')
echo "tests with patch: $tests"
( cd "$seed" && sh ./build.sh $wt ) > /tmp/vseed_demo_patched.txt 2>&1; d1=$?
echo "demo with patch: exit $d1: $(grep -v WARNING /tmp/vseed_demo_patched.txt | tail -2 | tr '\n' ' ' | cut -c1-200)"
VD=$(dirname $0)/..
( cd $VD && BT_REPO=$wt BT_CACHE=/tmp/vseed_cache BT_EVIDENCE=/tmp/vseed_ev ./check $prop --tier quick ) > "$seed/caught.txt" 2>&1; c1=$?
echo "check $prop with patch: exit $c1: $(grep -E 'violated|BROKEN' "$seed/caught.txt" | head -2 | cut -c1-260)"
git -C $wt checkout -- .
( cd "$seed" && sh ./build.sh $wt ) > /tmp/vseed_demo_clean.txt 2>&1; d0=$?
echo "demo without patch: exit $d0: $(grep -v WARNING /tmp/vseed_demo_clean.txt | tail -1 | cut -c1-160)"
rm -rf /tmp/vseed_cache /tmp/vseed_ev
echo "RESULT prop=$prop tests='$tests' demo_patched=$d1 demo_clean=$d0 check=$c1"
