#!/bin/sh
# usage: tools/run_all.sh [quick|thorough]  -- runs every registered check, prints one line per check
tier=${1:-quick}
cd "$(dirname "$0")/.."
make -C tools >/dev/null 2>&1
for c in $(python3 -c "import json;print(' '.join(c['property_id'] for c in json.load(open('MANIFEST.json'))['checks']))"); do
  s=$(date +%s)
  ./check $c --tier $tier > /tmp/run_all.$$.txt 2>&1; rc=$?
  e=$(date +%s)
  echo "$c tier=$tier exit=$rc $((e-s))s $(head -1 /tmp/run_all.$$.txt | cut -c1-120)"
  [ $rc -ne 0 ] && grep -E "violated|BROKEN" /tmp/run_all.$$.txt | cut -c1-300 | head -8
done
rm -f /tmp/run_all.$$.txt
