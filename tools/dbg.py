"""debug helper: python3 -i tools/dbg.py Cxx  -> `facts`, `mod`, and everything of rules.lib.match in scope"""
import sys, os, importlib
sys.path.insert(0, "/verif")
from rules.lib import facts as F
from rules.lib.match import *


def load(prop, tier='quick'):
    mod = importlib.import_module('rules.' + prop)
    outdir, units = F.ensure_facts(tier, getattr(mod, 'UNITS', None))
    return mod, F.Facts(outdir, units, select=getattr(mod, 'SELECT', None))


if len(sys.argv) > 1:
    mod, facts = load(sys.argv[1])
