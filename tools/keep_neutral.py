#!/usr/bin/env python3
"""usage: keep_neutral.py <source dir> [suffix]
Copies centrally verified behaviour-preserving refactorings (<source>/<id>/patch.diff + meta.json, verify.log written by tools/verify_neutral.sh)
into /verif/seeded_neutral/<id><suffix>/ and regenerates seeded_neutral/README.md. Kept only when the 70 pinned tests pass with the patch."""
import os, re, json, shutil, sys
SRC = sys.argv[1]
SUFFIX = sys.argv[2] if len(sys.argv) > 2 else ''
DST = os.path.join(os.path.dirname(os.path.dirname(os.path.abspath(__file__))), 'seeded_neutral')
os.makedirs(DST, exist_ok=True)
for d in sorted(os.listdir(SRC)):
    sd = os.path.join(SRC, d)
    log = os.path.join(sd, 'verify.log')
    if not os.path.exists(log) or not os.path.exists(os.path.join(sd, 'meta.json')):
        continue
    m = re.search(r"NEUTRAL prop=(\S+) tests='pinned tests passed: (\d+)/(\d+) ' check=(\d+)", open(log).read())
    if not m or not (int(m.group(2)) == int(m.group(3)) == 70):
        print('NOT CONFIRMED', d, open(log).read()[-200:].strip())
        continue
    out = os.path.join(DST, d + SUFFIX)
    os.makedirs(out, exist_ok=True)
    shutil.copy(os.path.join(sd, 'patch.diff'), os.path.join(out, 'patch.diff'))
    meta = json.load(open(os.path.join(sd, 'meta.json')))
    meta['confirmed'] = {'by': 'tools/verify_neutral.sh in scratch worktree /tmp/vseed (removed afterwards)', 'pinned_tests_with_patch': '70/70', 'check_exit_when_kept': int(m.group(4))}
    json.dump(meta, open(os.path.join(out, 'meta.json'), 'w'), indent=1)
    print('kept', d + SUFFIX, 'check exit', m.group(4))
rows = []
for d in sorted(os.listdir(DST)):
    mp = os.path.join(DST, d, 'meta.json')
    if os.path.exists(mp):
        m = json.load(open(mp))
        rows.append((d, m['property'], str(m.get('summary', '')).replace('\n', ' ').replace('|', '/')[:260], m.get('confirmed', {}).get('check_exit_when_kept')))
with open(os.path.join(DST, 'README.md'), 'w') as f:
    f.write('# Behaviour-preserving refactorings\n\nOne patch per directory, written by sub-agents that saw only the property text; each passes the 70 pinned tests. The property\'s check must not report a violation on them: '
            'exit 0 (verdict: holds) or exit 2 (idiom not recognised, no verdict). `selftest/run.py` replays all of them. Suffix `s` and `t` = small edits (one function, at most 6 lines; two independent sets), no suffix = combined refactorings of 10-40 lines.\n\n'
            '| patch | property | refactoring | check exit when kept |\n|---|---|---|---|\n')
    for r in rows:
        f.write('| %s | %s | %s | %s |\n' % r)
print(len(rows), 'refactorings in', DST)
