// Parse-only stand-in for Nordic's nrf.h (MDK): declarations the Bluetoe nRF52 binding refers to.
// Generated from the register and macro names used under bluetoe/bindings/nordic; never compiled into anything that runs.
#ifndef VERIF_STUB_NRF_H
#define VERIF_STUB_NRF_H
#include <stdint.h>
#define __NVIC_PRIO_BITS 3
typedef enum { Reset_IRQn = -15, POWER_CLOCK_IRQn = 0, RADIO_IRQn = 1, TIMER1_IRQn = 9, RTC0_IRQn = 11 } IRQn_Type;
typedef struct {
    volatile uint32_t ADDRPTR;
    volatile uint32_t ENABLE;
    volatile uint32_t EVENTS_END;
    volatile uint32_t EVENTS_NOTRESOLVED;
    volatile uint32_t EVENTS_RESOLVED;
    volatile uint32_t IRKPTR;
    volatile uint32_t NIRK;
    volatile uint32_t SCRATCHPTR;
} NRF_AAR_Type;
typedef struct {
    volatile uint32_t CNFPTR;
    volatile uint32_t ENABLE;
    volatile uint32_t EVENTS_ENDCRYPT;
    volatile uint32_t EVENTS_ENDKSGEN;
    volatile uint32_t EVENTS_ERROR;
    volatile uint32_t INPTR;
    volatile uint32_t INTENCLR;
    volatile uint32_t MAXPACKETSIZE;
    volatile uint32_t MICSTATUS;
    volatile uint32_t MODE;
    volatile uint32_t OUTPTR;
    volatile uint32_t SCRATCHPTR;
    volatile uint32_t SHORTS;
    volatile uint32_t TASKS_KSGEN;
} NRF_CCM_Type;
typedef struct {
    volatile uint32_t CTIV;
    volatile uint32_t EVENTS_CTTO;
    volatile uint32_t EVENTS_DONE;
    volatile uint32_t EVENTS_HFCLKSTARTED;
    volatile uint32_t EVENTS_LFCLKSTARTED;
    volatile uint32_t HFCLKSTAT;
    volatile uint32_t INTENCLR;
    volatile uint32_t INTENSET;
    volatile uint32_t LFCLKSRC;
    volatile uint32_t TASKS_CAL;
    volatile uint32_t TASKS_CTSTART;
    volatile uint32_t TASKS_CTSTOP;
    volatile uint32_t TASKS_HFCLKSTART;
    volatile uint32_t TASKS_HFCLKSTOP;
    volatile uint32_t TASKS_LFCLKSTART;
} NRF_CLOCK_Type;
typedef struct {
    volatile uint32_t ECBDATAPTR;
    volatile uint32_t EVENTS_ENDECB;
    volatile uint32_t EVENTS_ERRORECB;
    volatile uint32_t TASKS_STARTECB;
} NRF_ECB_Type;
typedef struct {
    volatile uint32_t DEVICEID[32];
} NRF_FICR_Type;
typedef struct {
    volatile uint32_t RESERVED;
} NRF_GPIOTE_Type;
typedef struct {
    volatile uint32_t OUTCLR;
    volatile uint32_t OUTSET;
    volatile uint32_t PIN_CNF[32];
} NRF_GPIO_Type;
typedef struct {
    struct { volatile uint32_t EEP; volatile uint32_t TEP; } CH[32];
    volatile uint32_t CHENCLR;
    volatile uint32_t CHENSET;
} NRF_PPI_Type;
typedef struct {
    volatile uint32_t BASE0;
    volatile uint32_t BCC;
    volatile uint32_t CRCCNF;
    volatile uint32_t CRCINIT;
    volatile uint32_t CRCPOLY;
    volatile uint32_t CRCSTATUS;
    volatile uint32_t DATAWHITEIV;
    volatile uint32_t EVENTS_ADDRESS;
    volatile uint32_t EVENTS_DISABLED;
    volatile uint32_t EVENTS_END;
    volatile uint32_t EVENTS_PAYLOAD;
    volatile uint32_t EVENTS_READY;
    volatile uint32_t FREQUENCY;
    volatile uint32_t INTENCLR;
    volatile uint32_t INTENSET;
    volatile uint32_t MODE;
    volatile uint32_t MODECNF0;
    volatile uint32_t PACKETPTR;
    volatile uint32_t PCNF0;
    volatile uint32_t PCNF1;
    volatile uint32_t PREFIX0;
    volatile uint32_t RXADDRESSES;
    volatile uint32_t SHORTS;
    volatile uint32_t STATE;
    volatile uint32_t TASKS_DISABLE;
    volatile uint32_t TASKS_TXEN;
    volatile uint32_t TIFS;
    volatile uint32_t TXADDRESS;
} NRF_RADIO_Type;
typedef struct {
    volatile uint32_t CONFIG;
    volatile uint32_t EVENTS_VALRDY;
    volatile uint32_t SHORTS;
    volatile uint32_t TASKS_START;
    volatile uint32_t VALUE;
} NRF_RNG_Type;
typedef struct {
    volatile uint32_t CC[32];
    volatile uint32_t COUNTER;
    volatile uint32_t EVENTS_COMPARE[32];
    volatile uint32_t EVTEN;
    volatile uint32_t EVTENSET;
    volatile uint32_t TASKS_START;
    volatile uint32_t TASKS_STOP;
} NRF_RTC_Type;
typedef struct {
    volatile uint32_t EVENTS_DATARDY;
    volatile uint32_t TASKS_START;
    volatile uint32_t TEMP;
} NRF_TEMP_Type;
typedef struct {
    volatile uint32_t CC[32];
    volatile uint32_t EVENTS_COMPARE[32];
    volatile uint32_t INTENCLR;
    volatile uint32_t INTENSET;
    volatile uint32_t SHORTS;
    volatile uint32_t TASKS_CAPTURE[32];
    volatile uint32_t TASKS_CLEAR;
    volatile uint32_t TASKS_START;
    volatile uint32_t TASKS_STOP;
    volatile uint32_t MODE;
    volatile uint32_t BITMODE;
    volatile uint32_t PRESCALER;
} NRF_TIMER_Type;
#define NRF_AAR (( NRF_AAR_Type* )0x40000000UL)
#define NRF_CCM (( NRF_CCM_Type* )0x40001000UL)
#define NRF_CLOCK (( NRF_CLOCK_Type* )0x40002000UL)
#define NRF_ECB (( NRF_ECB_Type* )0x40003000UL)
#define NRF_FICR (( NRF_FICR_Type* )0x40004000UL)
#define NRF_GPIO (( NRF_GPIO_Type* )0x40005000UL)
#define NRF_GPIOTE (( NRF_GPIOTE_Type* )0x40006000UL)
#define NRF_PPI (( NRF_PPI_Type* )0x40007000UL)
#define NRF_RADIO (( NRF_RADIO_Type* )0x40008000UL)
#define NRF_RNG (( NRF_RNG_Type* )0x40009000UL)
#define NRF_RTC0 (( NRF_RTC_Type* )0x4000a000UL)
#define NRF_TEMP (( NRF_TEMP_Type* )0x4000b000UL)
#define NRF_TIMER0 (( NRF_TIMER_Type* )0x4000c000UL)
#define NRF_TIMER1 (( NRF_TIMER_Type* )0x4000d000UL)
#define AAR_ENABLE_ENABLE_Msk (1UL)
#define CCM_ENABLE_ENABLE_Disabled (1UL)
#define CCM_ENABLE_ENABLE_Enabled (1UL)
#define CCM_ENABLE_ENABLE_Msk (128UL)
#define CCM_MICSTATUS_MICSTATUS_CheckFailed (1UL)
#define CCM_MICSTATUS_MICSTATUS_Msk (512UL)
#define CCM_MODE_DATARATE_1Mbit (1UL)
#define CCM_MODE_DATARATE_2Mbit (1UL)
#define CCM_MODE_DATARATE_Pos (4UL)
#define CCM_MODE_LENGTH_Extended (1UL)
#define CCM_MODE_LENGTH_Pos (6UL)
#define CCM_MODE_MODE_Decryption (1UL)
#define CCM_MODE_MODE_Encryption (1UL)
#define CCM_MODE_MODE_Pos (1UL)
#define CCM_SHORTS_ENDKSGEN_CRYPT_Msk (4UL)
#define CLOCK_HFCLKSTAT_SRC_Msk (8UL)
#define CLOCK_HFCLKSTAT_STATE_Msk (16UL)
#define CLOCK_INTENSET_CTTO_Msk (32UL)
#define CLOCK_INTENSET_DONE_Msk (64UL)
#define CLOCK_INTENSET_HFCLKSTARTED_Msk (128UL)
#define CLOCK_LFCLKSRCCOPY_SRC_Pos (0UL)
#define CLOCK_LFCLKSRCCOPY_SRC_RC (1UL)
#define CLOCK_LFCLKSRCCOPY_SRC_Synth (1UL)
#define CLOCK_LFCLKSRCCOPY_SRC_Xtal (1UL)
#define CLOCK_LFCLKSTAT_SRC_Pos (4UL)
#define CLOCK_LFCLKSTAT_SRC_Xtal (1UL)
#define CLOCK_LFCLKSTAT_STATE_Pos (6UL)
#define CLOCK_LFCLKSTAT_STATE_Running (1UL)
#define FICR_OVERRIDEEN_BLE_1MBIT_Msk (1UL)
#define FICR_OVERRIDEEN_BLE_1MBIT_Override (1UL)
#define FICR_OVERRIDEEN_BLE_1MBIT_Pos (2UL)
#define GPIOTE_CONFIG_MODE_Pos (3UL)
#define GPIOTE_CONFIG_MODE_Task (1UL)
#define GPIOTE_CONFIG_OUTINIT_Low (1UL)
#define GPIOTE_CONFIG_OUTINIT_Pos (6UL)
#define GPIOTE_CONFIG_POLARITY_Pos (7UL)
#define GPIOTE_CONFIG_POLARITY_Toggle (1UL)
#define GPIOTE_CONFIG_PSEL_Pos (1UL)
#define GPIO_PIN_CNF_DIR_Output (1UL)
#define GPIO_PIN_CNF_DIR_Pos (3UL)
#define GPIO_PIN_CNF_DRIVE_Pos (4UL)
#define GPIO_PIN_CNF_DRIVE_S0H1 (1UL)
#define RADIO_CRCCNF_LEN_Pos (4UL)
#define RADIO_CRCCNF_LEN_Three (1UL)
#define RADIO_CRCCNF_SKIPADDR_Pos (6UL)
#define RADIO_CRCCNF_SKIPADDR_Skip (1UL)
#define RADIO_CRCSTATUS_CRCSTATUS_CRCOk (1UL)
#define RADIO_CRCSTATUS_CRCSTATUS_Msk (2UL)
#define RADIO_INTENCLR_DISABLED_Msk (4UL)
#define RADIO_INTENSET_DISABLED_Msk (8UL)
#define RADIO_MODECNF0_DTX_Center (1UL)
#define RADIO_MODECNF0_DTX_Pos (5UL)
#define RADIO_MODE_MODE_Ble_1Mbit (1UL)
#define RADIO_MODE_MODE_Ble_2Mbit (1UL)
#define RADIO_MODE_MODE_Pos (0UL)
#define RADIO_PCNF0_LFLEN_Pos (1UL)
#define RADIO_PCNF0_PLEN_16bit (1UL)
#define RADIO_PCNF0_PLEN_8bit (1UL)
#define RADIO_PCNF0_PLEN_Msk (4096UL)
#define RADIO_PCNF0_PLEN_Pos (5UL)
#define RADIO_PCNF0_S0LEN_Pos (6UL)
#define RADIO_PCNF0_S1INCL_Automatic (1UL)
#define RADIO_PCNF0_S1INCL_Include (1UL)
#define RADIO_PCNF0_S1INCL_Pos (1UL)
#define RADIO_PCNF0_S1LEN_Pos (2UL)
#define RADIO_PCNF1_BALEN_Pos (3UL)
#define RADIO_PCNF1_ENDIAN_Little (1UL)
#define RADIO_PCNF1_ENDIAN_Pos (5UL)
#define RADIO_PCNF1_MAXLEN_Msk (64UL)
#define RADIO_PCNF1_MAXLEN_Pos (7UL)
#define RADIO_PCNF1_STATLEN_Pos (0UL)
#define RADIO_PCNF1_WHITEEN_Enabled (1UL)
#define RADIO_PCNF1_WHITEEN_Pos (2UL)
#define RADIO_PREFIX0_AP0_Msk (2048UL)
#define RADIO_SHORTS_ADDRESS_BCSTART_Msk (4096UL)
#define RADIO_SHORTS_DISABLED_RXEN_Msk (8192UL)
#define RADIO_SHORTS_DISABLED_TXEN_Msk (16384UL)
#define RADIO_SHORTS_END_DISABLE_Msk (32768UL)
#define RADIO_SHORTS_READY_START_Msk (1UL)
#define RADIO_STATE_STATE_Disabled (1UL)
#define RADIO_STATE_STATE_Msk (4UL)
#define RNG_CONFIG_DERCEN_Msk (8UL)
#define RNG_SHORTS_VALRDY_STOP_Msk (16UL)
#define RTC_EVTEN_COMPARE0_Enabled (1UL)
#define RTC_EVTEN_COMPARE0_Pos (6UL)
#define RTC_EVTEN_COMPARE1_Enabled (1UL)
#define RTC_EVTEN_COMPARE1_Pos (0UL)
#define RTC_EVTEN_COMPARE2_Enabled (1UL)
#define RTC_EVTEN_COMPARE2_Pos (2UL)
#define RTC_EVTEN_OVRFLW_Enabled (1UL)
#define RTC_EVTEN_OVRFLW_Pos (4UL)
#define TIMER_BITMODE_BITMODE_32Bit (1UL)
#define TIMER_INTENSET_COMPARE0_Enabled (1UL)
#define TIMER_INTENSET_COMPARE0_Pos (7UL)
#define TIMER_MODE_MODE_Pos (0UL)
#define TIMER_MODE_MODE_Timer (1UL)
#define TIMER_SHORTS_COMPARE1_STOP_Enabled (1UL)
#define TIMER_SHORTS_COMPARE1_STOP_Pos (3UL)
typedef struct { volatile uint32_t ISER[8]; volatile uint32_t ICER[8]; volatile uint32_t ISPR[8]; volatile uint32_t ICPR[8]; volatile uint32_t IP[240]; } NVIC_Type;
#define NVIC (( NVIC_Type* )0xE000E100UL)
static inline void NVIC_EnableIRQ( IRQn_Type ) {}
static inline void NVIC_ClearPendingIRQ( IRQn_Type ) {}
static inline void NVIC_SetPriority( IRQn_Type, uint32_t ) {}
static inline void __disable_irq( void ) {}
static inline void __enable_irq( void ) {}
static inline void __WFI( void ) {}
static inline uint32_t __get_PRIMASK( void ) { return 0; }
static inline void __set_PRIMASK( uint32_t ) {}
#endif
