"""C16 Encryption packet counters advance exactly once per new PDU (call-site structure)."""
from .lib.match import *
from .C15 import sn_eq_expected

SELECT = r'^bluetoe::link_layer::ll_data_pdu_buffer::|^bluetoe::nrf52_details::|^bluetoe::nrf_details::'
UNITS = lambda u: u in ('w_inst_ll',) or u.startswith('t_link_layer') or u.startswith('nrf_')
BUF = 'bluetoe::link_layer::ll_data_pdu_buffer::'
ALSO = [('C15', ('commit-co-update', 'connection-state-reset'))]   # clauses of this property that another module's rules decide: run here as well
META = {
    'level': 'call-site structure: exactly one call site of increment_receive_packet_counter (received(): new PDU and length != 0) and one of '
             'increment_transmit_packet_counter (acknowledge(bool): next to pop_end, PDU acknowledged, not an empty PDU); no other caller in the analysed program. '
             'A second call site, a missing guard or a counter bump on the MIC-failure/retransmission path makes a CCM nonce repeat or skip for some PDU stream.',
    'technique': 'static who-calls + guarded-by rule over clang AST/CFG facts',
}


def run(chk, facts, tier):
    chk.rule('rx-counter-site', 'increment_receive_packet_counter() is called only in ll_data_pdu_buffer::received(), control dependent on exactly SN == expected and (header & 0xff00) != 0 (no further condition, e.g. on the LLID)', floor=1)
    chk.rule('tx-counter-site', 'increment_transmit_packet_counter() is called only in ll_data_pdu_buffer::acknowledge(bool), in the same branch as pop_end (sn != nesn, no empty PDU outstanding)', floor=1)
    chk.rule('nesn-toggle-counts', 'every NESN toggle is in received() and the receive counter increment is reachable only through that toggle\'s branch', floor=1)
    variants(facts, BUF + 'received', chk)
    chk.rule('counter-carry', 'nRF52 39 bit packet counter: increment() is ++low with a carry into high exactly when low wrapped to 0; the counters are incremented only by the two forwarding functions', floor=3)
    for fn in facts.fns('bluetoe::nrf52_details::counter::increment'):
        sts = [(target_name(tgt), op, st) for tgt, op, val, st in stores(fn.body)]
        ok = sorted(x[0] for x in sts) == ['high', 'low'] and all(op == '++' for n, op, st in sts)
        if ok:
            hi = [st for n, op, st in sts if n == 'high'][0]
            lo = [st for n, op, st in sts if n == 'low'][0]
            ok = has_atom(guard_atoms(fn, hi), lambda n: is_name(n, 'low'), {'=='}, lambda o: cval(o) == 0) and precedes(fn, lo, hi) and not fn.guards(lo)
        chk.instance('counter-carry', fn, '++low; if (low == 0) ++high', ok, '' if ok else 'the packet counter does not carry into its upper bits: the CCM nonce repeats after 2^32 packets', key='carry')
    for fn in facts.functions:
        if fn.q.startswith('bluetoe::nrf52_details::'):
            for c in fn.body.calls('increment'):
                o = base_object(c)
                if o is not None and strip_casts(o).n in ('receive_counter_', 'transmit_counter_'):
                    want = 'increment_receive_packet_counter' if strip_casts(o).n == 'receive_counter_' else 'increment_transmit_packet_counter'
                    ok = fn.name == want
                    chk.instance('counter-carry', fn, '%s.increment() in %s' % (strip_casts(o).n, fn.name), ok, '' if ok else 'packet counter advanced outside its forwarding function', node=c, key='inc %s in %s' % (strip_casts(o).n, fn.name))
    for fn in facts.functions:
        if fn.name in ('increment_receive_packet_counter', 'increment_transmit_packet_counter'):
            continue   # forwarding functions of the radio bindings (radio -> hardware)
        for c in fn.body.calls('increment_receive_packet_counter'):
            if fn.q == BUF + 'received':
                ats = guard_atoms(fn, c)
                new = sn_eq_expected(ats, '==')
                nonempty = any(op == '!=' and cval(r) == 0 and not isinstance(l, int) and l.k == 'BinaryOperator' and l.o == '&' and cval(l.c[1]) == 0xff00 for l, op, r in ats)
                def is_new(a):
                    return sn_eq_expected([a], '==')

                def is_nonempty(a):
                    l, op, r = a
                    return op == '!=' and cval(r) == 0 and not isinstance(l, int) and l.k == 'BinaryOperator' and l.o == '&' and cval(l.c[1]) == 0xff00
                extra = [a for a in ats if not is_new(a) and not is_nonempty(a) and not (not isinstance(a[0], int) and resolve_local(a[0]) is not None) and not (not isinstance(a[2], int) and resolve_local(a[2]) is not None)]
                ok = new and nonempty and not extra and len(fn.body.calls('increment_receive_packet_counter')) == 1
                chk.instance('rx-counter-site', fn, 'increment_receive_packet_counter() under exactly (SN == expected) && (length != 0)', ok, '' if ok else 'guards: new=%s length!=0=%s, %d further condition(s): a new non-empty PDU that the central encrypted with the next counter value is not counted (or a retransmission/empty PDU is), the nonces of both sides diverge' % (new, nonempty, len(extra)), node=c, key='rx in received')
                togg = [st for tgt, op, val, st in stores(fn.body) if target_name(tgt) == 'next_expected_sequence_number_']
                ok2 = len(togg) == 1 and precedes(fn, togg[0], c)
                chk.instance('nesn-toggle-counts', fn, 'NESN toggle precedes counter increment', ok2, '' if ok2 else 'counter may advance without the PDU being acknowledged', node=c, key='toggle->count')
            else:
                chk.instance('rx-counter-site', fn, 'increment_receive_packet_counter() in ' + fn.name, False, 'receive packet counter advanced outside received(): retransmissions / MIC failures would advance the nonce', node=c, key='rx in ' + fn.q)
        for c in fn.body.calls('increment_transmit_packet_counter'):
            if fn.q == BUF + 'acknowledge' and fn.params and fn.params[0]['t'].endswith('bool'):
                pops = fn.body.calls('pop_end')
                same = len(pops) == 1 and fn.block_of(pops[0]) == fn.block_of(c)
                ats = guard_atoms(fn, c)
                g2 = has_atom(ats, lambda n: is_name(n, 'next_empty_'), {'=='}, lambda o: cval(o) == 0)
                g1 = any(op == '!=' and not isinstance(r, int) and (mentions(l, 'sn_flag') or mentions(r, 'sn_flag')) for l, op, r in ats)
                ok = same and g1 and g2 and len(fn.body.calls('increment_transmit_packet_counter')) == 1
                chk.instance('tx-counter-site', fn, 'increment_transmit_packet_counter()', ok, '' if ok else 'same block as pop_end=%s sn!=nesn=%s not-empty-pdu=%s' % (same, g1, g2), node=c, key='tx in acknowledge')
            else:
                chk.instance('tx-counter-site', fn, 'increment_transmit_packet_counter() in ' + fn.name, False, 'transmit packet counter advanced outside acknowledge(bool)', node=c, key='tx in ' + fn.q)
