"""C12 Outgoing notification queue is a fair priority queue (three structural clauses)."""
from .lib.match import *
from .C11 import pair_first, notification_not_blocked

SELECT = r'^bluetoe::(notification_queue|details::notification_queue_impl|details::notification_queue_impl_base)::'
UNITS = lambda u: u in ('w_inst_att',) or u.startswith('t_notification_queue') or u.startswith('t_att_outgoing')
Q = 'bluetoe::details::notification_queue_impl::'
B = 'bluetoe::details::notification_queue_impl_base::'
ALSO = [('C11', ('outstanding-writers',))]   # the queue is emptied on connect by the per-level clear, not by code that goes through the outstanding-indication protocol: decided by C11's rule, run here as well
META = {
    'level': 'necessary structural conditions for "set of pending (characteristic, kind) requests with priorities and round robin", checked identically on the general and the single-entry '
             'implementation: (1) state capacity - the per-characteristic state keeps notification and indication in independent bits (a 3-valued enum cannot represent both pending: pigeonhole); '
             '(2) newly-queued result is computed from the bit before it is set; (3) priority chaining - the lower-priority level is consulted only when the own level returned empty; '
             '(4) round robin - every non-empty return of the multi-entry level stores next_ = (i + 1) % Size and the scan starts at next_; (5) a pending notification is not hidden behind an indication that has to wait. Fairness over histories is not decided.',
    'technique': 'static sibling-agreement / guarded-by / store-shape rules over clang AST/CFG facts',
}


def run(chk, facts, tier):
    notification_not_blocked(chk, facts)
    chk.rule('state-capacity', 'both queue implementations keep one notification bit and one indication bit per characteristic (distinct single-bit masks); queue_notification/queue_indication set exactly their bit', floor=2)
    chk.rule('entry-addressing', 'general queue: at / add / remove address entry `index` as bits (index * bits_per_characteristc) % 8 .. of byte index * bits_per_characteristc / 8; at reads (byte >> offset) & 0x03, '
             'add ors in `bits << offset`, remove ands with ~(bits << offset) - the complement of the shifted bits, so that no other entry of the byte changes', floor=3)
    chk.rule('newly-queued-result', 'add(): the result is (state & bit) == 0 evaluated before the bit is or-ed in', floor=1)
    chk.rule('priority-chaining', 'notification_queue_impl_base::dequeue returns the own level\'s entry when it is not empty and consults the next level (offset + Size) only otherwise', floor=1)
    chk.rule('round-robin', 'multi-entry level: the scan starts at next_, visits (i + 1) % Size and every non-empty return stores next_ = (i + 1) % Size before returning', floor=2)
    impl_classes = facts.cls('bluetoe::details::notification_queue_impl')
    pats = [c for c in impl_classes if c['kind'] == 'pattern']
    chk.require(len(pats) >= 2, 'expected two implementations (general + single entry) of notification_queue_impl')
    enums = [e for e in facts.enums if e['q'].startswith('bluetoe::details::notification_queue_impl::')]
    for c in pats:
        single = c['line'] > min(p['line'] for p in pats)
        name = 'single-entry' if single else 'general'
        es = [e for e in enums if abs(e['line'] - c['line']) < 140 and e['line'] > c['line'] and (single or e['line'] < max(p['line'] for p in pats))]
        bits = {}
        for e in es:
            for en in e['enumerators']:
                bits[en['n']] = en.get('v')
        nb, ib = bits.get('notification_bit'), bits.get('indication_bit')
        ok = nb is not None and ib is not None and nb != ib and nb & (nb - 1) == 0 and ib & (ib - 1) == 0 and nb > 0 and ib > 0
        chk.obligation('state-capacity', 'notification_queue_impl (%s, line %d)' % (name, c['line']), 'notification_bit=%s indication_bit=%s fields=%s' % (nb, ib, [f['n'] + ':' + f['t'] for f in c['fields']]), ok,
                       '' if ok else 'the per-characteristic state cannot hold a pending notification and a pending indication at the same time (state is %s): a request for the second kind is refused and lost' % [f['t'] for f in c['fields'] if f['n'] in ('state_', 'queue_')],
                       key='capacity ' + name)
    for nm, bit in (('queue_notification', 'notification_bit'), ('queue_indication', 'indication_bit')):
        for fn in variants(facts, Q + nm, chk):
            adds = fn.body.calls('add')
            ok = len(adds) == 1 and any(is_name(a, bit) for a in adds[0].args()) and all(ret_value(r) is not None and ret_value(r).is_call('add') for r in fn.returns())
            chk.instance('state-capacity', fn, '%s -> add(.., %s)' % (nm, bit), ok, '' if ok else '%s does not set exactly the %s' % (nm, bit), key='%s@%s' % (nm, 'single' if fn.line > 280 else 'general'))
    for fn in variants(facts, Q + 'add', chk):
        res = fn.body.find(lambda n: n.k == 'VarDecl' and n.n == 'result')
        ors = [st for tgt, op, val, st in stores(fn.body) if op == '|=']
        ok = len(res) == 1 and len(ors) == 1
        if ok:
            init = strip_casts(res[0].c[0])
            ok = init.k == 'BinaryOperator' and init.o == '==' and cval(init.c[1]) == 0 and strip_casts(init.c[0]).k == 'BinaryOperator' and strip_casts(init.c[0]).o == '&'
            ok = ok and res[0].l < ors[0].l and all(is_name(ret_value(r), 'result') for r in fn.returns())
        chk.instance('newly-queued-result', fn, 'result = (state & bits) == 0; state |= bits', ok, '' if ok else 'the "newly queued" answer is not the pre-state of the bit', key='add@%s' % ('single' if fn.line > 280 else 'general'))
    for nm in ('at', 'add', 'remove'):
        for fn in variants(facts, Q + nm, chk):
            idx = fn.params[0]['n'] if fn.params else None
            sub = [(tgt, op, val, st) for tgt, op, val, st in stores(fn.body) if as_elem(tgt) is not None and strip_casts(as_elem(tgt)[0]).n == 'queue_']
            if nm != 'at' and not sub:
                continue            # the single-entry implementation has no addressing
            def offsets_ok(byte_node, bit_node):
                by, bi = deep(byte_node), deep(bit_node)
                b1, b2 = as_binop(by), as_binop(bi)
                okb = b1 is not None and b1[0] == '/' and cval(b1[2]) == 8 and as_binop(b1[1]) is not None and as_binop(b1[1])[0] == '*' and is_name(as_binop(b1[1])[1], idx) and strip_casts(as_binop(b1[1])[2]).n == 'bits_per_characteristc'
                oki = b2 is not None and b2[0] == '%' and cval(b2[2]) == 8 and as_binop(b2[1]) is not None and as_binop(b2[1])[0] == '*' and is_name(as_binop(b2[1])[1], idx) and strip_casts(as_binop(b2[1])[2]).n == 'bits_per_characteristc'
                return okb and oki
            ok, why = True, ''
            if nm == 'at':
                rs = fn.returns()
                if len(rs) != 1 or as_binop(ret_value(rs[0])) is None:
                    continue
                b = as_binop(ret_value(rs[0]))
                sh = as_binop(b[1]) if b[0] == '&' and cval(b[2]) == 3 else None
                e = as_elem(sh[1]) if sh and sh[0] == '>>' else None
                ok = e is not None and strip_casts(e[0]).n == 'queue_' and offsets_ok(e[1], sh[2])
                why = 'at() does not read the two bits of entry `index`'
            else:
                ok = len(sub) == 1
                if ok:
                    tgt, op, val, st = sub[0]
                    v = deep(val)
                    bits = fn.params[1]['n']
                    if nm == 'add':
                        sh = as_binop(v)
                        ok = op == '|=' and sh is not None and sh[0] == '<<' and is_name(sh[1], bits) and offsets_ok(as_elem(tgt)[1], sh[2])
                        why = 'add() does not or in exactly `bits << offset`'
                    else:
                        inner = strip_casts(v.c[0]) if v.k == 'UnaryOperator' and v.o == '~' and v.c else None
                        sh = as_binop(inner) if inner is not None else None
                        ok = op == '&=' and sh is not None and sh[0] == '<<' and is_name(sh[1], bits) and offsets_ok(as_elem(tgt)[1], sh[2])
                        why = 'remove() does not clear exactly ~(bits << offset): the other entries that share the byte (lower indexes for a complement taken before the shift) lose their pending requests'
            chk.instance('entry-addressing', fn, '%s(index, ..) addresses byte index*2/8, bits (index*2)%%8' % nm, ok, '' if ok else why, key=nm)
    for fn in variants(facts, B + 'dequeue_indication_or_confirmation', chk):
        if len(fn.params) < 2 or not fn.params[1]['n']:
            continue
        own = [c for c in fn.body.calls('dequeue_indication_or_confirmation') if is_name(c.args()[0], fn.params[0]['n'])]
        nxt = [c for c in fn.body.calls('dequeue_indication_or_confirmation') if not is_name(c.args()[0], fn.params[0]['n'])]
        ok = len(own) == 1 and len(nxt) == 1
        why = 'expected one own-level and one next-level dequeue'
        if ok:
            a0 = strip_casts(nxt[0].args()[0])
            ok = a0.k == 'BinaryOperator' and a0.o == '+' and is_name(a0.c[0], fn.params[0]['n']) and (is_name(a0.c[1], 'Size') or a0.c[1].v is not None)
            why = 'next level must be called with offset + Size'
            g = any(op == '==' and not isinstance(r, int) and ((strip_casts(l).n == 'first' and strip_casts(r).n == 'empty') or (strip_casts(r).n == 'first' and strip_casts(l).n == 'empty')) for l, op, r in guard_atoms(fn, nxt[0]))
            if ok and not g:
                ok, why = False, 'lower priority level consulted although the own level had an entry (or its entry is dropped)'
            early = [r for r in fn.returns() if any(op == '!=' and not isinstance(rr, int) and (strip_casts(l).n == 'first' or strip_casts(rr).n == 'first') for l, op, rr in guard_atoms(fn, r))]
            if ok and not (early and precedes(fn, own[0], nxt[0])):
                ok, why = False, 'own non-empty result is not returned before the next level is asked'
        chk.instance('priority-chaining', fn, 'impl::dequeue(offset) then base::dequeue(offset + Size) only if empty', ok, '' if ok else why, key='chain')
    for fn in variants(facts, Q + 'dequeue_indication_or_confirmation', chk):
        loops = fn.body.find(lambda n: n.k == 'ForStmt')
        if not loops:
            continue   # single-entry level: nothing to rotate
        loop = loops[0]
        init = loop.child('init')
        iv = init.find(lambda n: n.k == 'VarDecl')[0] if init is not None and init.find(lambda n: n.k == 'VarDecl') else None
        inc = loop.child('inc')
        ok = iv is not None and iv.c and is_name(iv.c[0], 'next_')
        incv = None
        if inc is not None:
            for tgt, op, val, st in stores(inc):
                if is_name(tgt, iv.n if iv else None):
                    incv = strip_casts(val)
        def is_next_of(v, i):
            v = deep(v)
            return v is not None and v.k == 'BinaryOperator' and v.o == '%' and (is_name(v.c[1], 'Size') or v.c[1].v is not None) and strip_casts(v.c[0]).k == 'BinaryOperator' and strip_casts(v.c[0]).o == '+' and is_name(strip_casts(v.c[0]).c[0], i) and cval(strip_casts(v.c[0]).c[1]) == 1
        ok = ok and is_next_of(incv, iv.n if iv else None)
        chk.instance('round-robin', fn, 'for (i = next_; ...; i = (i + 1) % Size)', ok, '' if ok else 'scan does not start at next_ / does not cycle', node=loop, key='loop')
        for r in fn.returns():
            first, il = pair_first(r)
            if first is None or first.n == 'empty':
                continue
            st = [(val, s) for tgt, op, val, s in stores(fn.body) if is_name(tgt, 'next_') and fn.block_of(s) == fn.block_of(r)]
            ok = len(st) == 1 and is_next_of(strip_casts(st[0][0]), iv.n if iv else None) and precedes(fn, st[0][1], r)
            chk.instance('round-robin', fn, 'return {%s, ..} stores next_ = (i + 1) %% Size' % first.n, ok, '' if ok else 'the served position is not passed: the same characteristic can starve the others of its priority', node=r, key='rr ' + first.n)
