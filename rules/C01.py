"""C01 ATT input handling is memory safe and well framed (structure)."""
import json, os
from .lib.match import *
from .lib.facts import VERIF
from .lib.paths import explore

SELECT = r'^bluetoe::server::(l2cap_input|handle_\w+|error_response|check_size_and_handle_range|check_size_and_handle|check_handle|read_multiple\w*|collect_handle_uuid_tuples)$|^bluetoe::details::(read_handle|read_16bit|write_opcode)$|^bluetoe::details::(collect_attributes|collect_find_by_type_groups)::operator\(\)$|^bluetoe::service::read_primary_service_response$|^bluetoe::details::generate_attribute::access$|^bluetoe::details::attribute_value_read\w*$|characteristic_value_access$|::call_(read|write)_handler$'
UNITS = lambda u: u in ('w_inst_att', 'w_inst_enc', 'w_inst_svc') or u.startswith('t_att_') or u.startswith('t_server')
SV = 'bluetoe::server::'
ALSO = [('C08', ('client-mtu-guard',)), ('C06', ('bounded-read',))]   # clauses of this property that another module's rules decide: run here as well
META = {
    'level': 'three structural layers over server::l2cap_input and every request handler (template pattern and instantiations): (a) framing - the opcode dispatch table against spec/att.json, and a path-sensitive '
             'typestate over each handler: every exit has produced either the paired response opcode together with out_size, or error_response() naming the request opcode, or (commands / confirmations / '
             'error responses from the client) out_size = 0; (b) input bounds - every constant-offset read of the PDU (input[k], read_handle(&input[k]), read_16bit(input + k)) is dominated by length tests '
             'implying in_size >= k + width, including the size/handle checking helpers and their instantiated size arguments, and ranges over the input end at input + in_size; (c) output bounds - constant '
             'index writes lie below the minimum MTU 23 that l2cap_input\'s clip guarantees and every final out_size is a constant <= 23, a pointer difference inside [output, output + out_size), 1/3 + the '
             'buffer_size an access function reports (which only shrinks), or min(out_size, ..). User supplied read/write handlers are assumed to respect their buffer contract.',
    'technique': 'static decision-table extraction, path-sensitive typestate and lower-bound (interval) rules over clang AST/CFG facts',
}
WIDTH = {'read_handle': 2, 'read_16bit': 2, 'read_32bit': 4}


def const_offset(n, base='input'):
    """(k) for expressions input + k, &input[k], input  -> k ; None otherwise"""
    n = strip_casts(n)
    if n is None or isinstance(n, int):
        return None
    if is_name(n, base):
        return 0
    ea = elem_addr(n)
    if ea is not None and is_name(ea[0], base):
        return cval(ea[1])
    b = as_binop(n)
    if b and b[0] == '+' and is_name(b[1], base):
        return cval(b[2])
    return None


def is_ptr(n):
    return n is not None and not isinstance(n, int) and '*' in (strip_casts(n).t or '')


def remaining_lb(fn, n, at, depth=0):
    """lower bound of an expression that measures remaining space at node `at` (None = not such an expression)"""
    n = strip_casts(n)
    if n is None or depth > 6:
        return None
    if n.v is not None and not n.c:
        return n.v
    b = as_binop(n)
    if b and b[0] == '-' and is_ptr(b[1]) and is_ptr(b[2]):
        lb = 0
        for l, op, r in guard_atoms(fn, at):
            for x, o2, y in ((l, op, r), (r, SWAP[op], l)):
                if not isinstance(x, int) and same_expr(x, n):
                    c = cval(y) if isinstance(y, int) or strip_casts(y).v is not None else (local_init(fn, strip_casts(y).n, optional=True).v if strip_casts(y).k in REF_KINDS and local_init(fn, strip_casts(y).n, optional=True) is not None else None)
                    if c is not None:
                        lb = max(lb, c if o2 == '>=' else c + 1 if o2 == '>' else 0)
        return lb
    if n.is_call('min'):
        ls = [remaining_lb(fn, a, at, depth + 1) for a in n.args()]
        return None if any(x is None for x in ls) else min(ls)
    if b and b[0] == '+':
        l, r = remaining_lb(fn, b[1], at, depth + 1), remaining_lb(fn, b[2], at, depth + 1)
        return None if l is None or r is None else l + r
    if n.k in REF_KINDS:
        init = local_init(fn, n.n, optional=True)
        if init is not None:
            return remaining_lb(fn, init, at, depth + 1)
    if n.k == 'UnaryExprOrTypeTraitExpr' and n.v is not None:
        return n.v
    return None


def range_writers(chk, facts):
    fns = []
    for q in ('bluetoe::details::collect_attributes::operator()', 'bluetoe::details::collect_find_by_type_groups::operator()', 'bluetoe::service::read_primary_service_response', 'bluetoe::server::collect_handle_uuid_tuples'):
        fns += variants(facts, q, chk)
    for fn in fns:
        probs = []
        n_sub = 0
        for n in fn.body.walk():
            b = as_binop(n)
            if not (b and b[0] == '-') or (is_ptr(b[1]) and is_ptr(b[2])):
                continue
            lb = remaining_lb(fn, b[1], n)
            mentions_space = any(as_binop(x) is not None and as_binop(x)[0] == '-' and is_ptr(as_binop(x)[1]) and is_ptr(as_binop(x)[2]) for x in b[1].walk())
            if not mentions_space and not (strip_casts(b[1]).k in REF_KINDS and local_init(fn, strip_casts(b[1]).n, optional=True) is not None and any(as_binop(x) is not None and as_binop(x)[0] == '-' and is_ptr(as_binop(x)[1]) for x in local_init(fn, strip_casts(b[1]).n, optional=True).walk())):
                continue
            sub = strip_casts(b[2])
            sv = sub.v if sub.v is not None else (local_init(fn, sub.n, optional=True).v if sub.k in REF_KINDS and local_init(fn, sub.n, optional=True) is not None else None)
            if sv is None:
                continue
            n_sub += 1
            if lb is None or lb < sv:
                probs.append((n, 'remaining space (known >= %s) is reduced by %d without a dominating test: the unsigned result wraps when fewer bytes are left and the following write runs past the response buffer' % (lb, sv)))
        # writes through a cursor: write_handle(cur, ..) / write_16bit need 2 bytes of remaining space
        for c in fn.body.calls(('write_handle', 'write_16bit')):
            cur = strip_casts(c.args()[0])
            if cur.k not in REF_KINDS:
                continue
            ats = guard_atoms(fn, c)
            need = 2 * (1 + len([x for x in fn.body.calls(('write_handle', 'write_16bit')) if fn.block_of(x) == fn.block_of(c) and x.l < c.l and same_expr(strip_casts(x.args()[0]), cur)]))
            best = 0
            for l, op, r in ats:
                for x, o2, y in ((l, op, r), (r, SWAP[op], l)):
                    if isinstance(x, int):
                        continue
                    bx = as_binop(x)
                    if bx and bx[0] == '-' and is_ptr(bx[1]) and same_expr(bx[2], cur):
                        yv = cval(y) if isinstance(y, int) or strip_casts(y).v is not None else None
                        if yv is None and strip_casts(y).k in REF_KINDS:
                            i2 = local_init(fn, strip_casts(y).n, optional=True)
                            yv = i2.v if i2 is not None and i2.v is not None else (lower_const(fn, i2) if i2 is not None else None)
                        if yv is not None and o2 in ('>=', '>'):
                            best = max(best, yv + (1 if o2 == '>' else 0))
            if best < need and fn.name != 'collect_handle_uuid_tuples':
                probs.append((c, '%s(%s, ..) needs %d byte(s) of remaining space, only %d known' % (c.cn, cur.text(), need, best)))
        ok = not probs
        chk.instance('range-writer-bounded', fn, '%s::%s: %d size reductions, cursor writes covered' % (fn.q.split('::')[-2], fn.name, n_sub), ok, '' if ok else probs[0][1], node=probs[0][0] if probs else None, key=fn.q.split('::')[-2] + '::' + fn.name)


def lower_const(fn, n):
    """smallest value of a ?: of constants / a constant (e.g. is_128bit ? 16 + 4 : 2 + 4)"""
    n = strip_casts(n)
    if n.v is not None:
        return n.v
    if n.k == 'ConditionalOperator':
        a, b = lower_const(fn, n.c[1]), lower_const(fn, n.c[2])
        return None if a is None or b is None else min(a, b)
    return None


def run(chk, facts, tier):
    spec = json.load(open(os.path.join(VERIF, 'spec', 'att.json')))
    chk.rule('dispatch-table', 'l2cap_input: every request / command / confirmation opcode of spec/att.json is dispatched to its handler, error_response gets no answer, anything else gets Error Response (request not supported) naming *input', floor=14)
    chk.rule('handler-binder-forwards', 'the library side of the handler contract: every call_read_handler / call_write_handler binder in characteristic_value.hpp hands its own parameters to the bound function unchanged and in order '
             '(offset first for blob handlers; non-blob handlers are called only under offset == 0), and the value-handler access passes (args.buffer_offset, args.buffer_size, args.buffer, args.buffer_size | args.client_config, args.server): '
             'a handler never sees a larger size or another buffer than the request has', floor=28)
    chk.rule('every-exit-framed', 'each handler: on every feasible path to an exit, the paired response opcode was written together with out_size, or error_response(request opcode, ..) was called, or (no-response PDUs) out_size = 0', floor=12)
    chk.rule('error-response-shape', 'error_response writes opcode error_response, the request opcode, handle and code into output[0..4] and sets out_size 5 only if the buffer holds 5 bytes, else 0', floor=1)
    chk.rule('input-read-covered', 'every constant-offset read of the input PDU is dominated by length tests that imply in_size >= offset + width', floor=15)
    chk.rule('helper-size-arguments', 'the instantiated size arguments of check_size_and_handle_range<A,B> / check_size_and_handle<A,B> cover the bytes those helpers read (>= 5 / >= 3) and they reject other lengths', floor=4)
    chk.rule('output-write-bounded', 'constant-index writes to the output lie below the minimum MTU (23) and every out_size store has a bounded form', floor=12)
    chk.rule('compare-read-bounded', 'attribute access functions that compare a request value (compare_value: Find By Type Value) read args.buffer with std::equal only where the same condition or a dominating '
             'test established args.buffer_size == the compared length (the value comes straight from the request PDU)', floor=2)
    n_cmp = 0
    for fn in facts.functions:
        if fn.kind not in ('pattern', 'plain') or '/tests/' in (fn.file or ''):
            continue
        for c in fn.body.calls('equal'):
            if len(c.args()) != 3 or 'buffer' not in strip_casts(c.args()[2]).text():
                continue
            n_cmp += 1
            ats = guard_atoms(fn, c) + [a for cnd, o in must_hold(c) for a in atoms(cnd, o)]
            okc = any(op == '==' and (('buffer_size' in (l.text() if not isinstance(l, int) else '')) or ('buffer_size' in (r.text() if not isinstance(r, int) else ''))) for l, op, r in ats)
            chk.instance('compare-read-bounded', fn, '%s::%s: std::equal(.., %s)' % (fn.q.split('::')[-2], fn.name, strip_casts(c.args()[2]).text()[:30]), okc,
                         '' if okc else 'the request value is compared over the full length of the stored value before (or without) testing args.buffer_size: a shorter value in the request makes the server read behind the received PDU', node=c,
                         key='%s::%s' % (fn.q.split('::')[-2], fn.name))
    chk.rule('range-writer-bounded', 'the response range writers (Read By Type, Find By Type Value, Read By Group Type, Find Information tuples): a remaining-space expression is reduced by a header size only where a dominating test (or min() with a constant) guarantees it is at least that large (no unsigned wrap), and every write through the cursor is covered by a dominating remaining-space test', floor=4)
    range_writers(chk, facts)
    opc = facts.enum('bluetoe::details::att_opcodes') or {}
    chk.require(bool(opc), 'enum att_opcodes not found')
    for k, v in spec['opcode_values'].items():
        if k in opc:
            chk.require(opc[k] == v, 'att_opcodes::%s == 0x%02x, specification says 0x%02x' % (k, opc[k], v))

    # ---- (a1) dispatch table
    for fn in variants(facts, SV + 'l2cap_input', chk):
        sw = fn.body.find(lambda n: n.k == 'SwitchStmt')
        if not chk.require(len(sw) == 1, 'l2cap_input left switch form'):
            continue
        table = {}
        default = None
        for case in sw[0].find(lambda n: n.k in ('CaseStmt', 'DefaultStmt')):
            sib = case.parent.c
            i = sib.index(case)
            stmts = [case.child('body')] + sib[i + 1:]
            calls, zero = [], False
            for s in stmts:
                if s is None or s.k in ('CaseStmt', 'DefaultStmt'):
                    break
                calls += [c for c in s.calls() if c.cn and (c.cn.startswith('handle_') or c.cn == 'error_response')]
                zero = zero or any(is_name(tgt, 'out_size') and cval(val) == 0 for tgt, op, val, st in stores(s))
                if s.k == 'BreakStmt':
                    break
            if case.k == 'CaseStmt':
                table[strip_casts(case.child('label')).n] = (calls, zero)
            else:
                default = (calls, zero)
        for op, row in spec['handlers'].items():
            got = table.get(op)
            ok = got is not None and len(got[0]) == 1 and got[0][0].cn == row['handler']
            if ok:
                a = [x.text() for x in got[0][0].args()[:4]]
                ok = a == ['input', 'in_size', 'output', 'out_size']
            chk.instance('dispatch-table', fn, '%s -> %s' % (op, got[0][0].cn if got and got[0] else None), ok, '' if ok else 'expected %s(input, in_size, output, out_size, ..)' % row['handler'], key=op)
        got = table.get('error_response')
        ok = got is not None and not got[0] and got[1]
        chk.instance('dispatch-table', fn, 'error_response from the client -> out_size = 0', ok, '' if ok else 'an Error Response from the client is answered', key='error_response')
        ok = default is not None and len(default[0]) == 1 and default[0][0].cn == 'error_response' and default[0][0].args()[0].text() in ('*input', 'input[0]') and mentions(default[0][0], 'request_not_supported')
        chk.instance('dispatch-table', fn, 'default -> error_response(*input, request_not_supported)', ok, '' if ok else 'unknown opcodes are not answered with Request Not Supported naming the opcode', key='default')
        extra = sorted(set(table) - set(spec['handlers']) - {'error_response'})
        chk.instance('dispatch-table', fn, 'no other opcode answered (%s)' % extra, not extra, '' if not extra else 'unexpected cases', key='extra')
        swc = local_init(fn, 'opcode')
        ok = swc is not None and 'input[0]' in swc.text()
        chk.instance('dispatch-table', fn, 'opcode = input[0]', ok, '' if ok else 'dispatch is not on the first PDU byte', key='opcode')

    # ---- (a2) every exit framed
    def is_req_opcode_arg(fn, a):
        t = strip_casts(a).text()
        if t in ('*input', 'input[0]'):
            return True
        if strip_casts(a).k in REF_KINDS:
            init = local_init(fn, strip_casts(a).n)
            if init is not None and init.text() in ('*input', 'input[0]'):
                return True
            # parameter that callers bind to *input (read_multiple helper)
            return strip_casts(a).n == 'opcode' and any(p['n'] == 'opcode' for p in fn.params)
        return False

    helpers = {'check_size_and_handle_range', 'check_size_and_handle', 'check_handle'}
    for op, row in spec['handlers'].items():
        for fn in variants(facts, SV + row['handler'], chk):
            resp = row['response']
            def on_node(ts, node, fn=fn, resp=resp):
                ts = set(ts)
                if node.is_call('error_response'):
                    ts.add('err' if is_req_opcode_arg(fn, node.args()[0]) else 'err-bad-opcode')
                if node.is_call('write_opcode') and resp and mentions(node, resp):
                    ts.add('op')
                for tgt, op2, val, st in stores(node):
                    if st is not node:
                        continue
                    t = strip_casts(tgt)
                    def out_alias(x, fn=fn):
                        x = strip_casts(x)
                        if is_name(x, 'output'):
                            return True
                        if x.k in REF_KINDS and x.d.get('local'):
                            init = local_init(fn, x.n)
                            ea = elem_addr(init) if init is not None else None
                            return init is not None and (is_name(init, 'output') or (ea is not None and is_name(ea[0], 'output') and cval(ea[1]) == 0))
                        return False
                    if (t.k == 'UnaryOperator' and t.o == '*' and out_alias(t.c[0])) or (t.k == 'ArraySubscriptExpr' and is_name(t.c[0], 'output') and cval(t.c[1]) == 0):
                        if resp and val is not None and mentions(val, resp):
                            ts.add('op')
                        elif val is not None and any(mentions(val, x) for x in spec['opcode_values'] if x != resp):
                            ts.add('wrong-op')
                    if is_name(t, 'out_size'):
                        if cval(val) == 0:
                            ts.add('zero'); ts.discard('size')
                        else:
                            ts.add('size'); ts.discard('zero')
                return frozenset(ts)
            def on_edge(ts, cond, outcome, ats, fn=fn):
                ts = set(ts)
                for l, op2, r in ats:
                    if op2 == '==' and cval(r) == 0 and not isinstance(l, int) and strip_casts(l).d.get('call') and strip_casts(l).cn in helpers:
                        ts.add('err')      # the helper returns false only after it produced the error response (checked below)
                    if op2 == '==' and cval(r) == 0 and not isinstance(l, int) and strip_casts(l).d.get('call') and strip_casts(l).cn and strip_casts(l).cn.startswith('read_multiple'):
                        ts.add('err')
                return frozenset(ts)
            try:
                res = explore(fn, frozenset(), on_node, on_edge, max_visits=2, max_paths=4000)
            except RuntimeError:
                chk.broke('path explosion in %s' % fn.q)
                continue
            bad = []
            for ts, tr in res:
                if 'err-bad-opcode' in ts or 'wrong-op' in ts:
                    bad.append((ts, tr)); continue
                if resp is None:
                    okp = ('zero' in ts and 'op' not in ts) or ('err' in ts and op == 'confirmation')
                else:
                    okp = 'err' in ts or ('op' in ts and 'size' in ts)
                if not okp:
                    bad.append((ts, tr))
            # delegating handlers (no_such_type overloads) answer request_not_supported
            ok = not bad and bool(res)
            chk.instance('every-exit-framed', fn, '%s: %d path(s), response %s' % (row['handler'], len(res), resp), ok,
                         '' if ok else 'a path ends with %s: %s' % (sorted(bad[0][0]) or 'nothing written', ' ; '.join('line %d (%s) %s' % (l, t[:40], o) for l, t, o in bad[0][1][-4:])), key=row['handler'] + ('/%d' % len(fn.params)))
    # helpers return false only after error_response
    for h in sorted(helpers):
        for fn in variants(facts, SV + h, chk):
            ok = True
            for r in fn.returns():
                v = ret_value(r)
                if cval(v) == 0:
                    errs = [c for c in fn.body.calls('error_response') if fn.block_of(c) == fn.block_of(r) and precedes(fn, c, r) and is_req_opcode_arg(fn, c.args()[0])]
                    ok = ok and len(errs) == 1
                elif v is not None and v.d.get('call') and v.cn in helpers:
                    pass
                elif cval(v) != 1:
                    ok = False
            chk.instance('every-exit-framed', fn, '%s returns false only behind error_response(*input, ..)' % h, ok, '' if ok else 'a request is dropped without a response', key=h)
    for fn in [f for f in variants(facts, SV + 'error_response', chk) if len(f.params) == 5]:
        outs = {}
        for tgt, op, val, st in stores(fn.body):
            t = strip_casts(tgt)
            if t.k == 'ArraySubscriptExpr' and is_name(t.c[0], 'output'):
                outs[cval(t.c[1])] = (val, st)
        ok = set(outs) == {0, 1, 2, 3, 4} and mentions(outs[0][0], 'error_response') and is_name(outs[1][0], 'opcode') and is_name(outs[4][0] if not strip_casts(outs[4][0]).d.get('call') else strip_casts(outs[4][0]).args()[0], 'error_code')
        if ok:
            lb = min((lower_bound(guard_atoms(fn, st), lambda n: is_name(n, 'out_size')) or 0) for v, st in outs.values())
            sz = [(cval(val), st) for tgt, op, val, st in stores(fn.body) if is_name(tgt, 'out_size')]
            ok = lb >= 5 and sorted(v for v, st in sz) == [0, 5]
        chk.instance('error-response-shape', fn, 'error_response(opcode, code, handle, ..)', ok, '' if ok else 'Error Response is malformed or written into a too small buffer', key='error_response')

    # ---- (b) input bounds
    def known_lb(fn, node):
        ats = guard_atoms(fn, node)
        lb = lower_bound(ats, lambda n: is_name(n, 'in_size')) or 0
        for l, op, r in ats:
            # !helper<A,B>(..) was false  =>  in_size in {A, B}
            if op == '!=' and cval(r) == 0 and not isinstance(l, int) and strip_casts(l).d.get('call') and strip_casts(l).cn in ('check_size_and_handle_range', 'check_size_and_handle'):
                c = strip_casts(l)
                args = (c.callee().d.get('eta') if c.callee() is not None else None) or c.d.get('cnta')
                vals = [x for x in (args or []) if isinstance(x, int)]
                if vals:
                    lb = max(lb, min(vals))
            if op == '!=' and cval(r) == 0 and not isinstance(l, int) and strip_casts(l).is_call('check_handle'):
                pass
        # a conjunction in_size != A && in_size != B on the failing edge is handled inside the helpers: there the reads follow the early return
        eqs = [cval(o) for s, op, o in norm_atoms(ats, lambda n: is_name(n, 'in_size')) if op == '!=' and cval(o) is not None]
        return lb

    scope = [f for f in facts.functions if f.q.startswith(SV) and (f.name.startswith('handle_') or f.name in ('l2cap_input',) or f.name.startswith('read_multiple'))]
    for fn in scope:
        if not any(p['n'] == 'input' for p in fn.params):
            continue
        sites = []
        for n in fn.body.walk():
            if n.k == 'ArraySubscriptExpr' and is_name(n.c[0], 'input') and cval(n.c[1]) is not None:
                par = n.parent
                if par is not None and par.k == 'UnaryOperator' and par.o == '&':
                    gp = par.parent
                    w = WIDTH.get(gp.cn, 0) if gp is not None and gp.d.get('call') else 0
                    sites.append((n, cval(n.c[1]), w, '&input[%d]%s' % (cval(n.c[1]), ' read by ' + gp.cn if w else ' (address)')))
                else:
                    sites.append((n, cval(n.c[1]), 1, 'input[%d]' % cval(n.c[1])))
            elif n.k == 'UnaryOperator' and n.o == '*' and is_name(n.c[0], 'input'):
                sites.append((n, 0, 1, '*input'))
            elif n.d.get('call') and n.cn in WIDTH:
                k = const_offset(n.args()[0]) if n.args() else None
                if k is not None and not (strip_casts(n.args()[0]).k == 'UnaryOperator'):
                    sites.append((n, k, WIDTH[n.cn], '%s(input + %d)' % (n.cn, k)))
        for n, k, w, label in sites:
            need = k + w
            lb = max(known_lb(fn, n), 1)     # l2cap_input is entered with at least the opcode byte (interface contract: in_size != 0)
            ok = lb >= need
            chk.instance('input-read-covered', fn, '%s needs in_size >= %d, known >= %d' % (label, need, lb), ok,
                         '' if ok else 'the PDU is read at offset %d..%d but only %d byte(s) are known to be present on this path: a short PDU makes the server read behind the input' % (k, k + max(w, 1) - 1, lb), node=n, key='%s in %s' % (label, fn.name))
    # helpers: their own reads follow their own test; instantiated sizes must cover them
    for h, need in (('check_size_and_handle_range', 5), ('check_size_and_handle', 3)):
        seen = False
        for fn in facts.fns(SV + h):
            if fn.kind == 'inst':
                vals = [x for x in (fn.hdr.get('nta') or []) if isinstance(x, int)]
                seen = True
                ok = bool(vals) and min(vals) >= need
                chk.instance('helper-size-arguments', fn, '%s<%s>' % (h, ', '.join(map(str, vals))), ok, '' if ok else 'size argument smaller than the %d bytes the helper reads' % need, key='%s<%s>' % (h, vals))
            elif fn.kind == 'pattern':
                first = fn.body.c[0] if fn.body.c else None
                ok = first is not None and first.k == 'IfStmt'
                if ok:
                    cond = first.child('cond')
                    ne = [a for a in atoms(cond, True) if a[1] == '!=' and is_name(a[0], 'in_size')]
                    then = first.child('then')
                    ok = len(ne) == 2 and then is not None and any(cval(ret_value(r)) == 0 for r in then.find(lambda n: n.k == 'ReturnStmt')) and bool(then.calls('error_response'))
                    reads = [c for c in fn.body.calls(('read_handle', 'check_handle'))]
                    ok = ok and bool(reads) and all(not any(a is first for a in c.ancestors()) and c.l > first.l for c in reads)
                chk.instance('helper-size-arguments', fn, '%s rejects in_size != A && in_size != B before reading' % h, ok, '' if ok else 'the helper reads the PDU before / without its length test', key=h + ' pattern')
        for dh in facts.dup_headers:
            if dh['q'] == SV + h:
                vals = [x for x in (dh.get('nta') or []) if isinstance(x, int)]
                ok = bool(vals) and min(vals) >= need
                chk.obligation('helper-size-arguments', 'instantiation', '%s<%s>' % (h, ', '.join(map(str, vals))), ok, '' if ok else 'size argument smaller than the %d bytes the helper reads' % need, key='%s<%s>' % (h, vals))
    for fn in variants(facts, SV + 'check_handle', chk):
        pass
    # callers of check_handle must know in_size >= 3
    for fn in scope + facts.fns(SV + 'check_size_and_handle'):
        for c in fn.body.calls('check_handle'):
            ats = guard_atoms(fn, c)
            lb = lower_bound(ats, lambda n: is_name(n, 'in_size')) or 0
            two = [cval(o) for s, op, o in norm_atoms(ats, lambda n: is_name(n, 'in_size')) if op == '==' and cval(o) is not None]
            tmpl = fn.name == 'check_size_and_handle'     # in_size in {A, B} there; A, B >= 3 checked on the instantiations above
            ok = lb >= 3 or tmpl
            chk.instance('input-read-covered', fn, 'check_handle(input, ..) reads input[1..2]: in_size >= %s' % ('A|B' if tmpl else lb), ok, '' if ok else 'check_handle is reached with fewer than 3 bytes', node=c, key='check_handle in ' + fn.name)

    # ---- (c) output bounds
    for fn in scope + [f for f in facts.fns(SV + 'error_response')]:
        if not any(p['n'] == 'output' for p in fn.params):
            continue
        for tgt, op, val, st in stores(fn.body):
            t = strip_casts(tgt)
            k = None
            if t.k == 'ArraySubscriptExpr' and is_name(t.c[0], 'output'):
                k = cval(t.c[1])
            elif t.k == 'UnaryOperator' and t.o == '*' and is_name(t.c[0], 'output'):
                k = 0
            if k is not None:
                ok = k < spec['min_mtu']
                chk.instance('output-write-bounded', fn, 'output[%d] = ..' % k, ok, '' if ok else 'constant index beyond the minimum MTU', node=st, key='output[%d] in %s' % (k, fn.name))
            if is_name(t, 'out_size') and op == '=' and fn.name != 'l2cap_input':
                v = strip_casts(val)
                form = None
                if v.v is not None and not v.c or (v.v is not None and v.v <= spec['min_mtu']):
                    form = 'const %s' % v.v if v.v <= spec['min_mtu'] else None
                elif as_binop(v) and as_binop(v)[0] == '-' and (mentions(as_binop(v)[2], 'output')):
                    form = 'pointer difference from output'
                elif as_binop(v) and as_binop(v)[0] == '+' and ((cval(as_binop(v)[1]) in (1, 2, 3) and 'buffer_size' in as_binop(v)[2].text()) or (cval(as_binop(v)[2]) in (1, 2, 3) and ('size()' in as_binop(v)[1].text() or 'buffer_size' in as_binop(v)[1].text())) or (cval(as_binop(v)[1]) in (1, 2, 3) and 'size()' in as_binop(v)[2].text())):
                    form = 'header + reported size'
                elif v.is_call('min') and any(is_name(a, 'out_size') for a in v.args()):
                    form = 'min(out_size, ..)'
                ok = form is not None
                chk.instance('output-write-bounded', fn, 'out_size = %s [%s]' % (v.text()[:40], form), ok, '' if ok else 'the reported response length is not of a bounded form', node=st, key='out_size in %s: %s' % (fn.name, v.text()[:30]))
    binder_rule(chk, facts)


def binder_rule(chk, facts):
    R = 'handler-binder-forwards'
    seen = set()
    for fn in facts.functions:
        if fn.kind != 'pattern' or fn.name not in ('call_read_handler', 'call_write_handler') or not fn.file.endswith('characteristic_value.hpp') or (fn.q, fn.line) in seen:
            continue
        seen.add((fn.q, fn.line))
        cls = fn.cls.split('::')[-1]
        names = [p['n'] for p in fn.params]
        if not any(names):
            # the "no such handler" specialisation: refuses
            ok = bool(fn.returns()) and all(ret_value(r) is not None and ret_value(r).n in ('read_not_permitted', 'write_not_permitted') for r in fn.returns())
            chk.instance(R, fn, '%s::%s without handler refuses' % (cls, fn.name), ok, '' if ok else 'an access without a bound handler is not refused', key='%s@%d' % (cls, fn.line))
            continue
        want = names[:4] if fn.name == 'call_read_handler' else names[:3]
        # the calls that reach user code: through a template parameter F / a member pointer, or the next binder / deserialize helper
        user = []
        for c in fn.body.find(lambda n: n.d.get('call')):
            cal = c.callee()
            if cal is None or isinstance(cal, str):
                continue
            if (cal.k == 'BinaryOperator' and cal.o in ('.*', '->*')) or cal.n == 'F' or cal.n in ('call_read_handler', 'call_write_handler', 'deserialize'):
                user.append(c)
        if cls in ('free_write_handler',):
            user = [c for c in user if c.callee().n == 'deserialize']
        ok, why = len(user) == 1, 'expected exactly one forwarding call, found %d' % len(user)
        if ok:
            c = user[0]
            a = [strip_casts(x).n for x in c.args()]
            full = cls.startswith('invoke_')
            if full:
                ok = a == names
                why = 'arguments are not the own parameters in order'
            else:
                blob = bool(a) and a[0] == names[0]
                exp = want if blob else want[1:]
                ok = a == exp
                why = 'the bound function is called with (%s) instead of (%s)' % (', '.join(str(x) for x in a), ', '.join(exp))
                if ok and not blob:
                    ok = any(op == '==' and is_name(l, names[0]) and cval(r) == 0 for l, op, r in guard_atoms(fn, c))
                    why = 'a handler without offset parameter is called for a non-zero offset (Read Blob / Prepare Write would repeat or overwrite the start of the value)'
        chk.instance(R, fn, '%s::%s forwards %s' % (cls, fn.name, ', '.join(n for n in want)), ok, '' if ok else why, key='%s@%d' % (cls, fn.line))
    # the caller: value_handler based characteristic access
    seen = set()
    for fn in facts.functions:
        if fn.kind != 'pattern' or fn.name != 'characteristic_value_access' or (fn.q, fn.line) in seen:
            continue
        cs = fn.body.calls('call_read_handler') + fn.body.calls('call_write_handler')
        if not cs:
            continue
        seen.add((fn.q, fn.line))
        arg = fn.params[0]['n']
        for c in cs:
            a = []
            for x in c.args():
                x = strip_casts(x)
                a.append(x.n if x.k == 'MemberExpr' and is_name(base_object(x), arg) else '?')
            exp = ['buffer_offset', 'buffer_size', 'buffer', 'buffer_size', 'server'] if c.cn == 'call_read_handler' or (c.callee() is not None and not isinstance(c.callee(), str) and c.callee().n == 'call_read_handler') \
                else ['buffer_offset', 'buffer_size', 'buffer', 'client_config', 'server']
            ok = a == exp
            chk.instance(R, fn, 'value handler access -> %s(%s)' % (exp and ('read' if exp[3] == 'buffer_size' else 'write'), ', '.join(a)), ok,
                         '' if ok else 'the handler is given (%s) instead of (%s)' % (', '.join(a), ', '.join(exp)), node=c, key='caller@%d:%s' % (fn.line, exp[3]))

