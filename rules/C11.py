"""C11 Indications are confirmed one at a time and never lost (safety half)."""
from .lib.match import *

SELECT = r'^bluetoe::(notification_queue|details::notification_queue_impl|details::notification_queue_impl_base)::|^bluetoe::server::handle_value_confirmation$|^bluetoe::server::indication_confirmed$'
UNITS = lambda u: u in ('w_inst_att',) or u.startswith('t_notification_queue') or u.startswith('t_att_indication')
Q = 'bluetoe::details::notification_queue_impl::'
NONE = 'no_outstanding_indicaton'
META = {
    'level': 'guarded-by and who-writes rules on both notification queue implementations (general and single-entry) and the server: an indication is handed out only on the edge '
             'outstanding_confirmation == no_outstanding_indicaton and the outstanding index is stored on that very path; the outstanding index is reset only by a confirmation or a clear; '
             'the confirmation callback needs in_size == 1. Decides the "at most one outstanding" half for all interleavings; eventual delivery (liveness) is not decided.',
    'technique': 'static guarded-by / who-writes rules over clang AST/CFG facts',
}


def pair_first(r):
    v = ret_value(r)
    if v is None:
        return None, None
    for x in v.walk():
        if x.k == 'InitListExpr' or (x.d.get('ctor') and x.cn == 'pair'):
            if len(x.c) == 2:
                return strip_casts(x.c[0]), x
    return None, None


def run(chk, facts, tier):
    chk.rule('indication-needs-no-outstanding', 'every return of {indication, ..} in a queue implementation is control dependent on outstanding_confirmation == no_outstanding_indicaton, '
             'stores outstanding_confirmation on that path and removes the indication bit', floor=2)
    chk.rule('outstanding-writers', 'notification_queue::outstanding_confirmation_index_ is reset only by indication_confirmed(), clear_indications_and_confirmations() and the constructor, and is passed by reference only to impl::dequeue', floor=3)
    chk.rule('confirmation-length', 'server::handle_value_confirmation invokes the confirmation callback only for in_size == 1 and answers an error otherwise', floor=1)
    fns = variants(facts, Q + 'dequeue_indication_or_confirmation', chk)
    lines = {f.line for f in fns if f.kind in ('pattern', 'plain')}
    chk.require(len(lines) >= 2, 'expected the general and the single-entry implementation of dequeue_indication_or_confirmation, found %d' % len(lines))
    for fn in fns:
        outp = fn.params[1]['n']
        found = 0
        for r in fn.returns():
            first, il = pair_first(r)
            if first is None:
                chk.broke('%s line %d: return value is computed (%s), not a literal {kind, index}: idiom not recognised by rule indication-needs-no-outstanding' % (fn.q, r.l, r.text()[:40]))
                continue
            if first.n != 'indication':
                continue
            found += 1
            ats = guard_atoms(fn, r)
            g = any(op == '==' and not isinstance(rr, int) and ((is_name(l, outp) and strip_casts(rr).n == NONE) or (is_name(rr, outp) and strip_casts(l).n == NONE)) for l, op, rr in ats)
            st = [s for tgt, op, val, s in stores(fn.body) if is_name(tgt, outp) and fn.block_of(s) == fn.block_of(r)]
            rem = [c for c in fn.body.calls('remove') if fn.block_of(c) == fn.block_of(r)] + [s for tgt, op, val, s in stores(fn.body) if op == '&=' and fn.block_of(s) == fn.block_of(r)]
            ok = g and len(st) == 1 and bool(rem)
            chk.instance('indication-needs-no-outstanding', fn, 'return {indication, ..} (impl at line %d)' % fn.line, ok,
                         '' if ok else 'guard on no outstanding indication=%s, outstanding index stored=%s, pending bit removed=%s' % (g, len(st) == 1, bool(rem)), node=r, key='indication@%s' % ('single' if 'notification_queue_impl<1' in fn.targs or fn.line > 280 else 'general'))
        if fn.kind in ('pattern', 'plain'):
            chk.require(found >= 1 or any(pair_first(r)[0] is None for r in fn.returns()), 'no indication return found in %s line %d' % (fn.q, fn.line))
    F = 'outstanding_confirmation_index_'
    for fn, tgt, op, val, st in field_stores(facts, F, 'bluetoe::notification_queue'):
        v = strip_casts(val.c[0]) if (op == 'init' and val is not None and val.k in ('ParenListExpr', 'InitListExpr') and val.c) else (strip_casts(val) if val is not None else None)
        ok = v is not None and v.n == NONE and (op == 'init' or fn.name in ('indication_confirmed', 'clear_indications_and_confirmations', 'notification_queue'))
        chk.instance('outstanding-writers', fn, '%s %s %s in %s' % (F, op, v.text() if v is not None else '', fn.name), ok, '' if ok else 'outstanding indication forgotten/changed outside confirmation or clear', node=st, key='%s in %s' % (op, fn.name))
    for fn in facts.functions:
        if fn.q.startswith('bluetoe::notification_queue::'):
            for c in fn.body.calls():
                if any(is_name(a, F) for a in c.args()):
                    ok = c.cn == 'dequeue_indication_or_confirmation' and fn.name == 'dequeue_indication_or_confirmation'
                    chk.instance('outstanding-writers', fn, '%s passed to %s' % (F, c.cn), ok, '' if ok else 'outstanding index handed to an unexpected function', node=c, key='arg to ' + str(c.cn))
    for fn in variants(facts, 'bluetoe::server::handle_value_confirmation', chk):
        cbs = fn.body.calls('indication_confirmed') + [c for c in fn.body.calls() if c.cn == 'l2cap_cb_' or (c.callee() is not None and c.callee().n == 'l2cap_cb_')]
        ok = bool(cbs)
        for c in cbs:
            ok = ok and has_atom(guard_atoms(fn, c), lambda n: is_name(n, 'in_size'), {'=='}, lambda o: cval(o) == 1)
        errs = [c for c in fn.body.calls('error_response') if has_atom(guard_atoms(fn, c), lambda n: is_name(n, 'in_size'), {'!='}, lambda o: cval(o) == 1)]
        ok = ok and bool(errs)
        chk.instance('confirmation-length', fn, 'confirmation accepted only with in_size == 1', ok, '' if ok else 'a malformed Handle Value Confirmation releases the outstanding indication', key='confirmation')
