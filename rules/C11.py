"""C11 Indications are confirmed one at a time and never lost (safety half)."""
from .lib.match import *
from .lib.paths import explore

SELECT = r'^bluetoe::(notification_queue|details::notification_queue_impl|details::notification_queue_impl_base)::|^bluetoe::server::handle_value_confirmation$|^bluetoe::server::indication_confirmed$|^bluetoe::server::l2cap_output$'
UNITS = lambda u: u in ('w_inst_att',) or u.startswith('t_notification_queue') or u.startswith('t_att_indication')
Q = 'bluetoe::details::notification_queue_impl::'
ALSO = [('C12', ('entry-addressing', 'priority-chaining'))]   # a removal must not wipe another entry's pending indication: decided by C12's rule, run here as well
NONE = 'no_outstanding_indicaton'
META = {
    'level': 'guarded-by and who-writes rules on both notification queue implementations (general and single-entry) and the server: an indication is handed out only on the edge '
             'outstanding_confirmation == no_outstanding_indicaton and the outstanding index is stored on that very path; the outstanding index is reset only by a confirmation or a clear; '
             'the confirmation callback needs in_size == 1. server::l2cap_output either transmits a dequeued indication or releases it again (path enumeration), and releases nothing else. Decides the "at most one outstanding" half and the "an untransmitted indication does not block the following ones" clause for all paths; eventual delivery under arbitrary schedules (liveness) is not decided.',
    'technique': 'static guarded-by / who-writes rules over clang AST/CFG facts',
}


def pair_first(r):
    v = ret_value(r)
    if v is None:
        return None, None
    for x in v.walk():
        if x.k == 'InitListExpr' or (x.d.get('ctor') and x.cn == 'pair'):
            if len(x.c) == 2:
                return strip_casts(x.c[0]), x
    return None, None


def always_returns(n):
    """every path through statement n ends in a return"""
    if n is None:
        return False
    if n.k == 'ReturnStmt':
        return True
    if n.k == 'CompoundStmt':
        return bool(n.c) and always_returns(n.c[-1])
    if n.k == 'IfStmt':
        return always_returns(n.child('then')) and always_returns(n.child('else'))
    return False


def notification_not_blocked(chk, facts):
    Q2 = 'bluetoe::details::notification_queue_impl::'
    chk.rule('notification-not-blocked', 'both dequeue implementations: a pending notification of an entry is returned unless something else is returned for that entry - every `if` whose else branch '
             'holds the `return {notification, ..}` returns on all paths of its then branch (a held-back indication does not hide the notification)', floor=2)
    for fn in variants(facts, Q2 + 'dequeue_indication_or_confirmation', chk):
        for r in fn.returns():
            first, il = pair_first(r)
            if first is None or first.n != 'notification':
                continue
            bad = None
            for a, br in enclosing_ifs(r):
                if br == 'else' and not always_returns(a.child('then')):
                    bad = a
            # the notification test itself
            g = [c for c, o in must_hold(r) if o is True and any(x.k in REF_KINDS and x.n == 'notification_bit' for x in c.walk())]
            ok = bad is None and bool(g)
            chk.instance('notification-not-blocked', fn, 'return {notification, ..} (impl at line %d)' % fn.line, ok,
                         '' if ok else ('the notification is only considered when (%s) is false, but that branch does not always dequeue something: a pending notification stays in the queue while an indication of the same characteristic waits for a confirmation' % bad.child('cond').text()[:70]
                                        if bad is not None else 'the notification return is not selected by the notification bit'), node=r, key='notification@%s' % ('single' if fn.line > 280 else 'general'))


KINDS = {'empty', 'notification', 'indication'}


def output_paths(chk, facts):
    """server::l2cap_output: on every path the dequeued entry is either transmitted (opcode stored to *output) or, if it can be an indication,
    given back with indication_confirmed(); indication_confirmed() is reached only with an untransmitted indication"""
    for fn in variants(facts, 'bluetoe::server::l2cap_output', chk):
        pend = None
        for n in fn.body.walk():
            if n.k == 'VarDecl' and n.c and any(c.cn == 'dequeue_indication_or_confirmation' for c in n.calls()):
                pend = n.n
        chk.require(pend is not None, 'l2cap_output: local holding dequeue_indication_or_confirmation() not found')
        if pend is None:
            continue

        def kind_atom(l, op, r):
            for a, b in ((l, r), (r, l)):
                if isinstance(a, int) or isinstance(b, int):
                    continue
                a, b = strip_casts(a), strip_casts(b)
                if a.k in ('MemberExpr', 'CXXDependentScopeMemberExpr') and a.n == 'first' and a.c and is_name(a.c[0], pend) and b.n in KINDS:
                    return b.n
            return None

        def on_node(ts, node):
            sent, released, kinds = ts
            for tgt, op, val, st in stores(node):
                t = strip_casts(tgt)
                if st is node and t.k == 'UnaryOperator' and t.o == '*' and is_name(t.c[0], fn.params[0]['n']):
                    sent = True
            if node.d.get('call') and node.cn == 'indication_confirmed':
                released = released + 1 if not sent else 99
            return (sent, released, kinds)

        def on_edge(ts, cond, outcome, ats):
            sent, released, kinds = ts
            kinds = set(kinds)
            for l, op, r in ats:
                k = kind_atom(l, op, r)
                if k is not None and op in ('==', '!='):
                    kinds = kinds & {k} if op == '==' else kinds - {k}
            return (sent, released, frozenset(kinds))
        res = explore(fn, (False, 0, frozenset(KINDS)), on_node, on_edge)
        n_paths = 0
        bad = {}
        for (sent, released, kinds), tr in res:
            if not kinds:
                continue
            n_paths += 1
            where = ' / '.join('%s%s' % ('' if o else '!', t[:40]) for l, t, o in tr[-3:])
            if released and (sent or kinds != {'indication'} or released > 1):
                bad.setdefault('indication_confirmed() is reached with a dequeued %s%s: an indication that really is outstanding at the client is forgotten and the next one is sent before its confirmation'
                               % ('/'.join(sorted(kinds)), ' that was transmitted' if sent else ''), where)
            if not sent and not released and 'indication' in kinds:
                bad.setdefault('a dequeued indication that is not transmitted stays recorded as outstanding: no confirmation can arrive for it, every later indication of the connection is held back', where)
        chk.require(n_paths >= 3, 'l2cap_output: only %d feasible paths found' % n_paths)
        for why, where in bad.items():
            chk.instance('unsent-indication-released', fn, 'l2cap_output path [%s]' % where, False, why, key='l2cap_output:' + why[:40])
        if not bad:
            chk.instance('unsent-indication-released', fn, 'l2cap_output: %d feasible paths' % n_paths, True, key='l2cap_output')


def run(chk, facts, tier):
    chk.rule('unsent-indication-released', 'server::l2cap_output: a dequeued indication is either transmitted or released again with indication_confirmed(); indication_confirmed() is called there only for an '
             'indication that was not transmitted (never for a notification, never after the PDU was produced)', floor=1)
    output_paths(chk, facts)
    notification_not_blocked(chk, facts)   # "while notifications may continue"
    chk.rule('indication-needs-no-outstanding', 'every return of {indication, ..} in a queue implementation is control dependent on outstanding_confirmation == no_outstanding_indicaton, '
             'stores outstanding_confirmation on that path and removes the indication bit', floor=2)
    chk.rule('outstanding-writers', 'notification_queue::outstanding_confirmation_index_ is reset only by indication_confirmed(), clear_indications_and_confirmations() and the constructor, and is passed by reference only to impl::dequeue', floor=3)
    chk.rule('confirmation-length', 'server::handle_value_confirmation invokes the confirmation callback only for in_size == 1 and answers an error otherwise', floor=1)
    fns = variants(facts, Q + 'dequeue_indication_or_confirmation', chk)
    lines = {f.line for f in fns if f.kind in ('pattern', 'plain')}
    chk.require(len(lines) >= 2, 'expected the general and the single-entry implementation of dequeue_indication_or_confirmation, found %d' % len(lines))
    for fn in fns:
        outp = fn.params[1]['n']
        byref = fn.params[1]['t'].rstrip().endswith('&') and 'const' not in fn.params[1]['t']
        if fn.kind in ('pattern', 'plain'):
            chk.instance('indication-needs-no-outstanding', fn, 'outstanding index parameter `%s` : %s (impl at line %d)' % (outp, fn.params[1]['t'], fn.line), byref,
                         '' if byref else 'the outstanding index is taken by value: handing out an indication is not recorded, a second indication is sent before the first is confirmed', key='byref@%s' % ('single' if fn.line > 280 else 'general'))
        found = 0
        for r in fn.returns():
            first, il = pair_first(r)
            if first is None:
                chk.broke('%s line %d: return value is computed (%s), not a literal {kind, index}: idiom not recognised by rule indication-needs-no-outstanding' % (fn.q, r.l, r.text()[:40]))
                continue
            if first.n != 'indication':
                continue
            found += 1
            ats = guard_atoms(fn, r)
            g = any(op == '==' and not isinstance(rr, int) and ((is_name(l, outp) and strip_casts(rr).n == NONE) or (is_name(rr, outp) and strip_casts(l).n == NONE)) for l, op, rr in ats)
            st = [s for tgt, op, val, s in stores(fn.body) if is_name(tgt, outp) and fn.block_of(s) == fn.block_of(r)]
            rem = [c for c in fn.body.calls('remove') if fn.block_of(c) == fn.block_of(r)] + [s for tgt, op, val, s in stores(fn.body) if op == '&=' and fn.block_of(s) == fn.block_of(r)]
            ok = g and len(st) == 1 and bool(rem)
            chk.instance('indication-needs-no-outstanding', fn, 'return {indication, ..} (impl at line %d)' % fn.line, ok,
                         '' if ok else 'guard on no outstanding indication=%s, outstanding index stored=%s, pending bit removed=%s' % (g, len(st) == 1, bool(rem)), node=r, key='indication@%s' % ('single' if 'notification_queue_impl<1' in fn.targs or fn.line > 280 else 'general'))
        if fn.kind in ('pattern', 'plain'):
            chk.require(found >= 1 or any(pair_first(r)[0] is None for r in fn.returns()), 'no indication return found in %s line %d' % (fn.q, fn.line))
    F = 'outstanding_confirmation_index_'
    for fn, tgt, op, val, st in field_stores(facts, F, 'bluetoe::notification_queue'):
        v = strip_casts(val.c[0]) if (op == 'init' and val is not None and val.k in ('ParenListExpr', 'InitListExpr') and val.c) else (strip_casts(val) if val is not None else None)
        ok = v is not None and v.n == NONE and (op == 'init' or fn.name in ('indication_confirmed', 'clear_indications_and_confirmations', 'notification_queue'))
        chk.instance('outstanding-writers', fn, '%s %s %s in %s' % (F, op, v.text() if v is not None else '', fn.name), ok, '' if ok else 'outstanding indication forgotten/changed outside confirmation or clear', node=st, key='%s in %s' % (op, fn.name))
    for fn in facts.functions:
        if fn.q.startswith('bluetoe::notification_queue::'):
            for c in fn.body.calls():
                if any(is_name(a, F) for a in c.args()):
                    ok = c.cn == 'dequeue_indication_or_confirmation' and fn.name == 'dequeue_indication_or_confirmation'
                    chk.instance('outstanding-writers', fn, '%s passed to %s' % (F, c.cn), ok, '' if ok else 'outstanding index handed to an unexpected function', node=c, key='arg to ' + str(c.cn))
    for fn in variants(facts, 'bluetoe::server::handle_value_confirmation', chk):
        cbs = fn.body.calls('indication_confirmed') + [c for c in fn.body.calls() if c.cn == 'l2cap_cb_' or (c.callee() is not None and c.callee().n == 'l2cap_cb_')]
        ok = bool(cbs)
        for c in cbs:
            ok = ok and has_atom(guard_atoms(fn, c), lambda n: is_name(n, 'in_size'), {'=='}, lambda o: cval(o) == 1)
        errs = [c for c in fn.body.calls('error_response') if has_atom(guard_atoms(fn, c), lambda n: is_name(n, 'in_size'), {'!='}, lambda o: cval(o) == 1)]
        ok = ok and bool(errs)
        chk.instance('confirmation-length', fn, 'confirmation accepted only with in_size == 1', ok, '' if ok else 'a malformed Handle Value Confirmation releases the outstanding indication', key='confirmation')
