"""C17 A PDU failing its integrity check is never acknowledged as delivered."""
from .lib.match import *

UNITS = lambda u: u in ('w_inst_ll',) or u.startswith('t_link_layer') or u.startswith('nrf_')
SELECT = r'^bluetoe::link_layer::ll_data_pdu_buffer::|::radio_interrupt_handler$|^bluetoe::nrf52_details::'
BUF = 'bluetoe::link_layer::ll_data_pdu_buffer::'
META = {
    'level': 'who-may-write rule over every function of ll_data_pdu_buffer (pattern and all instantiations): the next expected sequence number '
             '(the NESN sent back, i.e. the acknowledgement) is stored only by received() under the SN==expected test, by reset_pdu_buffer() and the constructor. '
             'Any store on the MIC-failure path acknowledge(read_buffer) is a violation for every PDU stream, which no finite test set can show.',
    'technique': 'static who-writes + guarded-by rule over clang AST/CFG facts',
}


def run(chk, facts, tier):
    chk.rule('nesn-writers', 'next_expected_sequence_number_ is stored only in received() (toggle, control dependent on (header & sn_flag) == next_expected_sequence_number_), '
             'reset_pdu_buffer() (= false) and constructors; in particular not on the MIC-failure path acknowledge(read_buffer)', floor=2)
    chk.rule('mic-path-no-delivery', 'acknowledge(read_buffer), and every buffer function it calls, neither pushes to the receive ring, increments the receive packet counter, stores NESN nor calls received()', floor=1)
    variants(facts, BUF + 'received', chk)
    variants(facts, BUF + 'acknowledge', chk)
    F = 'next_expected_sequence_number_'
    for fn, tgt, op, val, st in field_stores(facts, F, BUF):
        if op == 'init' or fn.name == 'll_data_pdu_buffer':
            ok, why = True, ''
        elif fn.name == 'reset_pdu_buffer':
            ok = op == '=' and cval(val) == 0
            why = '' if ok else 'reset must store false'
        elif fn.name == 'received':
            ats = guard_atoms(fn, st)
            g = any(op2 == '==' and ((mentions(l, 'sn_flag') and is_name(r, F)) or (mentions(r, 'sn_flag') and is_name(l, F))) for l, op2, r in ats if not isinstance(r, int))
            ok = op == '=' and is_toggle_of(val, F) and g
            why = '' if ok else 'NESN toggle in received() is not guarded by (header & sn_flag) == next_expected_sequence_number_'
        else:
            ok = False
            why = ('%s() stores the next expected sequence number: a PDU that was not delivered to the receive buffer is acknowledged to the central '
                   '(new PDU with valid CRC and invalid MIC: NESN toggled, nothing stored, receive counter unchanged)' % fn.name)
        chk.instance('nesn-writers', fn, '%s %s %s' % (F, op, val.text() if val is not None else ''), ok, why, node=st, key='store NESN in %s(%s)' % (fn.name, fn.params[0]['t'].split('::')[-1] if fn.params else ''))
    for fn in facts.fns(BUF + 'acknowledge'):
        if not fn.params or 'read_buffer' not in fn.params[0]['t']:
            continue
        # everything reachable from the MIC-failure path inside the buffer class: none of it may deliver, count or toggle NESN
        seen, work, bad = set(), [fn], []
        while work:
            g = work.pop()
            if id(g) in seen:
                continue
            seen.add(id(g))
            for c in g.body.calls():
                if c.cn in ('push_front', 'increment_receive_packet_counter') or (c.cn == 'received'):
                    bad.append((g, c))
                elif c.cn and g is fn or c.cn in ('acknowledge', 'next_transmit'):
                    for h in facts.fns(BUF + c.cn):
                        if h.kind == fn.kind and len(h.params) == len(c.args()) and not (h.name == 'acknowledge' and h.params and 'read_buffer' in h.params[0]['t']):
                            work.append(h)
            for tgt, op, val, st in stores(g.body):
                if target_name(tgt) == F:
                    bad.append((g, st))
        chk.instance('mic-path-no-delivery', fn, 'acknowledge(read_buffer) and the %d buffer functions it calls' % (len(seen) - 1), not bad,
                     '' if not bad else 'the MIC-failure path reaches %s in %s(): a PDU whose integrity check failed is acknowledged/delivered/counted as if it had been received' % (bad[0][1].text()[:50], bad[0][0].name),
                     node=bad[0][1] if bad else None, key='acknowledge(read_buffer)')

    # nRF52 radio ISR: which buffer function sees which receive outcome
    chk.rule('pdu-status', 'nRF52 received_pdu(): mic_error = receive_encrypted_ && receive_size() != 0 && MICSTATUS == CheckFailed (every encrypted PDU with payload carries a MIC, whatever its length); '
             'valid_pdu requires !mic_error, !crc_error, !not_decrypt and a valid anchor; the tuple handed to the ISR is { valid_anchor, valid_pdu, !crc_error }', floor=1)

    def conj(n):
        n = strip_casts(n)
        if n.k == 'BinaryOperator' and n.o == '&&':
            return conj(n.c[0]) + conj(n.c[1])
        return [n]
    for fn in [f for f in facts.functions if f.name == 'received_pdu' and 'with_crypto' in (f.cls or '') and f.kind in ('plain', 'pattern')]:
        probs = []
        mi = local_init(fn, 'mic_error', optional=True)
        vp = local_init(fn, 'valid_pdu', optional=True)
        if mi is None or vp is None:
            chk.broke('received_pdu: locals mic_error / valid_pdu not found (idiom not recognised)')
            continue
        cs = conj(mi)
        enc = [c for c in cs if is_name(c, 'receive_encrypted_')]
        size = [c for c in cs if as_binop(c) is not None and any(x.d.get('call') and x.cn == 'receive_size' or (x.k in REF_KINDS and x.n == 'receive_size') for x in c.walk())]
        mic = [c for c in cs if as_binop(c) is not None and as_binop(c)[0] == '==' and mentions(c, 'MICSTATUS')]
        if not (len(cs) == 3 and len(enc) == 1 and len(mic) == 1 and len(size) == 1):
            probs.append('mic_error is not the conjunction of receive_encrypted_, a payload test and the CCM MIC status (%d conjuncts)' % len(cs))
        elif not (as_binop(size[0])[0] == '!=' and cval(as_binop(size[0])[2]) == 0):
            probs.append('the MIC status is honoured only for PDUs with (%s): a shorter encrypted PDU whose MIC check failed is reported as valid, delivered and acknowledged' % size[0].text()[:50])
        vc = conj(vp)
        negs = {strip_casts(c.c[0]).n for c in vc if c.k == 'UnaryOperator' and c.o == '!'}
        if not ({'mic_error', 'crc_error', 'not_decrypt'} <= negs and any(is_name(c, 'valid_anchor') for c in vc)):
            probs.append('valid_pdu does not require valid_anchor && !crc_error && !not_decrypt && !mic_error (negated: %s)' % sorted(negs))
        r = [x for x in fn.returns() if not any(a.k == 'LambdaExpr' for a in x.ancestors())]
        il = next((x for x in (ret_value(r[0]).walk() if len(r) == 1 and ret_value(r[0]) is not None else []) if (x.k == 'InitListExpr' or x.d.get('ctor') or x.k == 'CXXConstructExpr') and len(x.c) == 3), None)
        if il is None or not (is_name(il.c[0], 'valid_anchor') and is_name(il.c[1], 'valid_pdu') and strip_casts(il.c[2]).k == 'UnaryOperator' and is_name(strip_casts(il.c[2]).c[0], 'crc_error')):
            probs.append('the result is not { valid_anchor, valid_pdu, !crc_error }')
        chk.instance('pdu-status', fn, 'received_pdu: mic_error / valid_pdu / result tuple', not probs, '; '.join(probs), key='received_pdu')
    chk.rule('isr-dispatch', 'nRF52 radio ISR: received() only for valid CRC and valid MIC and a real receive buffer; acknowledge(buffer) only for valid CRC with invalid MIC; otherwise next_transmit() (nothing acknowledged)', floor=2)
    for fn in facts.functions:
        if fn.name != 'radio_interrupt_handler' or not fn._cfg:
            continue
        for c in fn.body.calls('received'):
            if not (c.args() and is_name(c.args()[0], 'receive_buffer_')):
                continue
            ats = guard_atoms(fn, c)
            crc = has_atom(ats, lambda n: is_name(n, 'valid_crc'), {'!='}, lambda o: cval(o) == 0)
            pdu = has_atom(ats, lambda n: is_name(n, 'valid_pdu'), {'!='}, lambda o: cval(o) == 0)
            buf = any(op == '!=' and not isinstance(r, int) and mentions(l, 'receive_buffer_') and mentions(r, 'empty_receive_') for l, op, r in ats)
            ok = crc and pdu and buf
            chk.instance('isr-dispatch', fn, 'received(receive_buffer_)', ok, '' if ok else 'guards: crc=%s mic=%s real buffer=%s' % (crc, pdu, buf), node=c, key='isr received')
        for c in fn.body.calls('acknowledge'):
            if not (c.args() and is_name(c.args()[0], 'receive_buffer_')):
                continue
            ats = guard_atoms(fn, c)
            crc = has_atom(ats, lambda n: is_name(n, 'valid_crc'), {'!='}, lambda o: cval(o) == 0)
            pdu = has_atom(ats, lambda n: is_name(n, 'valid_pdu'), {'=='}, lambda o: cval(o) == 0)
            ok = crc and pdu
            chk.instance('isr-dispatch', fn, 'acknowledge(receive_buffer_)', ok, '' if ok else 'guards: crc=%s mic-invalid=%s' % (crc, pdu), node=c, key='isr acknowledge')
