"""C15 Link layer data delivery is reliable, ordered and exactly-once (SN/NESN structure)."""
from .lib.match import *

SELECT = r'^bluetoe::link_layer::ll_data_pdu_buffer::|^bluetoe::link_layer::pdu_ring_buffer::alloc_front$'
UNITS = lambda u: u in ('w_inst_ll',) or u.startswith('t_link_layer')
BUF = 'bluetoe::link_layer::ll_data_pdu_buffer::'
ALSO = [('C18', ('wrap-mark-agreement', 'alloc-within-free-space'))]   # clauses of this property that another module's rules decide: run here as well
META = {
    'level': 'structural necessary conditions of the SN/NESN acknowledgement scheme, checked on the template pattern and every instantiation: who may write '
             'the two sequence bits, which branch guards the NESN toggle, the delivery to the receive ring and the release of a transmitted PDU, and that every '
             'transmitted PDU carries the current NESN. Does not decide end-to-end delivery over loss patterns (run-time histories).',
    'technique': 'static who-writes / guarded-by / must-pass rules over clang AST/CFG facts',
}


def sn_eq_expected(ats, want):
    F = 'next_expected_sequence_number_'
    return any(op == want and not isinstance(r, int) and ((mentions(l, 'sn_flag') and is_name(r, F)) or (mentions(r, 'sn_flag') and is_name(l, F))) for l, op, r in ats)


def run(chk, facts, tier):
    chk.rule('connection-state-reset', 'reset_pdu_buffer (called for every new connection) re-initialises every member of ll_data_pdu_buffer that the other member functions change '
             '(sequence numbers, next_empty_, maximum sizes, stop flag, both rings); empty_sequence_number_ is exempt: it is written together with next_empty_ = true and read only under it', floor=1)
    written = {}
    for fn in facts.functions:
        if fn.q.startswith(BUF) and fn.kind in ('pattern', 'plain') and fn.name not in ('reset_pdu_buffer', 'll_data_pdu_buffer'):
            for tgt, op, val, st in stores(fn.body):
                n = target_name(tgt)
                if n and n.endswith('_'):
                    written.setdefault(n, set()).add(fn.name)
            for c in fn.body.calls():
                o = base_object(c)
                if o is not None and strip_casts(o).n and strip_casts(o).n.endswith('_') and c.cn in ('push_front', 'pop_end', 'alloc_front'):
                    written.setdefault(strip_casts(o).n, set()).add(fn.name)
    for fn in facts.fns(BUF + 'reset_pdu_buffer'):
        if fn.kind not in ('pattern', 'plain'):
            continue
        done = set()
        for tgt, op, val, st in stores(fn.body):
            if op == '=' and not fn.guards(st):
                done.add(target_name(tgt))
        for c in fn.body.calls('reset'):
            o = base_object(c)
            if o is not None and not fn.guards(c):
                done.add(strip_casts(o).n)
        missing = sorted(set(written) - done - {'empty_sequence_number_'})
        chk.instance('connection-state-reset', fn, 'reset_pdu_buffer re-initialises %s' % sorted(set(written) & done), bool(written) and not missing,
                     '' if written and not missing else '%s (changed by %s) keeps its value from the previous connection: the first PDUs of the next connection are sent / acknowledged with the state the old one ended in' % (
                         ', '.join(missing), ', '.join(sorted(written.get(missing[0], []))) if missing else '?'), key='reset')
    chk.rule('sn-writers', 'sequence_number_ is stored only by reset_pdu_buffer (=false), commit_transmit_buffer (toggle) and next_transmit (toggle when an empty PDU is created)', floor=3)
    chk.rule('nesn-writers', 'next_expected_sequence_number_ is stored only by received() under SN == expected, reset_pdu_buffer() and constructors', floor=2)
    chk.rule('deliver-guard', 'received(): push_front to the receive ring is control dependent on SN == expected (new PDU), length != 0 and LLID != 0', floor=1)
    chk.rule('release-guard', 'acknowledge(bool): pop_end of the transmit ring is control dependent on SN(sent) != NESN(received) and on no empty PDU being outstanding', floor=1)
    chk.rule('commit-co-update', 'commit_transmit_buffer: every path that toggles sequence_number_ also pushes the PDU (push_front) and vice versa, under the radio lock', floor=1)
    chk.rule('nesn-on-every-tx', 'every return of next_transmit() goes through set_next_expected_sequence_number(), which writes the NESN bit from next_expected_sequence_number_', floor=3)
    chk.rule('ack-processed', 'received() and acknowledge(read_buffer) process the peer\'s NESN (acknowledge(header & nesn_flag)) and answer with next_transmit()', floor=2)

    chk.rule('empty-pdu-lifecycle', 'next_empty_ is set only in next_transmit when nothing is outstanding and nothing is queued (together with empty_sequence_number_ = sequence_number_), and cleared only by a reset or in acknowledge(nesn) under exactly next_empty_ && empty_sequence_number_ != nesn', floor=3)
    chk.rule('ring-alloc-keeps-gap', 'pdu_ring_buffer::alloc_front: a region that ends at the read pointer end_ is granted only for size < distance (strict: front_ == end_ means empty), a region that ends at the end of the storage for size <= distance', floor=2)
    for fn in variants(facts, 'bluetoe::link_layer::pdu_ring_buffer::alloc_front', chk):
        size = fn.params[1]['n']
        n = 0
        for r in fn.returns():
            il = next((x for x in (ret_value(r).walk() if ret_value(r) is not None else []) if (x.k == 'InitListExpr' or x.d.get('ctor')) and len(x.c) == 2), None)
            if il is None or len(il.c) != 2 or cval(il.c[1]) == 0:
                continue
            n += 1
            ats = guard_atoms(fn, r)
            ok = False
            why = 'no size test dominates this allocation'
            found = []
            for l, op, rr in ats:
                if isinstance(rr, int) or not is_name(l, size) or op not in ('<', '<='):
                    continue
                b = as_binop(rr)
                if b and b[0] == '-' and strip_casts(b[1]).k in REF_KINDS:
                    found.append((strip_casts(b[1]).n, op))
            if found:
                ok = all(op == '<' for lim, op in found if lim == 'end_')
                why = '' if ok else 'an allocation may reach the read pointer end_ exactly: front_ == end_ then reads as "empty" and every queued PDU is lost'
            chk.instance('ring-alloc-keeps-gap', fn, 'return %s' % r.text()[7:50], ok, '' if ok else why, node=r, key='alloc ' + il.c[0].text())
        chk.require(n >= 3 or fn.kind != 'pattern', 'alloc_front: expected three allocating returns')
    SN, NESN = 'sequence_number_', 'next_expected_sequence_number_'
    variants(facts, BUF + 'received', chk)
    variants(facts, BUF + 'next_transmit', chk)
    variants(facts, BUF + 'commit_transmit_buffer', chk)

    for fn, tgt, op, val, st in field_stores(facts, SN, BUF):
        if op == 'init' or fn.name == 'll_data_pdu_buffer':
            ok, why = True, ''
        elif fn.name == 'reset_pdu_buffer':
            ok, why = (op == '=' and cval(val) == 0), 'reset must store false'
        elif fn.name == 'commit_transmit_buffer':
            ok, why = (op == '=' and is_toggle_of(val, SN)), 'commit must toggle'
        elif fn.name == 'next_transmit':
            ats = guard_atoms(fn, st)
            g = has_atom(ats, lambda n: is_name(n, 'next_empty_'), {'=='}, lambda o: cval(o) == 0) and \
                any(op2 == '==' and cval(r) == 0 and mentions(l, 'next') for l, op2, r in ats)
            ok, why = (op == '=' and is_toggle_of(val, SN) and g), 'SN toggle in next_transmit must be in the branch that creates a new empty PDU (!next_empty_ && next.size == 0)'
        else:
            ok, why = False, 'unexpected writer of the transmit sequence number'
        chk.instance('sn-writers', fn, '%s %s %s' % (SN, op, val.text() if val is not None else ''), ok, '' if ok else why, node=st, key='store SN in ' + fn.name)

    # the self generated empty PDU: created with the current SN, repeated until exactly that SN is acknowledged
    for fn, tgt, op, val, st in field_stores(facts, 'next_empty_', BUF):
        ats = guard_atoms(fn, st) if op != 'init' else []
        if op == 'init' or fn.name in ('ll_data_pdu_buffer', 'reset_pdu_buffer'):
            ok, why = (op == 'init' or cval(val) == 0), 'a reset buffer has no empty PDU outstanding'
        elif fn.name == 'next_transmit':
            ok = cval(val) == 1 and has_atom(ats, lambda n: is_name(n, 'next_empty_'), {'=='}, lambda o: cval(o) == 0) and any(op2 == '==' and cval(r) == 0 and mentions(l, 'next') for l, op2, r in ats if not isinstance(l, int))
            same = [s2 for t2, o2, v2, s2 in stores(fn.body) if target_name(t2) == 'empty_sequence_number_' and fn.block_of(s2) == fn.block_of(st) and is_name(v2, SN)]
            ok = ok and len(same) == 1
            why = 'an empty PDU is created outside (!next_empty_ && nothing to send) or without remembering its sequence number'
        elif fn.name == 'acknowledge':
            acked = any(o2 == '!=' and not isinstance(r, int) and {strip_casts(l).n, strip_casts(r).n} == {'empty_sequence_number_', fn.params[0]['n']} for l, o2, r in ats)
            pending = has_atom(ats, lambda n: is_name(n, 'next_empty_'), {'!='}, lambda o: cval(o) == 0)
            ok = cval(val) == 0 and acked and pending and len(ats) == 2
            why = ('the outstanding empty PDU is given up under (%s), not exactly when the central acknowledged it (empty_sequence_number_ != nesn): the next PDU goes out with the following SN although the empty one may still have to be repeated - '
                   'the central takes it for a retransmission, drops it, and its NESN then releases a data PDU that was never accepted' % ' && '.join('%s %s %s' % (l.text() if not isinstance(l, int) else l, o2, r.text() if not isinstance(r, int) else r) for l, o2, r in ats))
        else:
            ok, why = False, 'unexpected writer of next_empty_'
        chk.instance('empty-pdu-lifecycle', fn, 'next_empty_ %s %s in %s' % (op, val.text() if val is not None else '', fn.name), ok, '' if ok else why, node=st, key='next_empty_ in %s' % fn.name)

    for fn, tgt, op, val, st in field_stores(facts, NESN, BUF):
        if op == 'init' or fn.name == 'll_data_pdu_buffer':
            ok = True
        elif fn.name == 'reset_pdu_buffer':
            ok = op == '=' and cval(val) == 0
        elif fn.name == 'received':
            ok = op == '=' and is_toggle_of(val, NESN) and sn_eq_expected(guard_atoms(fn, st), '==')
        else:
            ok = False
        chk.instance('nesn-writers', fn, '%s %s %s' % (NESN, op, val.text() if val is not None else ''), ok,
                     '' if ok else '%s() changes the acknowledgement bit outside the new-PDU branch of received()' % fn.name, node=st,
                     key='store NESN in %s(%s)' % (fn.name, fn.params[0]['t'].split('::')[-1] if fn.params else ''))

    for fn in facts.fns(BUF + 'received'):
        pushes = [c for c in fn.body.calls('push_front')]
        if not pushes:
            chk.instance('deliver-guard', fn, 'push_front', False, 'received() never stores the PDU', key='push_front')
        for c in pushes:
            ats = guard_atoms(fn, c)
            new = sn_eq_expected(ats, '==')
            nonempty = any(op == '!=' and cval(r) == 0 and l is not None and not isinstance(l, int) and l.k == 'BinaryOperator' and l.o == '&' and cval(l.c[1]) == 0xff00 for l, op, r in ats)
            llid = any(op == '!=' and cval(r) == 0 and not isinstance(l, int) and l.k == 'BinaryOperator' and l.o == '&' and cval(l.c[1]) == 3 for l, op, r in ats)
            ok = new and nonempty and llid
            chk.instance('deliver-guard', fn, 'receive_buffer_.push_front', ok, '' if ok else 'guards: new=%s length!=0=%s llid!=0=%s' % (new, nonempty, llid), node=c, key='push_front')
        acks = [c for c in fn.body.calls('acknowledge')]
        nt = [r for r in fn.returns() if ret_value(r) is not None and ret_value(r).is_call('next_transmit')]
        ok = len(acks) == 1 and fn.block_of(acks[0]) is not None and not fn.guards(acks[0]) and len(nt) == len(fn.returns()) >= 1
        ok = ok and mentions(acks[0].args()[0], 'nesn_flag')
        chk.instance('ack-processed', fn, 'acknowledge(header & nesn_flag); return next_transmit()', ok, '' if ok else 'peer acknowledgement not processed unconditionally or answer not next_transmit()', key='received')

    for fn in facts.fns(BUF + 'acknowledge'):
        if fn.params and fn.params[0]['t'].endswith('bool'):
            pops = fn.body.calls('pop_end')
            if not pops:
                chk.instance('release-guard', fn, 'pop_end', False, 'acknowledge(bool) never releases a transmitted PDU', key='pop_end')
            for c in pops:
                ats = guard_atoms(fn, c)
                g1 = any(op == '!=' and not isinstance(r, int) and ((mentions(l, 'sn_flag') and is_name(r, fn.params[0]['n'])) or (mentions(r, 'sn_flag') and is_name(l, fn.params[0]['n']))) for l, op, r in ats)
                g2 = has_atom(ats, lambda n: is_name(n, 'next_empty_'), {'=='}, lambda o: cval(o) == 0)
                ok = g1 and g2
                chk.instance('release-guard', fn, 'transmit_buffer_.pop_end', ok, '' if ok else 'guards: sn!=nesn=%s, no empty outstanding=%s' % (g1, g2), node=c, key='pop_end')
        elif fn.params and 'read_buffer' in fn.params[0]['t']:
            acks = [c for c in fn.body.calls('acknowledge')]
            nt = [r for r in fn.returns() if ret_value(r) is not None and ret_value(r).is_call('next_transmit')]
            ok = len(nt) == len(fn.returns()) >= 1 and all(mentions(a.args()[0], 'nesn_flag') for a in acks)
            chk.instance('ack-processed', fn, 'acknowledge(read_buffer) answers with next_transmit()', ok, '' if ok else 'MIC-failure path does not answer with next_transmit()', key='acknowledge(read_buffer)')

    for fn in facts.fns(BUF + 'commit_transmit_buffer'):
        tog = [st for tgt, op, val, st in stores(fn.body) if target_name(tgt) == SN]
        push = fn.body.calls('push_front')
        ok = len(tog) == 1 and len(push) == 1
        why = 'expected one toggle and one push_front'
        if ok:
            bt, bp = fn.block_of(tog[0]), fn.block_of(push[0])
            # same guards: each dominates or post-dominates the other => here: same set of dominating edges
            ge = lambda n: sorted((c.i, str(o)) for c, o in fn.guards(n))
            ok = ge(tog[0]) == ge(push[0])
            why = 'toggle and push_front are under different conditions'
            locks = fn.body.find(lambda n: n.k == 'VarDecl' and n.d.get('tn') == 'lock_guard')
            if ok and not any(l.l < tog[0].l and l.l < push[0].l and l.parent is not None and l.parent.parent is tog[0].parent.parent or l.l < tog[0].l and l.parent.parent is fn.body for l in locks):
                ok = False
                why = 'sequence number toggle and push_front are not inside a Radio::lock_guard scope (the radio interrupt reads both)'
            # the value the SN bit of this PDU is taken from is read under the same lock as the toggle: the interrupt (next_transmit: empty PDU) uses and toggles it too
            reads = [n for n in fn.body.walk() if n.k in ('MemberExpr', 'CXXDependentScopeMemberExpr') and n.n == SN]
            if ok and locks and not all(any(l.l < r.l and l.parent.parent is fn.body for l in locks) for r in reads):
                ok = False
                why = 'sequence_number_ is read (to set the SN bit of the PDU) before the radio lock is taken: an interrupt that sends the empty PDU in between uses the same sequence number, and one of the two PDUs is taken for a retransmission and dropped'
        chk.instance('commit-co-update', fn, 'sequence_number_ read + toggle + push_front under one lock', ok, '' if ok else why, key='commit')

    for fn in facts.fns(BUF + 'next_transmit'):
        for i, r in enumerate(fn.returns()):
            v = ret_value(r)
            ok = v is not None and v.is_call('set_next_expected_sequence_number')
            chk.instance('nesn-on-every-tx', fn, 'return #%d: %s' % (i, r.text()[:70]), ok, '' if ok else 'a transmitted PDU does not carry the current NESN', node=r, key='return#%d' % i)
    for fn in facts.fns(BUF + 'set_next_expected_sequence_number'):
        cond = fn.body.find(lambda n: n.k == 'ConditionalOperator' and is_name(n.c[0], NESN))
        ok = bool(cond) and any(c.cn == 'header' and len(c.args()) == 2 for c in fn.body.calls())
        if ok:
            c = cond[0]
            ok = c.c[1].o == '|' and mentions(c.c[1], 'nesn_flag') and c.c[2].o == '&' and mentions(c.c[2], 'nesn_flag')
        chk.instance('nesn-on-every-tx', fn, 'header = NESN ? header | nesn_flag : header & ~nesn_flag', ok, '' if ok else 'NESN bit is not derived from next_expected_sequence_number_', key='set_nesn')
