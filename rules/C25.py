"""C25 Only properly addressed and permitted requests are answered while advertising (connect requests)."""
from .lib.match import *

SELECT = r'^bluetoe::link_layer::details::advertising_type_base::|^bluetoe::link_layer::(connectable_undirected_advertising|connectable_directed_advertising|scannable_undirected_advertising|non_connectable_undirected_advertising)::impl::(is_valid_connect_request|is_valid_scan_request)$|^bluetoe::link_layer::details::advertiser::|^bluetoe::link_layer::details::white_list_implementation::(is_connection_request_in_filter|is_scan_request_in_filter)$'
UNITS = lambda u: u in ('w_inst_ll',) or u.startswith('t_link_layer_ll_adv') or u.startswith('t_link_layer_ll_connecting') or u.startswith('t_link_layer_white')
META = {
    'level': 'decision-table extraction for the accept-a-connection decision: the conjuncts of advertising_type_base::is_valid_connect_request (PDU memory size for 34 bytes, length field 34, PDU type 0x5, '
             'AdvA equal to the own address, RxAdd equal to the own address type), the additional conjuncts of the directed variant (InitA equal to the configured peer, peer configured, TxAdd equal to the peer\'s '
             'address type), non-connectable variants answer false, and in both advertiser variants `return true` is control dependent on the validity test and on is_connection_request_in_filter() of the '
             'address taken from InitA/TxAdd. The software white list accepts exactly !filter || in_list. Scan requests are decided by the radio binding (hardware address match) and are not decided here.',
    'technique': 'static decision-table (conjunct) extraction + guarded-by rules over clang AST/CFG facts',
}


def conjuncts(fn):
    """conjuncts that must hold for `return true` in an accumulate-and-return-result function"""
    out = []
    def add(e):
        e = strip_casts(e)
        if e.k == 'BinaryOperator' and e.o == '&&':
            add(e.c[0]); add(e.c[1])
        elif not (e.k in REF_KINDS and e.n == 'result'):
            out.append(e)
    for d in fn.body.find(lambda n: n.k == 'VarDecl' and n.n == 'result'):
        if d.c:
            add(d.c[0])
    for tgt, op, val, st in stores(fn.body):
        if is_name(tgt, 'result') and op == '=' and val is not None:
            add(val)
    for r in fn.returns():
        v = ret_value(r)
        if v is not None and cval(v) == 0:
            for c, o in fn.guards(r):
                if isinstance(o, bool):
                    for l, op, rr in atoms(c, o):
                        out.append(('neg', l, op, rr))
        elif v is not None and not (v.k in REF_KINDS and v.n == 'result') and cval(v) is None:
            add(v)
    return out


def classify(cs):
    found = set()
    for c in cs:
        if isinstance(c, tuple):
            _, l, op, r = c
            if op == '!=' and not isinstance(l, int) and strip_casts(l).n == 'size' and not isinstance(r, int) and strip_casts(r).is_call('data_channel_pdu_memory_size') and mentions(r, 'connect_request_size'):
                found.add('SIZE')
            continue
        b = as_binop(c)
        t = c.text()
        if b and b[0] == '==':
            l, r = b[1], b[2]
            for x, y in ((l, r), (r, l)):
                if is_name(y, 'connect_request_size') and '>> 8' in x.text() and '0x3f' not in x.text() and '& 63' in x.text():
                    found.add('LENFIELD')
                if is_name(y, 'connect_request_code') and '& 15' in x.text():
                    found.add('TYPE')
                if x.is_call('is_random') and mentions(y, 'header_rxaddr_field') and is_name(base_object(x), 'addr'):
                    found.add('RXADD')
                if x.is_call('is_random') and mentions(y, 'header_txaddr_field') and is_name(base_object(x), 'addr_'):
                    found.add('TXADD')
                if strip_casts(x).n == 'size' and y.is_call('data_channel_pdu_memory_size'):
                    found.add('SIZE')
        if c.is_call('equal') and len(c.args()) == 3:
            a0, a1, a2 = [x.text() for x in c.args()]
            if 'body[address_length]' in a0 and 'body[(2 * address_length)]' in a1 and a2.startswith('addr.begin'):
                found.add('ADVA')
            if 'body[0]' in a0 and 'body[address_length]' in a1 and a2.startswith('addr_.begin'):
                found.add('INITA')
        if c.k in REF_KINDS and c.n == 'addr_valid_':
            found.add('PEERSET')
        if c.is_call('is_valid_connect_request'):
            found.add('BASE')
    return found


def run(chk, facts, tier):
    chk.rule('connect-request-conjuncts', 'is_valid_connect_request requires: memory size of a 34 byte PDU, length field 34, type 0x5, AdvA == own address, RxAdd == own address type', floor=1)
    chk.rule('directed-conjuncts', 'directed advertising additionally requires InitA == configured peer, peer configured, TxAdd == peer address type on top of the base test', floor=1)
    chk.rule('non-connectable-false', 'scannable and non-connectable advertising never accept a connect request', floor=2)
    chk.rule('accept-needs-valid-and-filter', 'handle_adv_receive returns true only behind is_valid_connect_request(..) and is_connection_request_in_filter(address from InitA, TxAdd)', floor=2)
    chk.rule('filter-semantics', 'software white list: request accepted exactly when !filter || is_in_white_list(addr)', floor=2)
    chk.rule('on-air-type-decides', 'advertiser with several advertising types: received requests are judged by selected_ (the type of the PDU that was transmitted); proposal_ (the type requested for the next '
             'advertising event) is only assigned, copied into selected_ when a PDU is built, or compared with selected_', floor=1)
    n_sites = 0
    for fn in facts.functions:
        if fn.kind != 'pattern' or not fn.q.startswith('bluetoe::link_layer::details::advertiser::'):
            continue
        for n in fn.body.walk():
            if not (n.k in REF_KINDS and n.n == 'proposal_'):
                continue
            n_sites += 1
            par = n.parent
            while par is not None and par.k in ('ImplicitCastExpr', 'ParenExpr'):
                par = par.parent
            okp = False
            if par is not None and par.k == 'BinaryOperator' and par.o == '=':
                okp = (strip_casts(par.c[0]) is n) or is_name(par.c[0], 'selected_')
            elif par is not None and par.k == 'BinaryOperator' and par.o in ('==', '!='):
                other = par.c[1] if strip_casts(par.c[0]) is n else par.c[0]
                okp = is_name(other, 'selected_') or fn.name == 'change_advertising'
            chk.instance('on-air-type-decides', fn, 'proposal_ used in %s: %s' % (fn.name, (par.text()[:60] if par is not None else '?')), okp,
                         '' if okp else 'the advertising type requested for the *next* event is used in %s(): a request received in answer to the PDU on air is judged by another advertising type (e.g. a CONNECT_IND from any device accepted while a directed or scannable PDU was sent)' % fn.name,
                         node=n, key='proposal_ in %s/%s' % (fn.name, (par.o if par is not None and par.k == 'BinaryOperator' else (par.k if par is not None else '?'))))
    chk.require(n_sites >= 3, 'advertiser: uses of proposal_ not found (%d)' % n_sites)
    AB = 'bluetoe::link_layer::details::advertising_type_base::'
    for fn in variants(facts, AB + 'is_valid_connect_request', chk):
        got = classify(conjuncts(fn))
        consts = {d.n: d.c[0].v for d in fn.body.find(lambda n: n.k == 'VarDecl') if d.c and d.c[0].v is not None}
        want = {'SIZE', 'LENFIELD', 'TYPE', 'ADVA', 'RXADD'}
        ok = want <= got and consts.get('connect_request_size') == 34 and consts.get('connect_request_code') == 5
        chk.instance('connect-request-conjuncts', fn, 'conjuncts %s, size=%s code=%s' % (sorted(got), consts.get('connect_request_size'), consts.get('connect_request_code')), ok,
                     '' if ok else 'missing test(s): %s' % sorted(want - got), key='base')
    for fn in variants(facts, 'bluetoe::link_layer::connectable_directed_advertising::impl::is_valid_connect_request', chk):
        got = classify(conjuncts(fn))
        want = {'BASE', 'INITA', 'PEERSET', 'TXADD'}
        ok = want <= got
        chk.instance('directed-conjuncts', fn, 'conjuncts %s' % sorted(got), ok, '' if ok else 'missing test(s): %s' % sorted(want - got), key='directed')
    for cls in ('scannable_undirected_advertising', 'non_connectable_undirected_advertising'):
        for fn in variants(facts, 'bluetoe::link_layer::%s::impl::is_valid_connect_request' % cls, chk):
            ok = all(cval(ret_value(r)) == 0 for r in fn.returns()) and bool(fn.returns())
            chk.instance('non-connectable-false', fn, cls, ok, '' if ok else 'a non-connectable advertising type accepts connect requests', key=cls)
    hs = variants(facts, 'bluetoe::link_layer::details::advertiser::handle_adv_receive', chk)
    chk.require(len({f.line for f in hs if f.kind == 'pattern'}) >= 2, 'expected the single- and multi-advertising-type handle_adv_receive')
    for fn in hs:
        trues = [r for r in fn.returns() if cval(ret_value(r)) == 1]
        ok = len(trues) == 1
        if ok:
            ats = guard_atoms(fn, trues[0])
            v = any(op == '!=' and cval(r) == 0 and not isinstance(l, int) and strip_casts(l).is_call('is_valid_connect_request') for l, op, r in ats)
            flt = [strip_casts(l) for l, op, r in ats if op == '!=' and cval(r) == 0 and not isinstance(l, int) and strip_casts(l).is_call('is_connection_request_in_filter')]
            ok = v and len(flt) == 1 and is_name(flt[0].args()[0], 'remote_address')
            st = [val for tgt, op, val, s in stores(fn.body) if is_name(tgt, 'remote_address')]
            if ok:
                ok = len(st) == 1 and 'body[0]' in st[0].text() and ('& 64' in st[0].text() or 'header_txaddr_field' in st[0].text())
        chk.instance('accept-needs-valid-and-filter', fn, 'handle_adv_receive (line %d)' % fn.line, ok, '' if ok else 'a connection can be accepted without the validity test or the connection filter on the initiator address', key='accept@%s' % ('multi' if fn.line > 1300 else 'single'))
    for name, flag in (('is_connection_request_in_filter', 'connection_filter_'), ('is_scan_request_in_filter', 'scan_filter_')):
        for fn in facts.fns('bluetoe::link_layer::details::white_list_implementation::' + name):
            rets = fn.returns()
            v = ret_value(rets[0]) if len(rets) == 1 else None
            if v is not None and v.is_call() and v.cn.startswith('radio_'):
                continue   # delegated to the radio's hardware list
            from .C26 import filter_form_ok
            ok = filter_form_ok(fn, flag)
            chk.instance('filter-semantics', fn, '%s: !%s || is_in_white_list(addr)' % (name, flag), ok, '' if ok else 'filter decision changed', key=name)
