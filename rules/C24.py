"""C24 Advertising uses exactly the enabled channels at the configured rate."""
from .lib.match import *
from .lib.paths import explore

SELECT = r'^bluetoe::link_layer::(variable_advertising_channel_map|all_advertising_channel_map|no_auto_start_advertising::impl|details::advertiser_base)::'
UNITS = lambda u: u in ('w_inst_ll',) or u.startswith('t_link_layer_ll_adv') or u.startswith('t_link_layer_adv')
VMAP = 'bluetoe::link_layer::variable_advertising_channel_map::'
META = {
    'level': 'path-sensitive typestate over the CFG of the channel-map mutators: on every feasible path to the exit of next_channel / add_channel / remove_channel the '
             'current channel index was last validated against the map (non-zero edge of a test map_ & (1 << index), or assignment from first_channel_index(), whose own loop exits on '
             'that test). Plus interval rule: the only store to the advertising perturbation is (x + k) % (10 + 1) and it is added, in milliseconds, only when the first channel is selected; '
             'and the count/enable transitions of no_auto_start_advertising. Holds for every map and every sequence of map changes; values of intervals are not decided.',
    'technique': 'static path-sensitive typestate with correlated branch conditions + store-shape (range) rule over clang AST/CFG facts',
}

IDX, MAP = 'current_channel_index_', 'map_'


def is_map_bit_test(n, idx_name):
    """expression `map_ & (1 << idx)` (either operand order)"""
    n = strip_casts(n)
    if isinstance(n, int) or n is None or n.k != 'BinaryOperator' or n.o != '&':
        return False
    a, b = strip_casts(n.c[0]), strip_casts(n.c[1])
    for m, s in ((a, b), (b, a)):
        if is_name(m, MAP) and s.k == 'BinaryOperator' and s.o == '<<' and cval(s.c[0]) == 1 and is_name(s.c[1], idx_name):
            return True
    return False


def typestate_fn(chk, fn, idx_name, rule, key):
    def on_node(ts, node):
        for tgt, op, val, st in stores(node):
            if st is node and target_name(tgt) == idx_name:
                if op == '=' and val is not None and strip_casts(val).is_call('first_channel_index'):
                    return 'validated'
                return 'unvalidated'
        return ts

    def on_edge(ts, cond, outcome, ats):
        for l, op, r in ats:
            if op == '!=' and cval(r) == 0 and is_map_bit_test(l, idx_name):
                return 'validated'
            if op == '!=' and cval(l) == 0 and is_map_bit_test(r, idx_name):
                return 'validated'
        return ts

    res = explore(fn, 'entry', on_node, on_edge)
    bad = [(ts, tr) for ts, tr in res if ts == 'unvalidated']
    touched = any(ts != 'entry' for ts, tr in res)
    if not touched:
        return None
    ok = not bad
    detail = ''
    if bad:
        tr = bad[0][1]
        detail = ('%s can leave %s with an index that was never tested against the channel map; path: ' % (fn.name, idx_name)) + ' ; '.join('line %d: (%s) is %s' % (l, t, o) for l, t, o in tr[-6:])
    chk.instance(rule, fn, '%d feasible path(s) to exit, %d end unvalidated' % (len(res), len(bad)), ok, detail, key=key)
    return ok


def run(chk, facts, tier):
    chk.rule('channel-index-validated', 'variable_advertising_channel_map: at every exit of next_channel/add_channel/remove_channel (non-empty map) the current channel index was validated '
             'against map_ (edge map_ & (1 << index) != 0, or = first_channel_index())', floor=3)
    chk.rule('map-change-restarts-sequence', 'add_channel / remove_channel store the new map and then re-select first_channel_index() (remove: unless the map became empty), so the next advertising event covers every enabled channel in ascending order', floor=2)
    chk.rule('no-enabled-channel-skipped', 'variable_advertising_channel_map::next_channel changes the index only by ++ and by a wrap to first_channel_index() that is control dependent on (1 << index) > map_ (no enabled channel at or above the index)', floor=1)
    chk.rule('first-index-loop', 'first_channel_index() returns the loop variable whose loop exits exactly on (map_ & (1 << result)) != 0, starting from 0 and stepping by 1', floor=1)
    chk.rule('fixed-map-cycle', 'all_advertising_channel_map::next_channel maps last -> first and c -> c + 1 otherwise', floor=1)
    chk.rule('perturbation-range', 'adv_perturbation_ is stored only as (adv_perturbation_ + k) % (max_adv_perturbation_ + 1) with max 10 and 0 initially; next_adv_event returns now() unless the first '
             'channel is selected and otherwise interval + msec(adv_perturbation_)', floor=2)
    chk.rule('start-stop-count', 'no_auto_start_advertising::impl: the event count is decremented only when non-zero, reaching zero disables advertising, stop/end clear enabled_', floor=3)

    # --- typestate
    for name in ('next_channel', 'add_channel_to_advertising_channel_map', 'remove_channel_from_advertsing_channel_map'):
        fns = variants(facts, VMAP + name, chk)
        for fn in fns:
            r = typestate_fn(chk, fn, IDX, 'channel-index-validated', name)
            if r is None:
                # remove_channel with an empty map leaves the index untouched: outside the property's quantifier (non-empty maps)
                chk.instance('channel-index-validated', fn, name + ' never stores the index', name.startswith('remove') or name.startswith('add'), 'index never updated', key=name)

    # a run-time change of the map restarts the channel sequence at the first enabled channel (events stay aligned: each event covers every enabled channel)
    for name, may_be_empty in (('add_channel_to_advertising_channel_map', False), ('remove_channel_from_advertsing_channel_map', True)):
        for fn in variants(facts, VMAP + name, chk):
            ms = [st for tgt, op, val, st in stores(fn.body) if target_name(tgt) == MAP]
            fs = [st for tgt, op, val, st in stores(fn.body) if target_name(tgt) == IDX and op == '=' and val is not None and strip_casts(val).is_call('first_channel_index')]
            ok = len(ms) == 1 and len(fs) == 1 and precedes(fn, ms[0], fs[0])
            why = 'the current channel is not re-selected after the map changed'
            if ok:
                ats = guard_atoms(fn, fs[0])
                if may_be_empty:
                    ok = len(ats) == 1 and has_atom(ats, lambda n: is_name(n, MAP), {'!='}, lambda o: cval(o) == 0)
                else:
                    ok = not ats
                if not ok:
                    why = ('after the map change the sequence restarts at the first enabled channel only under (%s): otherwise the running position is kept, the next advertising event starts in the middle of the new map and leaves out the enabled channels below it' %
                           ' && '.join('%s %s %s' % (l.text() if not isinstance(l, int) else l, o, r.text() if not isinstance(r, int) else r) for l, o, r in ats))
            chk.instance('map-change-restarts-sequence', fn, '%s: map_ updated, then current_channel_index_ = first_channel_index()%s' % (name, ' if the map is not empty' if may_be_empty else ''), ok, '' if ok else why, key=name)

    # no enabled channel is skipped: the index moves forward one position at a time and wraps only when no higher channel is enabled
    for fn in variants(facts, VMAP + 'next_channel', chk):
        probs = []
        unknown = []
        n_wrap = 0
        for tgt, op, val, st in stores(fn.body):
            if target_name(tgt) != IDX:
                continue
            if op == '++':
                continue
            if op == '=' and val is not None and strip_casts(val).is_call('first_channel_index'):
                n_wrap += 1
                ats = guard_atoms(fn, st)
                past = False
                for l, o2, r in ats:
                    for x, oo, y in ((l, o2, r), (r, SWAP[o2], l)):
                        if isinstance(x, int) or isinstance(y, int):
                            # (map_ >> idx) == 0
                            b = as_binop(x) if not isinstance(x, int) else None
                            if b and b[0] == '>>' and is_name(b[1], MAP) and is_name(b[2], IDX) and oo == '==' and cval(y) == 0:
                                past = True
                            continue
                        bx = as_binop(x)
                        if bx and bx[0] == '<<' and cval(bx[1]) == 1 and is_name(bx[2], IDX) and is_name(y, MAP) and oo == '>':
                            past = True
                if not past:
                    rel = [a for a in ats if any(mentions(z, MAP) for z in (a[0], a[2]) if not isinstance(z, int))]
                    if all((not isinstance(a[0], int) and is_map_bit_test(a[0], IDX)) or (not isinstance(a[2], int) and is_map_bit_test(a[2], IDX)) for a in rel):
                        probs.append((st, 'the index wraps to the first enabled channel under (%s) only - not under "no enabled channel above it" ((1 << index) > map_): with the map {37, 39} channel 39 is never used' %
                                      ' && '.join('%s %s %s' % (a[0].text() if not isinstance(a[0], int) else a[0], a[1], a[2].text() if not isinstance(a[2], int) else a[2]) for a in rel) or 'no condition on the map'))
                    else:
                        unknown.append(st)
                continue
            probs.append((st, 'the index is changed by something else than one step forward or the wrap to the first enabled channel (%s): a channel can be skipped' % st.text()[:50]))
        if unknown:
            chk.broke('next_channel: the wrap at line %d is guarded by a map test the rule does not recognise ((1 << index) > map_ or (map_ >> index) == 0 expected)' % unknown[0].l)
            continue
        chk.instance('no-enabled-channel-skipped', fn, 'next_channel: ++ steps, %d wrap(s) behind (1 << index) > map_' % n_wrap, not probs and n_wrap >= 1, probs[0][1] if probs else ('no wrap to the first channel' if n_wrap < 1 else ''), node=probs[0][0] if probs else None, key='next_channel')

    for fn in variants(facts, VMAP + 'first_channel_index', chk):
        rets = fn.returns()
        ok = False
        why = 'unexpected shape'
        if len(rets) == 1 and ret_value(rets[0]) is not None and ret_value(rets[0]).k in REF_KINDS:
            var = ret_value(rets[0]).n
            init = local_init(fn, var)
            def on_node(ts, node):
                for tgt, op, val, st in stores(node):
                    if st is node and target_name(tgt) == var:
                        return 'unvalidated' if op == '++' else 'bad'
                return ts
            def on_edge(ts, cond, outcome, ats):
                for l, op, r in ats:
                    if op == '!=' and ((cval(r) == 0 and is_map_bit_test_local(l, var)) or (cval(l) == 0 and is_map_bit_test_local(r, var))):
                        return 'validated' if ts != 'bad' else ts
                return ts
            def is_map_bit_test_local(n, v):
                return is_map_bit_test(n, v)
            res = explore(fn, 'unvalidated', on_node, on_edge)
            ok = init is not None and cval(init) == 0 and bool(res) and all(ts == 'validated' for ts, tr in res)
            why = 'a path returns an index whose map bit was not tested (or the scan does not start at 0 / step by 1)'
        chk.instance('first-index-loop', fn, 'first_channel_index()', ok, '' if ok else why, key='first_channel_index')

    for fn in variants(facts, 'bluetoe::link_layer::all_advertising_channel_map::next_channel', chk):
        ok = False
        for tgt, op, val, st in stores(fn.body):
            v = strip_casts(val) if val is not None else None
            if target_name(tgt) == IDX and op == '=' and v is not None and v.k == 'ConditionalOperator':
                c = atoms(v.c[0], True)
                c_ok = any(o == '==' and ((is_name(l, IDX) and is_name(r, 'last_advertising_channel')) or (is_name(r, IDX) and is_name(l, 'last_advertising_channel'))) for l, o, r in c if not isinstance(r, int))
                t_ok = is_name(v.c[1], 'first_advertising_channel')
                e = strip_casts(v.c[2])
                e_ok = e.k == 'BinaryOperator' and e.o == '+' and is_name(e.c[0], IDX) and cval(e.c[1]) == 1
                ok = c_ok and t_ok and e_ok
        chk.instance('fixed-map-cycle', fn, 'index = index == last ? first : index + 1', ok, '' if ok else 'fixed channel map does not cycle 37 -> 38 -> 39 -> 37', key='all_map next_channel')

    # --- perturbation
    AB = 'bluetoe::link_layer::details::advertiser_base::'
    P = 'adv_perturbation_'
    for fn, tgt, op, val, st in field_stores(facts, P, 'bluetoe::link_layer::details::advertiser_base'):
        if op == 'init':
            ok = cval(val) == 0 or (val.c and cval(val.c[0]) == 0)
            chk.instance('perturbation-range', fn, P + ' initialised', ok, '' if ok else 'initial perturbation outside 0..10', node=st, key='init')
            continue
        v = strip_casts(val) if val is not None else None
        ok = fn.name == 'next_adv_event' and op == '=' and v is not None and v.k == 'BinaryOperator' and v.o == '%'
        if ok:
            m = strip_casts(v.c[1])
            ok = (m.k == 'BinaryOperator' and m.o == '+' and is_name(m.c[0], 'max_adv_perturbation_') and cval(m.c[1]) == 1) or (m.v == 11)
            if ok and m.v is not None:
                ok = m.v == 11
        chk.instance('perturbation-range', fn, '%s %s %s' % (P, op, val.text() if val is not None else ''), ok, '' if ok else 'store is not a reduction modulo (max_adv_perturbation_ + 1): the delay can exceed 10 ms', node=st, key='store in ' + fn.name)
    for c in facts.cls('bluetoe::link_layer::details::advertiser_base'):
        st = {s['n']: s for s in c['statics']}
        if 'max_adv_perturbation_' in st:
            v = st['max_adv_perturbation_'].get('v')
            init = st['max_adv_perturbation_'].get('init')
            ok = v == 10 or (v is None and (init or '').strip() == '10')
            chk.obligation('perturbation-range', 'advertiser_base (%s)' % c['kind'], 'max_adv_perturbation_ == %s' % (v if v is not None else init), ok, '' if ok else 'advDelay must stay within 0..10 ms', key='max_adv_perturbation_')
    for fn in variants(facts, AB + 'next_adv_event', chk):
        rets = fn.returns()
        ok = len(rets) == 2
        why = 'expected two returns'
        for r in rets:
            v = ret_value(r)
            ats = guard_atoms(fn, r)
            first = [op for s, op, o in norm_atoms(ats, lambda n: n.is_call('first_channel_selected')) if cval(o) == 0]
            if v is not None and v.is_call('now'):
                ok = ok and '==' in first
                why = 'now() must be returned only when the first channel is not selected'
            else:
                has_int = v is not None and any(c.cn == 'current_advertising_interval' for c in v.calls())
                ms = [c for c in (v.calls('msec') if v is not None else [])]
                ok = ok and '!=' in first and has_int and len(ms) == 1 and is_name(ms[0].args()[0], P)
                why = 'interval return must be current_advertising_interval() + delta_time::msec(adv_perturbation_) under first_channel_selected()'
        chk.instance('perturbation-range', fn, 'next_adv_event returns', ok, '' if ok else why, key='next_adv_event')

    # an advertising event starts with the first enabled channel: that is what "first channel selected" has to say (the interval / perturbation is applied only there)
    for cls, first in (('variable_advertising_channel_map', 'first_channel_index'), ('all_advertising_channel_map', 'first_advertising_channel')):
        for fn in variants(facts, 'bluetoe::link_layer::%s::first_channel_selected' % cls, chk):
            rs = fn.returns()
            b = as_binop(ret_value(rs[0])) if len(rs) == 1 else None
            ok = b is not None and b[0] == '==' and any(is_name(x, 'current_channel_index_') for x in b[1:]) and any((strip_casts(x).is_call(first) and not strip_casts(x).args()) or strip_casts(x).n == first for x in b[1:])
            chk.instance('first-index-loop', fn, '%s::first_channel_selected() is current_channel_index_ == %s' % (cls, first), ok,
                         '' if ok else 'the start of an advertising event is not recognised by the first enabled channel: with a non contiguous map the event is split and the interval is inserted between its channels', key='selected ' + cls)
    # --- start / stop / count
    IMPL = 'bluetoe::link_layer::no_auto_start_advertising::impl::'
    for name in ('begin_of_advertising_events', 'continued_advertising_events'):
        for fn in variants(facts, IMPL + name, chk):
            ok = True
            why = ''
            decs = [(tgt, op, st) for tgt, op, val, st in stores(fn.body) if target_name(tgt) == 'count_']
            if len(decs) != 1 or decs[0][1] != '--':
                ok, why = False, 'count_ must be decremented exactly once per event'
            else:
                ats = guard_atoms(fn, decs[0][2])
                if not has_atom(ats, lambda n: is_name(n, 'count_'), {'!='}, lambda o: cval(o) == 0):
                    ok, why = False, 'decrement not guarded by count_ != 0 (unlimited advertising would underflow into a limit)'
            dis = [(val, st) for tgt, op, val, st in stores(fn.body) if target_name(tgt) == 'enabled_']
            if ok and not (len(dis) == 1 and cval(dis[0][0]) == 0 and has_atom(guard_atoms(fn, dis[0][1]), lambda n: is_name(n, 'count_'), {'=='}, lambda o: cval(o) == 0) and precedes(fn, decs[0][2], dis[0][1])):
                ok, why = False, 'advertising must be disabled exactly when the decremented count reaches zero'
            res = [d for d in fn.body.find(lambda n: n.k == 'VarDecl' and n.n == 'result')]
            if ok and not (res and res[0].c and mentions(res[0].c[0], 'enabled_') and all(is_name(ret_value(r), 'result') for r in fn.returns())):
                ok, why = False, 'the event must be permitted by the enabled_ state sampled before counting'
            chk.instance('start-stop-count', fn, name, ok, why, key=name)
    # the controls take effect whenever they are called: the new count replaces the old one, advertising is enabled, on every path
    for fn in variants(facts, IMPL + 'start_advertising', chk):
        st = [(target_name(tgt), op, val, s) for tgt, op, val, s in stores(fn.body) if target_name(tgt) in ('count_', 'enabled_')]
        cnt = [x for x in st if x[0] == 'count_']
        en = [x for x in st if x[0] == 'enabled_']
        want_cnt = (lambda v: is_name(v, fn.params[0]['n'])) if fn.params else (lambda v: cval(v) == 0)
        def always(s):
            return not fn.guards(s) and not fn.paths_avoiding([fn.entry], fn.exit, {fn.block_of(s)})
        ok = len(cnt) == 1 and cnt[0][1] == '=' and want_cnt(cnt[0][2]) and always(cnt[0][3]) and len(en) == 1 and cval(en[0][2]) == 1 and always(en[0][3])
        chk.instance('start-stop-count', fn, 'start_advertising(%s): count_ = %s and enabled_ = true on every path' % (', '.join(p['n'] for p in fn.params), 'count' if fn.params else '0 (unlimited)'), ok,
                     '' if ok else 'a start_advertising() call does not (always) replace the event count / enable advertising: a limit requested while advertising is running is ignored and the number of events is not bounded by it', key='start/%d' % len(fn.params))
    for name, fields in (('stop_advertising', ('enabled_',)), ('end_of_advertising_events', ('enabled_', 'started_'))):
        for fn in variants(facts, IMPL + name, chk):
            st = {target_name(tgt): cval(val) for tgt, op, val, s in stores(fn.body) if op == '='}
            ok = all(st.get(f) == 0 for f in fields)
            chk.instance('start-stop-count', fn, name + ' clears ' + '/'.join(fields), ok, '' if ok else 'advertising stays enabled after stop', key=name)
