"""C40 Cycling speed control point never deadlocks."""
from .lib.match import *
from .lib.paths import explore

SELECT = r'^bluetoe::csc::details::|^bluetoe::mixin_write_indication_control_point_handler::call_write_handler$'
UNITS = lambda u: u in ('w_inst_svc',) or u.startswith('t_services_cscs')
CP = 'bluetoe::csc::details::control_point_handler::'
FLAG = 'procedure_in_progress_'
META = {
    'level': 'path-sensitive typestate over csc_write_control_point: on every feasible path, a return whose ATT code is not success must not leave procedure_in_progress_ set by this call '
             '(otherwise every later procedure is refused for ever); "already in progress" is returned only under the flag; the response path clears the flag unconditionally and echoes the stored request opcode. '
             'Covers every opcode/length combination because every CFG path is enumerated; does not decide indication delivery.',
    'technique': 'static path-sensitive typestate over clang CFG facts',
}


HELPERS = {}


def helper_summary(facts, fn, name):
    """(flag effect, pair args) of a same-class helper that is a straight-line `flag = X; return make_pair(..)`"""
    key = (fn.cls, name, fn.kind)
    if key not in HELPERS:
        HELPERS[key] = None
        for g in facts.fns(fn.cls + '::' + name):
            if g.kind != fn.kind and not (g.kind in ('pattern', 'plain') and fn.kind in ('pattern', 'plain')):
                continue
            rets = g.returns()
            if len(rets) != 1 or g.body.find(lambda n: n.k in ('IfStmt', 'SwitchStmt', 'ForStmt', 'WhileStmt')):
                continue
            flag = None
            for tgt, op, val, st in stores(g.body):
                if target_name(tgt) == FLAG and op == '=':
                    flag = 'set' if cval(val) == 1 else 'clear'
            HELPERS[key] = (flag, pair_args(rets[0]))
            break
    return HELPERS[key]


def pair_args(ret):
    v = ret_value(ret)
    if v is None:
        return None
    c = v if v.is_call('make_pair') else next((x for x in v.walk() if x.is_call('make_pair')), None)
    if c is None or len(c.args()) != 2:
        return None
    return [strip_casts(a) for a in c.args()]


def is_success(n):
    return n.n == 'success' or (n.v == 0 and n.n is None)


def echoed(facts, f, depth=0):
    """constant values stored to out_buffer[1] by f, following one level of helper calls that get the opcode as an argument"""
    out = []
    buf = next((p['n'] for p in f.params if 'uint8_t *' in (p.get('t') or '') and 'const' not in (p.get('t') or '')), None)
    for tgt, op, val, st in stores(f.body):
        e = as_elem(tgt)
        if e is not None and buf and is_name(e[0], buf) and cval(e[1]) == 1:
            out.append(cval(val))
    if depth == 0:
        for c in f.body.find(lambda n: n.d.get('call')):
            nm = c.cn or (c.callee().n if c.callee() is not None and not isinstance(c.callee(), str) else None)
            if not nm or not buf or not any(is_name(a, buf) for a in c.args()):
                continue
            for h in [g for g in facts.functions if g.name == nm and g.cls == f.cls and g.kind in ('pattern', 'plain')][:1]:
                hb = next((p['n'] for i, p in enumerate(h.params) if i < len(c.args()) and is_name(c.args()[i], buf)), None)
                for tgt, op, val, st in stores(h.body):
                    e = as_elem(tgt)
                    if e is not None and hb and is_name(e[0], hb) and cval(e[1]) == 1:
                        v = strip_casts(val)
                        pi = next((i for i, p in enumerate(h.params) if p['n'] and v.n == p['n']), None)
                        out.append(cval(c.args()[pi]) if pi is not None and pi < len(c.args()) else cval(val))
    return out


def run(chk, facts, tier):
    chk.rule('no-stuck-flag', 'csc_write_control_point: no path returns an error code (first != success) with procedure_in_progress_ left set by this call', floor=1)
    chk.rule('busy-only-when-pending', 'procedure_already_in_progress is returned only on the procedure_in_progress_ == true edge, before the flag is set; every return that announces a response indication (success, true) leaves the flag set by this call', floor=2)
    chk.rule('response-clears-and-echoes', 'csc_read_control_point clears procedure_in_progress_ on every path and writes the request opcode (case constant / current_opcode_) into out_buffer[1]; '
             'csc_write_control_point stores current_opcode_ = *value before dispatch', floor=2)
    chk.rule('accepted-write-always-answered', 'mixin_write_indication_control_point_handler::call_write_handler (binds the control point handler to the ATT write) calls the handler only behind '
             'configured_for_indications(), returns the handler\'s own code on every path after the call and requests the indication exactly under the handler\'s second result: '
             'a handler call that set procedure_in_progress_ is always followed by the response indication that clears it', floor=1)
    for fn in variants(facts, 'bluetoe::mixin_write_indication_control_point_handler::call_write_handler', chk):
        hs = [c for c in fn.body.find(lambda n: n.d.get('call')) if c.callee() is not None and not isinstance(c.callee(), str) and c.callee().k == 'BinaryOperator' and c.callee().o in ('.*', '->*')]
        if not chk.require(len(hs) == 1, 'call_write_handler: expected exactly one call through the handler member pointer, found %d' % len(hs)):
            continue
        h = hs[0]
        res = [d.n for d in fn.body.find(lambda n: n.k == 'VarDecl' and n.c) if strip_casts(d.c[0]) is h]
        def is_res(n, member):
            n = strip_casts(n)
            if n is None or n.k not in ('MemberExpr', 'CXXDependentScopeMemberExpr') or n.n != member:
                return False
            b = strip_casts(base_object(n))
            return b is h or (b is not None and b.n in res)
        ats = guard_atoms(fn, h)
        def is_cfg(l):
            x = strip_casts(l)
            if x.is_call('configured_for_indications'):
                return True
            if x.k == 'DeclRefExpr' and x.d.get('local'):      # the result kept in a local that nothing else writes
                ds = [d for d in fn.body.find(lambda n: n.k == 'VarDecl' and n.n == x.n and n.c) if strip_casts(d.c[0]).is_call('configured_for_indications')]
                return len(ds) == 1 and not any(is_name(tgt, x.n) for tgt, op, val, st in stores(fn.body))
            return False
        cfg = any(((op == '!=' and (r == 0 or cval(r) == 0)) or (op == '==' and cval(r) == 1)) and not isinstance(l, int) and is_cfg(l) for l, op, r in ats)
        why = '' if cfg else 'the handler runs (and may mark a procedure as in progress) for a client that has not enabled indications: the write is then refused with "CCCD improperly configured", no response is ever indicated and the control point stays busy'
        after = [r for r in fn.returns() if precedes(fn, h, r) or fn.paths_avoiding([fn.block_of(h)], fn.block_of(r), set()) and fn.block_of(h) != fn.block_of(r)]
        okr = bool(after) and all(is_res(ret_value(r), 'first') for r in after)
        if cfg and not okr:
            why = 'a return after the handler call does not pass the handler\'s result code on'
        ind = fn.body.calls('indicate')
        def is_second(l):
            if is_res(l, 'second'):
                return True
            init = resolve_local(strip_casts(l))
            return init is not None and is_res(init, 'second')
        gi = guard_atoms(fn, ind[0]) if len(ind) == 1 else []
        oki = len(ind) == 1 and precedes(fn, h, ind[0]) and any(op == '!=' and (r == 0 or cval(r) == 0) and is_second(l) for l, op, r in gi if not isinstance(l, int)) \
            and all(any(same_expr(l, l2) and op == op2 for l2, op2, r2 in ats if not isinstance(l2, int)) or is_second(l) or is_res(l, 'second') for l, op, r in gi if not isinstance(l, int))
        if cfg and okr and not oki:
            why = 'the response indication is not requested exactly when the handler asks for it'
        ok = cfg and okr and oki
        chk.instance('accepted-write-always-answered', fn, 'handler call behind the CCCD test, result passed on, indicate() iff second', ok, why, node=h, key='binder')
    # the service hands the written octets to the control point handler as they are (it is the handler's current_opcode_ that the response echoes)
    for fn in [f for f in facts.functions if f.q == 'bluetoe::csc::details::implementation::csc_write_control_point' and f.kind in ('pattern', 'plain')][:1]:
        cs = fn.body.calls('csc_write_control_point')
        names = [p_['n'] for p_ in fn.params]
        ok = len(cs) >= 1 and all(len(c.args()) >= 2 and is_name(c.args()[0], names[0]) and is_name(c.args()[1], names[1]) for c in cs) and all(ret_value(r) is not None and ret_value(r).is_call('csc_write_control_point') for r in fn.returns())
        chk.instance('accepted-write-always-answered', fn, 'implementation::csc_write_control_point forwards (write_size, value) unchanged', ok,
                     '' if ok else 'the control point handler is given another request than the client wrote: the response carries another opcode than the request', key='forward')
    for fn in variants(facts, CP + 'csc_write_control_point', chk):
        def on_node(ts, node):
            flag, rets = ts
            for tgt, op, val, st in stores(node):
                if st is node and target_name(tgt) == FLAG and op == '=':
                    flag = 'set' if cval(val) == 1 else 'clear'
            if node.d.get('call') and node.cn and not node.args() and node.cn not in ('make_pair',):
                hs = helper_summary(facts, fn, node.cn)
                if hs is not None and hs[0] is not None:
                    flag = hs[0]
            if node.k == 'ReturnStmt':
                rets = rets + ((node.i, flag),)
            return (flag, rets)
        res = explore(fn, ('untouched', ()), on_node)
        per_ret = {}
        for (flag, rets), tr in res:
            for rid, fl in rets:
                per_ret.setdefault(rid, set()).add(fl)
        chk.require(bool(per_ret), 'no return statements reached in csc_write_control_point')
        for rid, flags in sorted(per_ret.items()):
            r = fn.nodes[rid]
            pa = pair_args(r)
            if pa is None and ret_value(r) is not None and ret_value(r).d.get('call') and not ret_value(r).args():
                hs = helper_summary(facts, fn, ret_value(r).cn)
                pa = hs[1] if hs is not None else None
            if pa is None:
                chk.instance('no-stuck-flag', fn, r.text()[:60], False, 'return value is not std::make_pair(code, indicate)', node=r, key='return@shape')
                continue
            code = pa[0]
            err = not is_success(code)
            ok = not (err and 'set' in flags)
            chk.instance('no-stuck-flag', fn, 'return (%s, %s) with flag %s' % (code.text(), pa[1].text(), '/'.join(sorted(flags))), ok,
                         '' if ok else 'the write is rejected with %s but procedure_in_progress_ stays set: every later control point write gets Procedure Already In Progress' % code.text(),
                         node=r, key='return %s guarded by %s' % (code.text(), '&'.join(sorted(a[0].text() + a[1] + (str(a[2]) if isinstance(a[2], int) else a[2].text()) for a in guard_atoms(fn, r)))[:120]))
            if not err and (cval(pa[1]) == 1 or pa[1].n == 'true'):
                ok3 = flags == {'set'}
                chk.instance('busy-only-when-pending', fn, 'return (success, indicate) with flag %s' % '/'.join(sorted(flags)), ok3,
                             '' if ok3 else 'a response indication is announced but procedure_in_progress_ is not (or no longer) set on this path: a second control point write is accepted before the response went out, its opcode overwrites the pending one and one procedure never gets its response',
                             node=r, key='pending %s' % '&'.join(sorted(a[0].text() + a[1] + (str(a[2]) if isinstance(a[2], int) else a[2].text()) for a in guard_atoms(fn, r)))[:100])
            if code.n == 'procedure_already_in_progress':
                ats = guard_atoms(fn, r)
                g = has_atom(ats, lambda n: is_name(n, FLAG), {'!='}, lambda o: cval(o) == 0)
                ok2 = g and flags == {'untouched'}
                chk.instance('busy-only-when-pending', fn, 'return procedure_already_in_progress', ok2, '' if ok2 else 'refusal not tied to a pending procedure', node=r, key='busy')
        st = [s for tgt, op, val, s in stores(fn.body) if target_name(tgt) == 'current_opcode_' and op == '=' and val is not None and strip_casts(val).k == 'UnaryOperator' and strip_casts(val).o == '*' and is_name(strip_casts(val).c[0], 'value')]
        sw = fn.body.find(lambda n: n.k == 'SwitchStmt')
        ok = len(st) == 1 and len(sw) == 1 and precedes(fn, st[0], sw[0].child('cond')) and is_name(sw[0].child('cond'), 'current_opcode_')
        ok = ok and has_atom(guard_atoms(fn, st[0]), lambda n: is_name(n, FLAG), {'=='}, lambda o: cval(o) == 0)
        chk.instance('response-clears-and-echoes', fn, 'current_opcode_ = *value after the busy test, before the switch', ok, '' if ok else 'the request opcode is not recorded for the response, or is overwritten by a request that is refused while a procedure is pending (the pending response then carries the wrong opcode)', key='store opcode')
    for fn in variants(facts, CP + 'csc_read_control_point', chk):
        def on_node(ts, node):
            for tgt, op, val, st in stores(node):
                if st is node and target_name(tgt) == FLAG and op == '=':
                    return 'clear' if cval(val) == 0 else 'set'
            return ts
        res = explore(fn, 'pending', on_node)
        bad = [tr for ts, tr in res if ts != 'clear']
        ok = bool(res) and not bad
        chk.instance('response-clears-and-echoes', fn, FLAG + ' = false on every path to the exit (%d paths)' % len(res), ok,
                     '' if ok else 'a path through the response leaves procedure_in_progress_ set (%s): every later control point write is refused with Procedure Already In Progress' %
                     ' ; '.join('line %d: (%s) is %s' % (l, t[:40], o) for l, t, o in (bad[0][-3:] if bad else [])), key='clear flag')
        for tgt, op, val, s in stores(fn.body):
            t = strip_casts(tgt)
            if t.k == 'ArraySubscriptExpr' and is_name(t.c[0], 'out_buffer') and cval(t.c[1]) == 1:
                g = [o for c, o in fn.guards(s) if isinstance(o, tuple)]
                v = strip_casts(val)
                if g and g[0][0] == 'case':
                    ok = v.v is not None and v.v == g[0][1]
                    what = 'case %s' % g[0][1]
                else:
                    ok = is_name(v, 'current_opcode_')
                    what = 'default'
                chk.instance('response-clears-and-echoes', fn, 'out_buffer[1] = %s in %s' % (v.text(), what), ok, '' if ok else 'response does not carry the request opcode', node=s, key='echo ' + what)
        # responses produced by the sensor location handlers the dispatcher delegates to: each echoes the opcode of the case it is called from
        for c in fn.body.find(lambda n: n.d.get('call')):
            g = [o for cnd, o in fn.guards(c) if isinstance(o, tuple) and o[0] == 'case']
            nm = c.cn or (c.callee().n if c.callee() is not None and not isinstance(c.callee(), str) else None)
            if not g or not nm or not nm.endswith('_response'):
                continue
            want = g[0][1]
            impls = [f for f in facts.functions if f.name == nm and f.q.startswith('bluetoe::csc::details::') and f.kind in ('pattern', 'plain')]
            chk.require(bool(impls), 'no implementation of %s found' % nm)
            seen = set()
            for f in impls:
                if (f.q, f.line) in seen:
                    continue
                seen.add((f.q, f.line))
                vals = echoed(facts, f)
                if not vals or any(v is None for v in vals):
                    chk.broke('%s::%s: the opcode stored to out_buffer[1] could not be determined (idiom not recognised)' % (f.cls.split('::')[-1], nm))
                    continue
                ok = all(v == want for v in vals)
                chk.instance('response-clears-and-echoes', f, '%s::%s echoes opcode %s (case %s)' % (f.cls.split('::')[-1], nm, vals, want), ok,
                             '' if ok else 'the response to request opcode %s carries opcode %s: the client cannot match it to its request' % (want, vals), key='echo %s::%s' % (f.cls.split('::')[-1], nm), exact=True)
