"""C27 Link control PDUs get the specified responses (dispatch table + timeout discipline)."""
import json, os
from .lib.match import *
from .lib.facts import VERIF

SELECT = r'^bluetoe::link_layer::(link_layer::(handle_ll_control_data|transmit_pending_control_pdus|timeout|end_event|remote_versions_request|phy_update_request)|details::link_layer_security_impl::impl::handle_encryption_pdus|details::phy_update_request_impl::handle_phy_request|details::desired_connection_parameters_base::parse_and_check_params)$'
UNITS = lambda u: u in ('w_inst_ll',) or u.startswith('t_link_layer_ll_control') or u.startswith('t_link_layer_ll_enc') or u.startswith('t_link_layer_ll_phy') or u.startswith('t_link_layer_ll_remote')
LL = 'bluetoe::link_layer::link_layer::'
META = {
    'level': 'dispatch-table extraction from the if/else decision lists of handle_ll_control_data, handle_encryption_pdus and handle_phy_request against the frozen specification table '
             '(spec/ll_control.json): for every opcode test the paired length, for every response the request that guards it, its opcode and its length field; unknown requests answered with '
             'LL_UNKNOWN_RSP echoing the opcode; responses/rejects/indications never answered (commit = false); a single version indication per connection; every peripheral-initiated procedure '
             'that expects an answer arms the 40 s procedure timeout and timeout expiry ends the connection with LL response timeout. Payload values (feature bits) are not decided.',
    'technique': 'static decision-table extraction + sibling-agreement rule over clang AST/CFG facts against a frozen specification table',
}


def opcode_size_atoms(ats):
    ops = [strip_casts(o).n for s, op, o in norm_atoms(ats, lambda n: is_name(n, 'opcode')) if op == '==' and not isinstance(o, int) and strip_casts(o).n]
    sizes = [cval(o) for s, op, o in norm_atoms(ats, lambda n: is_name(n, 'size')) if op == '==' and cval(o) is not None]
    return ops, sizes


def fills(fn):
    out = []
    for c in fn.body.calls('fill'):
        il = next((x for x in c.walk() if x.k == 'InitListExpr' or x.k == 'CXXStdInitializerListExpr'), None)
        if il is None:
            continue
        elems = il.c
        while len(elems) == 1 and elems[0].k in ('InitListExpr', 'CXXStdInitializerListExpr'):
            elems = elems[0].c
        if len(elems) >= 3:
            out.append((c, elems))
    return out


def run(chk, facts, tier):
    spec = json.load(open(os.path.join(VERIF, 'spec', 'll_control.json')))
    chk.rule('opcode-values', 'the LL_* opcode constants equal the specification', floor=20)
    chk.rule('request-lengths', 'every opcode test in the control PDU handlers is paired with the specified PDU length', floor=14)
    chk.rule('responses', 'every response written is the specified answer to the request guarding it, with the specified opcode and length field', floor=7)
    chk.rule('unknown-rsp', 'requests not handled are answered with LL_UNKNOWN_RSP (length 2) echoing the opcode, except LL_UNKNOWN_RSP itself', floor=1)
    chk.rule('never-answered', 'responses, rejects and instant-based indications are not answered: no fill() in their branch and commit = false', floor=6)
    chk.rule('version-once', 'LL_VERSION_IND is answered only while !version_indication_received_, which is set in that branch', floor=1)
    chk.rule('procedure-timeout-armed', 'each branch of transmit_pending_control_pdus that sends a request expecting an answer stores procedure_timeout_ = delta_time(default_procedure_timeout_us) (40 s)', floor=3)
    chk.rule('procedure-timeout-cleared-by-answer', 'in the LL_UNKNOWN_RSP / LL_REJECT_IND / LL_REJECT_EXT_IND branch procedure_timeout_ is cleared only under conditions that an answer naming an unrelated request refutes (three valued folding of the enclosing conditions with opcode_contains_request = true and body[1] = 0x14)', floor=2)
    chk.rule('procedure-timer-uses-elapsed-time', 'end_event compares and decrements procedure_timeout_ with the time since the last connection event (time_since_last_event()), which grows with peripheral latency and missed events - not with one connection interval', floor=1)
    for fn in variants(facts, LL + 'end_event', chk):
        decs = [(val, st) for tgt, op, val, st in stores(fn.body) if is_name(tgt, 'procedure_timeout_') and op == '-=']
        cmps = [b for n in deep_walk(fn.body) for b in [as_binop(n)] if b and b[0] in ('<=', '<', '>=', '>') and (is_name(b[1], 'procedure_timeout_') or is_name(b[2], 'procedure_timeout_'))]
        if not chk.require(len(decs) == 1 and cmps, 'end_event: decrement / comparison of procedure_timeout_ not found (idiom not recognised)'):
            continue
        elapsed = lambda x: any(c.cn == 'time_since_last_event' for c in deep_calls(x))
        other = [b[2] if is_name(b[1], 'procedure_timeout_') else b[1] for b in cmps]
        ok = elapsed(decs[0][0]) and all(elapsed(o) for o in other)
        chk.instance('procedure-timer-uses-elapsed-time', fn, 'procedure_timeout_ <= / -= time_since_last_event()', ok, '' if ok else 'the 40 s response timer is advanced by %s per handled connection event: with peripheral latency or missed events it runs slower than real time and an unanswered procedure keeps the link open' % decs[0][0].text()[:40], node=decs[0][1], key='end_event timer')
    chk.rule('procedure-timeout-ends-link', 'timeout() and end_event() call force_disconnect(connection_ll_response_timeout) exactly when the armed procedure timeout elapsed', floor=2)

    # opcode constants
    consts = {}
    for c in facts.cls('bluetoe::link_layer::link_layer'):
        for s in c['statics']:
            if s.get('v') is not None:
                consts.setdefault(s['n'], s['v'])
            elif s.get('init') and s['init'].strip().lower().startswith('0x'):
                consts.setdefault(s['n'], int(s['init'], 16))
    for name, v in spec['opcode'].items():
        if name in consts:
            chk.obligation('opcode-values', 'link_layer constants', '%s == 0x%02x' % (name, consts[name]), consts[name] == v, '' if consts[name] == v else 'specification says 0x%02x' % v, key=name)
    ptv = consts.get('default_procedure_timeout_us')
    # the 40 s response timeout is disarmed only by the answer to the own procedure
    from .lib.dlist import fold
    UNRELATED = 0x14   # LL_LENGTH_REQ: never initiated by this link layer
    for fn in [f for f in variants(facts, LL + 'handle_ll_control_data', chk) if f.kind == 'pattern']:
        n = 0
        for tgt, op, val, st in stores(fn.body):
            if not (is_name(tgt, 'procedure_timeout_') and op == '=' and val is not None and strip_casts(val).d.get('call') is not None and not strip_casts(val).args() and 'delta_time' in (strip_casts(val).t or strip_casts(val).text())):
                continue
            conds = must_hold(st)
            if not any(mentions(c, 'LL_UNKNOWN_RSP') or mentions(c, 'LL_REJECT_EXT_IND') for c, o in conds if o):
                continue   # clears in the branches of LL_VERSION_IND / LL_CONNECTION_UPDATE_IND: identified by their own opcode
            n += 1
            # a reject / unknown-response that names an unrelated request must not reach this store
            feasible = []
            for opc in ('LL_UNKNOWN_RSP', 'LL_REJECT_EXT_IND'):
                env = dict(consts)
                env.update({'opcode': consts.get(opc), 'opcode_contains_request': 1, 'body[1]': UNRELATED, 'size': 2 if opc == 'LL_UNKNOWN_RSP' else 3})
                ok_path = True
                for c, o in conds:
                    r = fold(c, env)
                    if r is not None and bool(r) != o:
                        ok_path = False
                        break
                if ok_path:
                    feasible.append(opc)
            chk.instance('procedure-timeout-cleared-by-answer', fn, 'procedure_timeout_ = delta_time() at line %d' % st.l, not feasible,
                         '' if not feasible else 'the response timeout is disarmed by an %s that names an unrelated request (e.g. opcode 0x%02x): a peripheral-initiated procedure that is never answered no longer ends the connection after 40 s' % ('/'.join(feasible), UNRELATED),
                         node=st, key='clear@%s' % ('reject branch %d' % n))
    chk.rule('param-request-accepted-range', 'parse_and_check_params (LL_CONNECTION_PARAM_REQ) accepts exactly the legal range: interval 5..3200 with min <= max and latency 0..499; everything inside gets the response, not a reject', floor=1)
    for fn in variants(facts, 'bluetoe::link_layer::details::desired_connection_parameters_base::parse_and_check_params', chk):
        acc = [r for r in fn.returns() if cval(ret_value(r)) == 1]
        ok, why = len(acc) == 1, 'expected one accepting return'
        if ok:
            ats = guard_atoms(fn, acc[0])
            fld = lambda name: (lambda n: strip_casts(n).k == 'MemberExpr' and strip_casts(n).n == name)
            lb_min, ub_max, ub_lat = lower_bound(ats, fld('min_interval')), upper_bound(ats, fld('max_interval')), upper_bound(ats, fld('latency'))
            ordered = any(not isinstance(l, int) and not isinstance(r, int) and ((strip_casts(l).n == 'max_interval' and strip_casts(r).n == 'min_interval' and op == '>=') or (strip_casts(l).n == 'min_interval' and strip_casts(r).n == 'max_interval' and op == '<=')) for l, op, r in ats)
            ok = (lb_min, ub_max, ub_lat) == (5, 3200, 499) and ordered
            why = 'accepted range is interval >= %s, <= %s, latency <= %s, min <= max: %s; the specification allows 5..3200 and latency up to 499 - a legal request is rejected (or an illegal one answered)' % (lb_min, ub_max, ub_lat, ordered)
        chk.instance('param-request-accepted-range', fn, 'accepts interval 5..3200, min <= max, latency <= 499', ok, '' if ok else why, key='range')
    handlers = []
    for q in (LL + 'handle_ll_control_data', 'bluetoe::link_layer::details::link_layer_security_impl::impl::handle_encryption_pdus', 'bluetoe::link_layer::details::phy_update_request_impl::handle_phy_request'):
        handlers += [f for f in variants(facts, q, chk)]
    for fn in handlers:
        # request lengths: every `opcode == X` atom inside a condition that also constrains size
        seen = set()
        for n in fn.body.walk():
            if n.k == 'BinaryOperator' and n.o == '&&':
                ats = atoms(n, True)
                ops, sizes = opcode_size_atoms(ats)
                for o in ops:
                    if o in spec['length'] and sizes and (o, n.l) not in seen:
                        seen.add((o, n.l))
                        ok = sizes[0] == spec['length'][o]
                        chk.instance('request-lengths', fn, '%s with size == %d' % (o, sizes[0]), ok, '' if ok else 'specified length is %d' % spec['length'][o], node=n, key='%s in %s' % (o, fn.name))
        for c, elems in fills(fn):
            if c.args() and not is_name(c.args()[0], ('write',)) and fn.name == 'handle_ll_control_data':
                continue
            rsp = strip_casts(elems[2])
            ln = cval(elems[1])
            ats = guard_atoms(fn, c)
            ops, sizes = opcode_size_atoms(ats)
            rn = rsp.n
            if rn == 'LL_UNKNOWN_RSP':
                ne = [strip_casts(o).n for s, op, o in norm_atoms(ats, lambda n: is_name(n, 'opcode')) if op == '!=' and not isinstance(o, int)]
                ok = ln == 2 and len(elems) == 4 and is_name(elems[3], 'opcode') and 'LL_UNKNOWN_RSP' in ne
                chk.instance('unknown-rsp', fn, 'fill(write, {.., 2, LL_UNKNOWN_RSP, opcode})', ok, '' if ok else 'LL_UNKNOWN_RSP must echo the unknown opcode and never answer an LL_UNKNOWN_RSP', node=c, key='unknown')
                continue
            if rn in ('LL_REJECT_IND', 'LL_REJECT_EXT_IND'):
                continue
            req = ops[0] if ops else None
            ok = req is not None and spec['response'].get(req) == rn and ln == spec['length'].get(rn)
            if ok:
                # the request must be answered whenever opcode and length match: no further condition except the frozen ones
                ALLOWED = {'LL_VERSION_IND': {'version_indication_received_'}, 'LL_START_ENC_RSP': {'start_encryption_requested_'}}
                for i, br in enclosing_ifs(c):
                    cond = i.child('cond')
                    if mentions(cond, req):
                        extra = {x.n for x in cond.walk() if x.k in REF_KINDS and x.n and x.n not in ('opcode', 'size', req) and not x.n.startswith('LL_') and x.n not in ('LinkLayer', 'LL')}
                        extra -= ALLOWED.get(req, set())
                        if extra:
                            ok = False
                            rn = rn + ' only if ' + ', '.join(sorted(extra))
                # ... in whatever form it is written (an early return in front of the answer is a further condition too)
                if ok:
                    more = set()
                    for l, op, r in ats:
                        if isinstance(l, int):
                            continue
                        names = {x.n for x in l.walk() if x.k in REF_KINDS and x.n} | ({x.n for x in r.walk() if x.k in REF_KINDS and x.n} if not isinstance(r, int) else set())
                        names = {n for n in names if n not in ('opcode', 'size', req, 'LinkLayer', 'LL', 'link_layer', 'header', 'll_control_pdu_code') and not n.startswith('LL_')} - ALLOWED.get(req, set())
                        more |= names
                    if more:
                        ok = False
                        rn = rn + ' only if ' + ', '.join(sorted(more))
            chk.instance('responses', fn, '%s -> %s (length field %s)' % (req, rn, ln), ok, '' if ok else 'specification: %s is answered by %s with length %s' % (req, spec['response'].get(req), spec['length'].get(spec['response'].get(req, ''), '?')), node=c, key='%s->%s' % (req, rn))
    # never answered
    for fn in handlers:
        for name in spec['never_answered']:
            sites = [n for n in fn.body.walk() if n.k == 'BinaryOperator' and n.o == '==' and is_name(n.c[0], 'opcode') and is_name(n.c[1], name) and n.parent is not None and n.parent.k == 'BinaryOperator' and n.parent.o == '&&']
            if not sites:
                continue
            # the branch guarded by this test
            ifs = [a for a in sites[0].ancestors() if a.k == 'IfStmt']
            if not ifs:
                continue
            then = ifs[0].child('then')
            has_fill = any(c.args() and is_name(c.args()[0], 'write') for c in then.calls('fill')) if then is not None else False
            cf = [cval(val) for tgt, op, val, st in stores(then) if is_name(tgt, 'commit')] if then is not None else []
            delegated = any(is_name(val, None) is False and val is not None and strip_casts(val).d.get('call') for tgt, op, val, st in stores(then) if is_name(tgt, 'commit')) if then is not None else False
            ok = (not has_fill) and (0 in cf)
            chk.instance('never-answered', fn, '%s: fill=%s commit=false:%s' % (name, has_fill, 0 in cf), ok, '' if ok else '%s must not be answered' % name, node=sites[0], key=name)
    # version once
    for fn in facts.fns(LL + 'handle_ll_control_data'):
        for c, elems in fills(fn):
            if strip_casts(elems[2]).n == 'LL_VERSION_IND':
                ats = guard_atoms(fn, c)
                g = has_atom(ats, lambda n: is_name(n, 'version_indication_received_'), {'=='}, lambda o: cval(o) == 0)
                st = [s for tgt, op, val, s in stores(fn.body) if is_name(tgt, 'version_indication_received_') and cval(val) == 1 and fn.block_of(s) == fn.block_of(c)]
                ok = g and len(st) == 1
                chk.instance('version-once', fn, 'LL_VERSION_IND answered under !version_indication_received_', ok, '' if ok else 'a second LL_VERSION_IND would be answered again', node=c, key='version')
    # procedure timeout armed
    for fn in variants(facts, LL + 'transmit_pending_control_pdus', chk):
        for c, elems in fills(fn):
            rn = strip_casts(elems[2]).n
            if rn in spec['peripheral_initiated_expecting_answer']:
                st = [(val, s) for tgt, op, val, s in stores(fn.body) if is_name(tgt, 'procedure_timeout_') and fn.block_of(s) == fn.block_of(c)]
                ok = len(st) == 1 and st[0][0] is not None and mentions(st[0][0], 'default_procedure_timeout_us')
                chk.instance('procedure-timeout-armed', fn, 'sending %s arms procedure_timeout_' % rn, ok,
                             '' if ok else 'the peripheral-initiated %s procedure is started without the 40 s response timeout: an unanswered request never ends the connection' % rn, node=c, key='arm ' + rn)
        chk.obligation('procedure-timeout-armed', 'link_layer constants', 'default_procedure_timeout_us == %s' % ptv, ptv == spec['procedure_timeout_us'] or ptv is None and any('40 * 1000 * 1000' in (s.get('init') or '') for c in facts.cls('bluetoe::link_layer::link_layer') for s in c['statics'] if s['n'] == 'default_procedure_timeout_us'), 'must be 40 s', key='40s')
    for name in ('timeout', 'end_event'):
        for fn in variants(facts, LL + name, chk):
            fd = [c for c in fn.body.calls('force_disconnect') if c.args() and strip_casts(c.args()[0]).n == 'connection_ll_response_timeout']
            ok = len(fd) == 1
            if ok:
                ats = guard_atoms(fn, fd[0])
                z = any(op == '==' and cval(r) == 0 and not isinstance(l, int) and strip_casts(l).is_call('zero') and is_name(base_object(strip_casts(l)), 'procedure_timeout_') for l, op, r in ats)
                le = any(op == '<=' and is_name(l, 'procedure_timeout_') for l, op, r in ats if not isinstance(r, int)) or any(op == '!=' and cval(r) == 0 and is_name(l, 'procedure_timed_out') for l, op, r in ats)
                if any(is_name(l, 'procedure_timed_out') for l, op, r in ats):
                    init = local_init(fn, 'procedure_timed_out')
                    z = le = init is not None and mentions(init, 'procedure_timeout_') and any(c.cn == 'zero' for c in init.calls())
                ok = z and le
            chk.instance('procedure-timeout-ends-link', fn, name + ': force_disconnect(connection_ll_response_timeout)', ok, '' if ok else 'LL response timeout not enforced (or enforced without an armed timeout)', key=name)
