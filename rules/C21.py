"""C21 Instant-based procedures apply at their instant or end the link (structure)."""
from .lib.match import *

SELECT = r'^bluetoe::link_layer::link_layer::(try_event_cancelation|defer_ll_control_pdu|handle_ll_control_data|handle_pending_ll_control|handle_received_data|end_event|timeout|start_advertising_impl)$|^bluetoe::link_layer::details::phy_update_request_impl::|^bluetoe::link_layer::details::connection_state_base::plan_next_connection_event$'
UNITS = lambda u: u in ('w_inst_ll',) or u.startswith('t_link_layer_ll_control') or u.startswith('t_link_layer_ll_phy')
ALSO = [('C23', ('latency-bounded',))]   # the clamp of the skip count to the pending instant is decided by C23's rule: run here as well
LL = 'bluetoe::link_layer::link_layer::'
PH = 'bluetoe::link_layer::details::phy_update_request_impl::'
META = {
    'level': 'sibling agreement over the three instant-based procedures (connection update, channel map, PHY update): each store that defers the PDU is control dependent on an instant-not-passed test '
             'over the instant read from the PDU and connection_event_counter(), the other edge sets reason `instant passed` and disconnects; the deferred PDU must not point into a receive buffer slot that is '
             'released while the procedure is pending; the pending procedure is applied and cleared exactly on defered_conn_event_counter_ == instance; received data handling resumes when nothing is deferred; '
             'the latency planner clamps to the distance to the pending instant (checked under C23). Timing of events is not decided.',
    'technique': 'static sibling-agreement / guarded-by / escape rules over clang AST/CFG facts',
}
INSTANT = {'LL_CONNECTION_UPDATE_IND': 'handle_ll_control_data', 'LL_CHANNEL_MAP_REQ': 'handle_ll_control_data', 'LL_PHY_UPDATE_IND': 'handle_phy_request'}


def deferral_stores(fn):
    """sites that defer the received PDU: direct stores `defered_ll_control_pdu_ = pdu` and calls of the copying helper defer_ll_control_pdu(pdu)"""
    out = [(tgt, val, st) for tgt, op, val, st in stores(fn.body) if target_name(tgt) == 'defered_ll_control_pdu_' and op == '=' and val is not None and is_name(val, 'pdu')]
    out += [(None, c.args()[0], c) for c in fn.body.calls('defer_ll_control_pdu') if c.args() and is_name(c.args()[0], 'pdu')]
    return out


def run(chk, facts, tier):
    chk.rule('defer-only-if-instant-ahead', 'every store defered_ll_control_pdu_ = pdu is control dependent on a test that the instant (defered_conn_event_counter_) has not passed relative to connection_event_counter(); '
             'the failing edge disconnects with connection_instant_passed', floor=3)
    chk.rule('deferred-pdu-not-released', 'the receive buffer slot of a deferred PDU is not freed while the pointer is kept (or the parameters are copied)', floor=1)
    chk.rule('apply-at-instant', 'handle_pending_ll_control applies and clears the deferred PDU exactly under !empty && defered_conn_event_counter_ == instance', floor=1)
    chk.rule('no-pullback-while-update-applied', 'try_event_cancelation (pulls a planned, skipped-to connection event back when data becomes pending) reschedules only in state connected / connecting: '
             'in connection_changed the planned event is the instant event and already carries the new parameters, moving it applies the update before its instant', floor=1)
    states = facts.enum('bluetoe::link_layer::link_layer::state')
    chk.require(bool(states), 'enum link_layer::state not found')
    for fn in variants(facts, LL + 'try_event_cancelation', chk):
        if not states:
            break
        cs = fn.body.calls('reschedule_on_pending_data') + fn.body.calls('setup_next_connection_event')
        chk.require(len(cs) >= 2, 'try_event_cancelation: reschedule_on_pending_data / setup_next_connection_event not found')
        bad = None
        allowed = set()
        for c in cs:
            f = set(feasible_values(must_hold(c), 'state_', states))
            allowed |= f
            if not f <= {'connected', 'connecting'}:
                bad = (c, sorted(f - {'connected', 'connecting'}))
        chk.instance('no-pullback-while-update-applied', fn, 'planned event moved only in states %s' % sorted(allowed), bad is None,
                     '' if bad is None else '%s() is reachable in state %s: the planned event of a pending instant / changed connection is pulled back, the new parameters take effect before the instant' % (bad[0].cn, '/'.join(bad[1])),
                     node=bad[0] if bad else None, key='try_event_cancelation')
    chk.rule('pending-instant-fresh', 'end_event hands plan_next_connection_event a pending instant that is computed after handle_received_data() (which may defer a procedure in this very event)', floor=1)
    chk.rule('resume-after-instant', 'handle_received_data stops only while a PDU is deferred, tests the deferral again for every PDU of its loop, and start_advertising_impl / apply clear the deferral', floor=4)
    seen = set()
    for q in (LL + 'handle_ll_control_data', PH + 'handle_phy_request'):
        for fn in variants(facts, q, chk):
            for tgt, val, st in deferral_stores(fn):
                ats = guard_atoms(fn, st)
                ops = [strip_casts(o).n for s, op, o in norm_atoms(ats, lambda n: is_name(n, 'opcode')) if op == '==' and not isinstance(o, int)]
                op = ops[0] if ops else '?'
                seen.add(op)
                conds = [c for c, o in fn.guards(st)]
                inst = [c for c in conds if mentions(c, 'defered_conn_event_counter_') and deep_calls(c, 'connection_event_counter')]
                ok = bool(inst)
                why = 'the PDU is deferred without testing whether its instant already passed: a past instant blocks received data for up to 65536 events instead of terminating the link'
                if ok:
                    # the other edge must disconnect with instant passed
                    ifs = [i for i, br in enclosing_ifs(st)]
                    other = None
                    for i, br in enclosing_ifs(st):
                        if mentions(i.child('cond'), 'defered_conn_event_counter_'):
                            other = i.child('then' if br == 'else' else 'else')
                    ok = other is not None and any(strip_casts(v).n == 'connection_instant_passed' for t2, o2, v, s2 in stores(other) if v is not None) and \
                        any(strip_casts(v).n == 'disconnect' for t2, o2, v, s2 in stores(other) if v is not None)
                    why = 'instant-passed edge does not terminate the connection with reason `instant passed`'
                if ok:
                    # both counters wrap at 2^16: the test has to be made on the 16 bit difference, a direct ordering comparison of the two is wrong around the wrap
                    for c in inst:
                        for x in deep_walk(c):
                            b = as_binop(x)
                            if b and b[0] in ('<', '>', '<=', '>='):
                                sides = [deep(b[1]), deep(b[2])]
                                if any(is_name(y, 'defered_conn_event_counter_') for y in sides) and any(y is not None and not isinstance(y, int) and y.is_call('connection_event_counter') for y in sides):
                                    ok = False
                                    why = ('the instant is compared with the connection event counter by `%s`: both are 16 bit counters that wrap, an instant behind the wrap (counter 65500, instant 100) is taken for passed and the link is terminated; '
                                           'the test has to be made on the 16 bit difference (sign bit)' % x.text()[:60])
                if ok:
                    # which event the instant is measured from (frozen per procedure from the tree as confirmed: the connection update is compared with the NEXT event, because its
                    # transmit window is applied one event before the instant; channel map and PHY update with the event the PDU was received in)
                    REF = {'LL_CONNECTION_UPDATE_IND': 1, 'LL_CHANNEL_MAP_IND': 0, 'LL_PHY_UPDATE_IND': 0}
                    def flat(n, sign=1):
                        # (coefficient of the instant, coefficient of connection_event_counter(), constant) of a +/- expression
                        n = deep(n)
                        if n is None:
                            return None
                        if isinstance(n, int) or cval(n) is not None:
                            return (0, 0, sign * (n if isinstance(n, int) else cval(n)))
                        if is_name(n, 'defered_conn_event_counter_'):
                            return (sign, 0, 0)
                        if n.is_call('connection_event_counter'):
                            return (0, sign, 0)
                        bb = as_binop(n)
                        if bb and bb[0] in ('+', '-'):
                            l, r = flat(bb[1], sign), flat(bb[2], sign if bb[0] == '+' else -sign)
                            if l is None or r is None:
                                return None
                            return (l[0] + r[0], l[1] + r[1], l[2] + r[2])
                        return None
                    ks = set()
                    for c in inst:
                        for x in deep_walk(c):
                            bb = as_binop(x)
                            if bb and bb[0] == '&' and cval(bb[2]) == 0x8000:
                                f = flat(bb[1])
                                ks.add(f[2] if f is not None and f[0] == 1 and f[1] == -1 else '?')
                    if op in REF and ks and ks != {REF[op]}:
                        if '?' in ks:
                            chk.broke('%s: the reference event of the instant test could not be determined (idiom not recognised)' % op)
                        else:
                            ok = False
                            why = 'the instant test of %s is (instant - connEventCount + %s) instead of + %d: an instant that is still ahead (the very next event) is taken for passed and the link is terminated, or a passed one is waited for' % (op, sorted(ks), REF[op])
                chk.instance('defer-only-if-instant-ahead', fn, '%s: PDU deferred' % op, ok, '' if ok else why, node=st, key=op)
    for op in INSTANT:
        chk.require(op in seen or tier == 'quick' and False, 'no deferral store found for %s' % op)
    # escape: pointer kept, slot released
    for fn in variants(facts, LL + 'handle_received_data', chk):
        hc = fn.body.calls('handle_ll_control_data')
        fr = [c for c in fn.body.calls('free_ll_l2cap_received') if hc and fn.block_of(c) == fn.block_of(hc[0])]
        ok = len(hc) == 1
        if ok and fr:
            # freed in the same block right after the handler: acceptable only if guarded by "nothing deferred"
            ats = guard_atoms(fn, fr[0])
            g = any(not isinstance(l, int) and strip_casts(l).is_call('empty') and is_name(base_object(strip_casts(l)), 'defered_ll_control_pdu_') and ((op == '!=' and cval(r) == 0)) for l, op, r in ats)
            ok = False if not g else True
            # guards dominating the whole block do not help: the deferral happens inside the handler call just before
            ok = False
        elif ok:
            frs = fn.body.calls('free_ll_l2cap_received')
            ok = any(any(not isinstance(l, int) and strip_casts(l).is_call('empty') and is_name(base_object(strip_casts(l)), 'defered_ll_control_pdu_') for l, op, r in guard_atoms(fn, c)) for c in frs if c.l > hc[0].l and c.l < hc[0].l + 8)
        # repaired form: the deferral copies the PDU into an own buffer (helper defer_ll_control_pdu) and no raw ring pointer is stored any more
        helper = facts.fns(LL + 'defer_ll_control_pdu')
        copies = bool(helper)
        for h in helper:
            cp = h.body.calls('copy')
            st = [val for tgt, op, val, s2 in stores(h.body) if target_name(tgt) == 'defered_ll_control_pdu_']
            copies = copies and len(cp) == 1 and mentions(cp[0].args()[-1], 'defered_ll_control_pdu_buffer_') and len(st) == 1 and mentions(st[0], 'defered_ll_control_pdu_buffer_') \
                and 'min' in [c.cn for c in h.body.calls()] and mentions(h.body, 'sizeof') or (copies and any(n.k == 'UnaryExprOrTypeTraitExpr' for n in h.body.walk()) and len(cp) == 1 and len(st) == 1 and mentions(st[0], 'defered_ll_control_pdu_buffer_'))
        raw = [1 for q in (LL + 'handle_ll_control_data', PH + 'handle_phy_request') for f2 in facts.fns(q) for tgt, op, val, s2 in stores(f2.body) if target_name(tgt) == 'defered_ll_control_pdu_' and val is not None and is_name(val, 'pdu')]
        copies = copies and not raw
        ok = ok or copies
        chk.instance('deferred-pdu-not-released', fn, 'handle_ll_control_data(pdu, ..); free_ll_l2cap_received()', ok,
                     '' if ok else 'the control PDU\'s ring slot is released unconditionally after handle_ll_control_data() stored a pointer to it in defered_ll_control_pdu_: PDUs received before the instant can overwrite the parameters that will be applied', node=hc[0] if hc else None, key='free after defer')
        # nothing is processed behind a PDU that waits for its instant: the test is repeated for every PDU of the loop (a control PDU handled in this very call may just have been deferred)
        def is_empty_test(l, op, rr):
            return not isinstance(l, int) and strip_casts(l).is_call('empty') and is_name(base_object(strip_casts(l)), 'defered_ll_control_pdu_') and op == '!=' and (rr == 0 or cval(rr) == 0)
        for c in fn.body.calls('handle_ll_control_data') + fn.body.calls('handle_l2cap_input'):
            loops = []
            n = c.parent
            while n is not None:
                if n.k in ('ForStmt', 'WhileStmt'):
                    loops.append(n)
                n = n.parent
            per_iter = []
            if loops:
                per_iter += atoms(loops[0].child('cond'), True)
                for i, br in enclosing_ifs(c):
                    x, inside = i, False
                    while x is not None:
                        if x is loops[0]:
                            inside = True
                        x = x.parent
                    if inside:
                        per_iter += atoms(i.child('cond'), br == 'then')
            okp = bool(loops) and any(is_empty_test(l, op, rr) for l, op, rr in per_iter)
            chk.instance('resume-after-instant', fn, '%s() only while no PDU is deferred (tested for every PDU)' % c.cn, okp,
                         '' if okp else 'PDUs behind a control PDU that was just deferred to its instant are processed in the same call: a second procedure replaces the deferred one (its instant is then never applied) or data overtakes the update', node=c, key='per pdu ' + str(c.cn))
        ent = [r for r in fn.returns() if any(not isinstance(l, int) and strip_casts(l).is_call('empty') and op == '==' and cval(rr) == 0 for l, op, rr in guard_atoms(fn, r))]
        chk.instance('resume-after-instant', fn, 'early return only while a PDU is deferred', len(ent) == 1, '' if len(ent) == 1 else 'reception is blocked for another reason than a pending instant', key='block')
    for fn in variants(facts, LL + 'handle_pending_ll_control', chk):
        clr = [st for tgt, op, val, st in stores(fn.body) if target_name(tgt) == 'defered_ll_control_pdu_']
        ok = len(clr) == 1
        if ok:
            ats = guard_atoms(fn, clr[0])
            eq = any(op == '==' and is_name(l, 'defered_conn_event_counter_') and not isinstance(r, int) and is_name(r, fn.params[0]['n']) for l, op, r in ats)
            ne = any(not isinstance(l, int) and strip_casts(l).is_call('empty') and op == '==' and cval(r) == 0 for l, op, r in ats)
            app = [c for c in fn.body.calls() if c.cn in ('reset', 'parse_timing_parameters_from_connection_update_request', 'handle_pending_phy_request')]
            ok = eq and ne and len(app) == 3 and all(fn.dominates(fn.block_of(clr[0]), fn.block_of(clr[0])) for a in app)
        chk.instance('apply-at-instant', fn, 'apply + clear under !empty && instant == event counter', ok, '' if ok else 'the deferred procedure is not applied/cleared exactly at its instant', key='apply')
    for fn in variants(facts, LL + 'end_event', chk):
        plan = fn.body.calls('plan_next_connection_event')
        hr = fn.body.calls('handle_received_data')
        ok = len(plan) == 1 and len(hr) == 1
        if ok:
            arg = strip_casts(plan[0].args()[-1])
            src = arg
            if arg.k in REF_KINDS:
                ds = fn.body.find(lambda n: n.k == 'VarDecl' and n.n == arg.n)
                src = ds[0] if ds else None
            ok = src is not None and mentions(src, 'defered_ll_control_pdu_') and mentions(src, 'defered_conn_event_counter_')
            if ok:
                first = next((x for x in src.walk() if x.i >= 0), None)
                ok = first is not None and precedes(fn, hr[0], first)
        chk.instance('pending-instant-fresh', fn, 'pending instant sampled after handle_received_data()', ok,
                     '' if ok else 'the latency planner sees the deferral state from before this event\'s PDUs were handled: an instant announced in this event can be skipped by peripheral latency', key='pending instant')
    for fn in variants(facts, LL + 'start_advertising_impl', chk):
        clr = [st for tgt, op, val, st in stores(fn.body) if target_name(tgt) == 'defered_ll_control_pdu_']
        chk.instance('resume-after-instant', fn, 'disconnect clears the deferral', len(clr) == 1, '' if clr else 'a deferred PDU survives the connection', key='clear on adv')
