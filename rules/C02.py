"""C02 Discovery returns exactly the in-range matching attributes (structure)."""
from .lib.match import *

SELECT = (r'^bluetoe::server::(handle_find_information_request|handle_read_by_type_request|handle_read_by_group_type_request|handle_find_by_type_value_request|all_attributes|all_services_by_group|'
          r'last_handle_index|collect_handle_uuid_tuples|check_size_and_handle_range)$|^bluetoe::details::(collect_primary_services|services_by_group|collect_attributes|uuid_filter|value_filter)::'
          r'|^bluetoe::details::uuid_filter::|^bluetoe::details::attribute_access_arguments::|^bluetoe::details::generate_attribute::(access|char_declaration_access)$|characteristic_value_access$|^bluetoe::details::attribute_value_read\w*$')
UNITS = lambda u: u in ('w_inst_att',) or u.startswith('t_att_find') or u.startswith('t_att_read_by') or u.startswith('t_filter')
SV = 'bluetoe::server::'
ALSO = [('C04', ('inverse-mapping-agrees',))]   # clauses of this property that another module's rules decide: run here as well
META = {
    'level': 'structural necessary conditions of range filtering over the handle/index mapping: (1) every place that turns an *ending handle* into an attribute index steps back when the mapped index '
             'belongs to a larger handle and cannot wrap at index 0, or compares handles instead; (2) handles and attribute indices are never mixed in stores, initialisers and comparisons except through '
             'handle_index_mapping (dimension typing by the repository\'s naming and mapping API); (3) iteration is ascending from first_index_by_handle(start) to the mapped end and bounded by the output '
             'buffer; (4) protocol-value agreement: every attribute_access_type a caller constructs is handled by an access function and every result a caller tests for is produced by one '
             '(otherwise a type match can never be reported). Exactly-once enumeration over repeated requests and MTU truncation are not decided.',
    'technique': 'static sibling-agreement / dimension-typing / producer-consumer agreement rules over clang AST/CFG facts',
}


def dim(n):
    """'H' (attribute handle), 'I' (attribute index) or None"""
    n = strip_casts(n)
    if n is None or isinstance(n, int):
        return None
    if n.d.get('call'):
        if n.cn in ('first_index_by_handle', 'index_by_handle', 'last_handle_index'):
            return 'I'
        if n.cn in ('handle_by_index', 'read_handle'):
            return 'H'
        return None
    if n.k in REF_KINDS and n.n:
        nm = n.n.lower()
        if 'handle' in nm and 'index' not in nm:
            return 'H'
        if 'index' in nm and 'handle' not in nm:
            return 'I'
        if nm.startswith('number_of_') and 'attribute' in nm:      # a count of attributes bounds indices, never handles (fixed handles leave gaps)
            return 'I'
    b = as_binop(n)
    if b and b[0] in ('+', '-'):
        d1, d2 = dim(b[1]), dim(b[2])
        return d1 or d2
    return None


def run(chk, facts, tier):
    chk.rule('pair-length-from-first-readable', 'Read By Type (collect_attributes): the common length of the handle-value pairs (size_, first_) is taken from the first attribute whose read SUCCEEDED: '
             'an unreadable first match neither fixes the length nor ends the search - "Attribute Not Found" only if no readable match exists', floor=1)
    for fn in variants(facts, 'bluetoe::details::collect_attributes::operator()', chk):
        sts = [(target_name(tgt), st) for tgt, op, val, st in stores(fn.body) if target_name(tgt) in ('size_', 'first_')]
        def succ(st):
            return any(op == '==' and not isinstance(l, int) and not isinstance(r, int) and 'success' in (strip_casts(l).n, strip_casts(r).n) for l, op, r in guard_atoms(fn, st))
        ok = len(sts) >= 2 and all(succ(st) for n, st in sts)
        chk.instance('pair-length-from-first-readable', fn, 'size_ / first_ written only behind rc == success (%d stores)' % len(sts), ok,
                     '' if ok else 'the pair length is fixed by an attribute that could not be read (write-only, encryption missing): every readable match behind it is skipped and the request ends in Attribute Not Found', key='bookkeeping')
    chk.rule('last-index-sentinel-checked', 'a local holding last_handle_index(<ending handle>) (invalid_attribute_index = "every attribute lies behind the range") is used as the upper bound of a range only '
             'where a dominating test excluded the sentinel', floor=1)
    for fn in facts.functions:
        if fn.kind != 'pattern' or not fn.q.startswith('bluetoe::server::'):
            continue
        for d in fn.body.find(lambda n: n.k == 'VarDecl' and n.c and strip_casts(n.c[0]).is_call('last_handle_index')):
            L = d.n
            uses = []
            for n in fn.body.walk():
                b = as_binop(n)
                if b and b[0] in ('<', '<=', '>', '>=') and (is_name(b[1], L) or is_name(b[2], L)):
                    uses.append(n)
            bad = [u for u in uses if not any(((is_name(l, L) and not isinstance(r, int) and strip_casts(r).n == 'invalid_attribute_index') or (not isinstance(r, int) and is_name(r, L) and not isinstance(l, int) and strip_casts(l).n == 'invalid_attribute_index')) and op == '!='
                                              for l, op, r in guard_atoms(fn, u) + [a for c, o in must_hold(u) for a in atoms(c, o)])]
            chk.instance('last-index-sentinel-checked', fn, '%s = last_handle_index(..) in %s: %d range comparison(s)' % (L, fn.name, len(uses)), bool(uses) and not bad,
                         '' if uses and not bad else ('the sentinel invalid_attribute_index (all attributes lie behind the requested range) is compared as if it were an index at line %d: it is the largest value, so the range is unbounded and attributes outside the requested handles are returned' % bad[0].l if bad else 'the result is never used as a bound'),
                         node=bad[0] if bad else d, key='%s in %s' % (L, fn.name))
    chk.rule('end-handle-mapping', 'every first_index_by_handle(<ending handle>) is followed by a step back under handle_by_index(idx) != ending_handle that cannot wrap at idx == 0 (or handles are compared directly)', floor=3)
    chk.rule('no-handle-index-mix', 'attribute handles and attribute indices are not mixed in stores, member initialisers and comparisons of the discovery code', floor=20)
    chk.rule('ascending-bounded-iteration', 'all_attributes / collect_handle_uuid_tuples iterate ascending from the mapped start to the mapped end, the tuple loop also bounded by number_of_attributes and the remaining output', floor=2)
    chk.rule('access-type-agreement', 'every attribute_access_type constructed by a factory is tested by some access function, and every attribute_access_result a caller compares against is returned by some access function', floor=4)

    chk.rule('uuid16-representation', 'uuid_filter treats a 128 bit UUID as a 16 bit one only if all 14 bytes outside the 16 bit field equal the Bluetooth base UUID (bytes 0..11 compared, bytes 14 and 15 zero) and then reads the 16 bit value at offset 12', floor=1)
    for fn in variants(facts, 'bluetoe::details::uuid_filter::representable_as_16bit_uuid', chk):
        rets = fn.returns()
        covered = set()
        if len(rets) == 1:
            for l, op, r in atoms(ret_value(rets[0]), True):
                x = strip_casts(l) if not isinstance(l, int) else None
                if x is not None and x.is_call('equal') and len(x.args()) == 3:
                    a1 = as_binop(x.args()[1])
                    if any(y.d.get('q') == 'bluetoe::details::uuid::bytes' for y in x.args()[0].walk()) and any(y.d.get('q') == 'bluetoe::details::uuid::bytes' for y in x.args()[1].walk()) and a1 and a1[0] == '-' and cval(a1[2]) is not None and is_name(x.args()[2], fn.params[0]['n']):
                        covered |= set(range(0, 16 - cval(a1[2])))
                if op == '==' and cval(r) == 0 and x is not None and x.k == 'ArraySubscriptExpr' and is_name(x.c[0], fn.params[0]['n']) and cval(x.c[1]) is not None:
                    covered.add(cval(x.c[1]))
        ok = covered == set(range(16)) - {12, 13}
        chk.instance('uuid16-representation', fn, 'bytes compared with the base UUID: %s' % sorted(covered), ok,
                     '' if ok else 'byte(s) %s of a 128 bit UUID are ignored: a 128 bit type that only shares its lower part with the base UUID matches a 16 bit attribute type' % sorted(set(range(16)) - {12, 13} - covered), key='representable')
    for fn in variants(facts, 'bluetoe::details::uuid_filter::uuid_filter', chk):
        adv = [val for tgt, op, val, st in stores(fn.body) if is_name(tgt, 'bytes_') and op == '+=']
        ok = len(adv) == 1 and cval(adv[0]) == 12
        chk.instance('uuid16-representation', fn, '16 bit value taken from offset %s' % (cval(adv[0]) if adv else None), ok, '' if ok else 'the 16 bit value is not read from bytes 12/13', key='offset')

    # ---- (1) ending handle mapping
    scope = [f for f in facts.functions if f.q.startswith(SV) or f.q.startswith('bluetoe::details::collect_primary_services') or f.q.startswith('bluetoe::details::services_by_group')]
    n_sites = 0
    for fn in scope:
        sites = []
        for c in fn.body.calls('first_index_by_handle'):
            if c.args() and 'ending' in c.args()[0].text():
                sites.append((c, None))
        for name, init in fn.inits:
            for c in init.calls('first_index_by_handle'):
                if c.args() and 'ending' in c.args()[0].text():
                    sites.append((c, name))
        for c, field in sites:
            n_sites += 1
            # variable receiving the mapped index
            var = field
            if var is None:
                p = c.parent
                while p is not None and p.k != 'VarDecl':
                    p = p.parent
                var = p.n if p is not None else None
            ok = False
            why = 'mapped index %s of the ending handle is used without the step back for handles inside a gap' % var
            if fn.name == 'last_handle_index':
                # returns mapped - 1 (or invalid for mapped == 0) under handle_by_index(mapped) != ending_handle
                for r in fn.returns():
                    v = ret_value(r)
                    ats = guard_atoms(fn, r)
                    ne = any(op == '!=' and not isinstance(l, int) and strip_casts(l).is_call('handle_by_index') for l, op, rr in ats)
                    if ne and v is not None and v.k == 'ConditionalOperator':
                        z = atoms(v.c[0], True)
                        ok = any(op == '==' and is_name(l, var) and cval(rr) == 0 for l, op, rr in z) and mentions(v.c[1], 'invalid_attribute_index') and as_binop(v.c[2]) is not None and as_binop(v.c[2])[0] == '-'
                why = 'last_handle_index does not step back (guarding index 0) when the ending handle lies in a gap'
            else:
                decs = [(st, op) for tgt, op, val, st in stores(fn.body) if is_name(tgt, var) and op == '--']
                for st, op in decs:
                    ats = guard_atoms(fn, st)
                    ne = any(o == '!=' and not isinstance(l, int) and strip_casts(l).is_call('handle_by_index') and is_name(strip_casts(l).args()[0], var) and mentions(rr, 'ending_handle') for l, o, rr in ats if not isinstance(rr, int))
                    nz = has_atom(ats, lambda n: is_name(n, var), {'!='}, lambda o: cval(o) == 0)
                    if ne and nz:
                        ok = True
                    elif ne:
                        why = '--%s under handle_by_index(%s) != ending_handle can wrap at index 0 to invalid_attribute_index ("no upper bound"): a range in front of the first attribute returns the whole database' % (var, var)
            chk.instance('end-handle-mapping', fn, '%s = first_index_by_handle(ending handle) in %s' % (var, fn.name), ok, '' if ok else why, node=c, key='%s in %s' % (var, fn.q.split('::')[-2] + '::' + fn.name))
    # handle comparison form (collect_primary_services)
    for fn in variants(facts, 'bluetoe::details::collect_primary_services::each', chk):
        em = fn.body.calls('read_primary_service_response')
        def bounded(l, op, r):
            if isinstance(l, int) or isinstance(r, int):
                return False
            for a, o, b in ((l, op, r), (r, SWAP[op], l)):       # either operand order
                if o == '<=' and strip_casts(a).is_call('handle_by_index') and is_name(strip_casts(a).args()[0], 'index_') and dim(b) == 'H':
                    return True
            return False
        ok = len(em) == 1 and any(bounded(l, op, r) for l, op, r in guard_atoms(fn, em[0]))
        chk.instance('end-handle-mapping', fn, 'handle_by_index(index_) <= ending_handle_', ok, '' if ok else 'Read By Group Type does not bound the reported services by the ending handle', key='collect_primary_services::each')

    # ---- (2) dimension typing
    for fn in scope:
        for n in fn.body.walk():
            b = as_binop(n) if n.k in ('BinaryOperator', 'CXXOperatorCallExpr') else None
            if b and b[0] in ('<', '<=', '>', '>=', '==', '!=', '='):
                d1, d2 = dim(b[1]), dim(b[2])
                if d1 and d2:
                    ok = d1 == d2
                    chk.instance('no-handle-index-mix', fn, '%s %s %s' % (b[1].text()[:40], b[0], b[2].text()[:40]), ok, '' if ok else 'a handle (%s) meets an attribute index (%s)' % (b[1].text() if d1 == 'H' else b[2].text(), b[2].text() if d1 == 'H' else b[1].text()), node=n, key='%s %s %s in %s' % (b[1].text()[:30], b[0], b[2].text()[:30], fn.name))
        for name, init in fn.inits:
            if name:
                nm = name.lower()
                d1 = 'H' if ('handle' in nm and 'index' not in nm) else 'I' if ('index' in nm and 'handle' not in nm) else None
                arg = init.c[0] if init.k in ('ParenListExpr', 'InitListExpr') and init.c else init
                d2 = dim(arg)
                if d1 and d2:
                    ok = d1 == d2
                    chk.instance('no-handle-index-mix', fn, '%s( %s )' % (name, arg.text()[:50]), ok, '' if ok else 'member %s (%s) is initialised from %s (%s)' % (name, 'index' if d1 == 'I' else 'handle', arg.text()[:40], 'index' if d2 == 'I' else 'handle'), node=init, key='%s init in %s' % (name, fn.q.split('::')[-1]))

    # ---- (3) iteration
    for fn in variants(facts, SV + 'all_attributes', chk):
        loops = fn.body.find(lambda n: n.k == 'ForStmt')
        ok = len(loops) == 1
        if ok:
            iv = loops[0].child('init').find(lambda n: n.k == 'VarDecl')
            ok = len(iv) == 1 and strip_casts(iv[0].c[0]).is_call('first_index_by_handle') and 'starting' in strip_casts(iv[0].c[0]).args()[0].text()
            ca = atoms(loops[0].child('cond'), True)
            ok = ok and any(op == '<=' and is_name(l, iv[0].n) and is_name(r, 'last_index') for l, op, r in ca if not isinstance(r, int))
            ok = ok and any(op == '++' for tgt, op, val, st in stores(loops[0].child('inc')))
            li = local_init(fn, 'last_index')
            ok = ok and li is not None and li.is_call('last_handle_index')
        chk.instance('ascending-bounded-iteration', fn, 'for (index = first_index_by_handle(start); index <= last_handle_index(end); ++index)', ok, '' if ok else 'attribute iteration does not run ascending over exactly the mapped range', key='all_attributes')
    for fn in variants(facts, SV + 'collect_handle_uuid_tuples', chk):
        loops = fn.body.find(lambda n: n.k == 'ForStmt')
        ok = len(loops) == 1
        if ok:
            c = loops[0].child('cond').text()
            ok = 'start <= end' in c and 'number_of_attributes' in c and 'size_per_tuple' in c and any(op == '++' for tgt, op, val, st in stores(loops[0].child('inc')))
            w = [x for x in fn.body.calls('write_handle') if any(cc.cn == 'handle_by_index' and is_name(cc.args()[0], 'start') for cc in x.calls())]
            ok = ok and len(w) == 1
        chk.instance('ascending-bounded-iteration', fn, 'tuple loop bounded by end, number_of_attributes and remaining output; handle = handle_by_index(start)', ok, '' if ok else 'Find Information tuples are not bounded / not labelled with the mapped handle', key='tuples')

    # ---- (4) producer / consumer agreement of access types and results
    at = facts.enum('bluetoe::details::attribute_access_type') or {}
    ar = facts.enum('bluetoe::details::attribute_access_result') or {}
    chk.require(bool(at) and bool(ar), 'enums attribute_access_type / attribute_access_result not found')
    produced, consumed, returned, tested = {}, {}, {}, {}
    for fn in facts.functions:
        is_factory = fn.q.startswith('bluetoe::details::attribute_access_arguments::')
        for n in fn.body.walk():
            if n.k in REF_KINDS and n.n in at and 'attribute_access_type' in (n.q or n.d.get('qual') or 'attribute_access_type'):
                p = n.parent
                in_cmp = False
                while p is not None and p.k not in ('CompoundStmt',):
                    if as_binop(p) is not None and as_binop(p)[0] in ('==', '!='):
                        in_cmp = True
                        break
                    p = p.parent
                if in_cmp and not is_factory:
                    consumed.setdefault(n.n, set()).add(fn.q)
                elif is_factory:
                    produced.setdefault(n.n, set()).add(fn.name)
            if n.k in REF_KINDS and n.n in ('uuid_equal', 'value_equal'):
                p = n.parent
                kind = None
                while p is not None and p.k != 'CompoundStmt':
                    if p.k == 'ReturnStmt':
                        kind = 'ret'
                    if as_binop(p) is not None and as_binop(p)[0] in ('==', '!='):
                        kind = 'test' if kind is None else kind
                    p = p.parent
                # a comparison result == X inside a return of a filter is a test, a bare X in a return (incl. ?:) is a production
                par = n.parent
                direct_cmp = par is not None and as_binop(par) is not None and as_binop(par)[0] in ('==', '!=')
                if direct_cmp:
                    tested.setdefault(n.n, set()).add(fn.q)
                elif kind == 'ret':
                    returned.setdefault(n.n, set()).add(fn.q)
    for t in sorted(produced):
        ok = bool(consumed.get(t))
        chk.obligation('access-type-agreement', 'attribute_access_type::' + t, 'constructed by %s, handled by %d access function(s)' % (sorted(produced[t]), len(consumed.get(t, ()))), ok,
                       '' if ok else 'no access function handles %s: the request that uses it can never match (e.g. Read By Type with a 128 bit characteristic UUID answers Attribute Not Found although the attribute exists)' % t, key='type ' + t)
    for r in sorted(tested):
        ok = bool(returned.get(r))
        chk.obligation('access-type-agreement', 'attribute_access_result::' + r, 'tested in %s, returned by %d function(s)' % (sorted(x.split('::')[-2] for x in tested[r]), len(returned.get(r, ()))), ok,
                       '' if ok else 'no access function ever returns %s' % r, key='result ' + r)
