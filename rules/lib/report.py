"""Verdict bookkeeping: rule instances, known findings, evidence file, exit codes.

exit 0: every rule instance held (or is a listed known finding)
exit 1 also when a violation and an analysis-broken condition coincide (the violation is concrete)
exit 1: VIOLATION line(s) for failing instances not listed
exit 2: analysis broken (anchor vanished, unit does not parse, instance floor not met)
"""
import os, sys, json, time

VERIF = os.path.dirname(os.path.dirname(os.path.dirname(os.path.abspath(__file__))))
EVDIR = os.environ.get('BT_EVIDENCE') or os.path.join(VERIF, 'evidence')
GATE_TOKENS = int(os.environ.get('BT_GATE', '30'))   # see DESIGN.md 2.8: neutral refactorings measured >= 26 changed tokens in scope, single seeded defects mostly <= 30


class Check:
    def __init__(self, pid, tier, level='other'):
        self.pid = pid
        self.tier = tier
        self.level = level
        self.t0 = time.time()
        self.exact_rules = set()
        self.facts = None
        self.extra_facts = []
        self._dist = None
        self.instances = []   # dicts: rule, site, function, construct, ok, detail, variants
        self.notes = []
        self.broken = []
        self.units = {}
        self.functions_analysed = set()
        self.rules = {}       # rule id -> text
        self.floors = {}      # rule id -> minimum number of instances
        self.extra = {}
        self.assumptions = []
        self.seed = int(os.environ.get('VERIF_SEED', '0') or 0)

    # ---- declaring rules
    def rule(self, rid, text, floor=1):
        self.rules[rid] = text
        self.floors[rid] = floor

    def analysed(self, fn):
        self.functions_analysed.add((fn.q, fn.kind, fn.targs[:60] if fn.kind == 'inst' else ''))

    def instance(self, rid, fn, construct, ok, detail='', node=None, key=None, exact=None):
        """one evaluated obligation. `key` identifies the construct independent of line numbers."""
        assert rid in self.rules, rid
        if fn is not None:
            self.analysed(fn)
        line = (node.l if node is not None and getattr(node, 'l', 0) else (fn.line if fn is not None else 0))
        rec = {
            'rule': rid,
            'function': fn.q if fn is not None else '',
            'kind': fn.kind if fn is not None else '',
            'file': fn.relfile() if fn is not None else '',
            'line': line,
            'construct': construct,
            'key': key or construct,
            'ok': bool(ok),
            'detail': detail,
            'exact': bool(exact if exact is not None else rid in self.exact_rules),
        }
        if fn is not None and fn.kind == 'inst':
            rec['instantiation'] = fn.targs[:200]
        self.instances.append(rec)
        return ok

    def obligation(self, rid, where, construct, ok, detail='', key=None):
        """an obligation not tied to a Function object (witness, table cell, class fact)"""
        assert rid in self.rules, rid
        self.instances.append({'rule': rid, 'function': where, 'kind': '', 'file': where, 'line': 0,
                               'construct': construct, 'key': key or construct, 'ok': bool(ok), 'detail': detail, 'exact': True})
        return ok

    def note(self, text):
        self.notes.append(text)

    def exact(self, *rids):
        """rules whose verdict is computed from the meaning of the code (compiler-evaluated witnesses, folded tables, symbolic terms, linear
        forms, typestate over all paths) and therefore does not depend on the code keeping a particular shape: never gated by the golden structure"""
        self.exact_rules.update(rids)

    def scope_distance(self):
        """how far the code in this property's scope moved from the structure the rules were confirmed on: (total changed tokens, [(function, changed)], unknown functions)"""
        if self._dist is None:
            from . import golden
            per = {}
            unknown = []
            seen_variants = set()
            fns = list(self.facts.functions if self.facts is not None else [])
            for ef in self.extra_facts:
                fns += list(ef.functions)
            primary = {golden.key(fn) for fn in fns if fn.kind in ('pattern', 'plain')}
            for fn in fns:
                if '/tests/' in (fn.file or '') or '/witness/' in (fn.file or ''):
                    continue
                if fn.kind not in ('pattern', 'plain') and golden.key(fn) in primary:
                    continue
                d = golden.distance(fn)
                k = golden.key(fn)
                sig = (k, tuple(golden.tokens(fn)))
                if sig in seen_variants:
                    continue                      # the same definition seen through another unit
                seen_variants.add(sig)
                if d is None:
                    if k not in unknown:
                        unknown.append(k)
                else:
                    per[k] = per.get(k, 0) + d[0]  # overloads / specialisations share a key: each is compared with its closest confirmed variant
            changed = sorted(((k.split('|')[0], v) for k, v in per.items() if v), key=lambda x: -x[1])
            self._dist = (sum(v for k, v in changed), changed, unknown)
        return self._dist

    def broke(self, text):
        self.broken.append(text)

    def require(self, cond, text):
        if not cond:
            self.broke(text)
        return cond

    # ---- finishing
    def _known(self):
        p = os.path.join(VERIF, 'known_findings.json')
        if not os.path.exists(p):
            return []
        d = json.load(open(p))
        return [k for k in d.get('known', []) if k.get('property') == self.pid]

    @staticmethod
    def _match(k, inst):
        if k.get('rule') != inst['rule']:
            return False
        if k.get('function') and k['function'] != inst['function']:
            return False
        if k.get('key') and k['key'] != inst['key']:
            return False
        return True

    def finish(self):
        try:
            from . import match as _m
            for q, name in sorted(set(_m.MISSING_LOCALS)):
                self.broke('local variable `%s` expected in %s was not found (code was renamed / restructured: rule tables need an update)' % (name, q))
        except Exception:
            pass
        # floors
        counts = {}
        for i in self.instances:
            counts[i['rule']] = counts.get(i['rule'], 0) + 1
        for rid, fl in self.floors.items():
            if counts.get(rid, 0) < fl:
                self.broke('rule %s matched %d instance(s), fewer than the %d confirmed by reading' % (rid, counts.get(rid, 0), fl))
        failing = [i for i in self.instances if not i['ok']]
        known = self._known()
        # distinct failing sites (pattern + instantiations collapse onto one site)
        sites = {}
        for i in failing:
            sites.setdefault((i['rule'], i['function'], i['key']), []).append(i)
        violations = []
        known_hits = []
        for site, lst in sorted(sites.items()):
            k = next((k for k in known if self._match(k, lst[0])), None)
            if k is not None:
                known_hits.append((k, lst))
            else:
                violations.append((site, lst))
        # a rule whose frozen local name vanished from a function cannot judge that function: its failures there are `idiom not recognised`
        try:
            from .match import MISSING_LOCALS
            lost = {q for q, name in MISSING_LOCALS}
        except Exception:
            lost = set()
        if lost and violations:
            kept = []
            for site, lst in violations:
                if lst[0]['function'] in lost and not lst[0].get('exact'):
                    continue     # the analysis-broken line for the missing local is already recorded
                kept.append((site, lst))
            violations = kept
        # a shape rule that fails on code which was restructured since the rule's idioms were confirmed is `idiom not recognised`, not a violation
        if violations and any(not lst[0].get('exact') for site, lst in violations):
            total, changed, unknown = self.scope_distance()
            if total > GATE_TOKENS:
                kept = []
                for site, lst in violations:
                    if lst[0].get('exact'):
                        kept.append((site, lst))
                    else:
                        i = lst[0]
                        self.broke('rule %s no longer matches %s (%s:%d: %s) and the code in this property\'s scope was restructured since the rule\'s idioms were confirmed '
                                   '(%d AST tokens changed, most in %s): idiom not recognised - no verdict from this rule' % (
                                       i['rule'], i['function'] or i['file'], i['file'], i['line'], i['construct'][:80], total, ', '.join('%s (%d)' % (k.split('::')[-1], v) for k, v in changed[:3])))
                violations = kept
        wall = time.time() - self.t0
        distinct = {(i['rule'], i['function'], i['key']) for i in self.instances}
        samples = []
        seen_rules = set()
        for i in self.instances:
            if i['rule'] not in seen_rules or not i['ok']:
                seen_rules.add(i['rule'])
                samples.append({k: i[k] for k in ('rule', 'function', 'file', 'line', 'construct', 'ok', 'detail')})
            if len(samples) >= 40:
                break
        ev = {
            'property_id': self.pid,
            'tier': self.tier,
            'seed': self.seed,
            'level': self.level,
            'coverage': {
                'explanation': 'Static analysis of /repo\'s current sources (clang 14 AST + CFG via btfacts, type-level witnesses compiled with -fsyntax-only). '
                               'Rules: ' + ' | '.join('%s: %s' % (r, t) for r, t in self.rules.items()),
                'evaluations': len(self.instances),
                'distinct_nontrivial': len(distinct),
                'rule': 'one evaluation = one rule instance (rule x function variant x construct); distinct = distinct (rule, function, construct) ignoring pattern/instantiation variants',
                'samples': samples or [{'note': 'no instances'}],
                'units_parsed': len(self.units),
                'functions_analysed': len(self.functions_analysed),
                'instances_per_rule': counts,
                'floors': self.floors,
                'known_findings_hit': [k.get('id') for k, _ in known_hits],
                'notes': self.notes,
                'analysis_broken': self.broken,
            },
            'assumptions': self.assumptions,
            'wall_s': round(wall, 2),
            'violations': len(violations),
        }
        ev['coverage'].update(self.extra)
        os.makedirs(EVDIR, exist_ok=True)
        with open(os.path.join(EVDIR, self.pid + '.json'), 'w') as f:
            json.dump(ev, f, indent=1)
        print('%s [%s]: %d rule instances (%d distinct sites) over %d functions in %d units, %.1fs' % (
            self.pid, self.tier, len(self.instances), len(distinct), len(self.functions_analysed), len(self.units), wall))
        for r, n in sorted(counts.items()):
            bad = sum(1 for i in self.instances if i['rule'] == r and not i['ok'])
            print('  rule %-28s %4d instances, %d failing  (floor %d)' % (r, n, bad, self.floors.get(r, 0)))
        for n in self.notes:
            print('  note: ' + n)
        for k, lst in known_hits:
            i = lst[0]
            print('KNOWN-FINDING: property=%s %s %s:%d %s [%s] %s' % (self.pid, k.get('id', ''), i['file'], i['line'], i['function'], i['rule'], k.get('what', i['detail'])))
        if self.broken:
            for b in self.broken:
                print('ANALYSIS-BROKEN property=%s %s' % (self.pid, b))
            if not violations:
                return 2
            # a concrete violation was established on recognised code: it is reported (exit 1) although another rule lost its anchor
        if violations:
            rdir = os.path.join(EVDIR, 'replay')
            os.makedirs(rdir, exist_ok=True)
            for n, (site, lst) in enumerate(violations):
                path = os.path.join(rdir, '%s-%d.json' % (self.pid, n))
                with open(path, 'w') as f:
                    json.dump({'property': self.pid, 'rule': site[0], 'rule_text': self.rules[site[0]], 'function': site[1],
                               'construct': site[2], 'variants': lst}, f, indent=1)
                i = lst[0]
                print('  %s:%d %s: rule %s violated: %s -- %s' % (i['file'], i['line'], i['function'], i['rule'], i['construct'], i['detail']))
                print('VIOLATION property=%s replay=%s' % (self.pid, path))
            return 1
        return 0


class FilteredCheck:
    """view of a Check through which another property's rule module reports only the listed rules (see `ALSO` in the rule modules)"""

    def __init__(self, chk, rids, origin):
        self._c = chk
        self._r = rids
        self._o = origin

    def rule(self, rid, text, floor=0):
        if rid in self._r:
            self._c.rule(rid, '[rule of %s] %s' % (self._o, text), floor=floor)

    def instance(self, rid, *a, **kw):
        if rid in self._r:
            return self._c.instance(rid, *a, **kw)
        return a[2] if len(a) > 2 else kw.get('ok', True)

    def obligation(self, rid, *a, **kw):
        if rid in self._r:
            return self._c.obligation(rid, *a, **kw)
        return a[2] if len(a) > 2 else True

    def require(self, cond, text):
        return cond

    def broke(self, text):
        pass

    def note(self, text):
        pass

    def exact(self, *rids):
        self._c.exact(*[r for r in rids if r in self._r])

    def analysed(self, fn):
        pass

    def __getattr__(self, name):
        return getattr(self._c, name)
