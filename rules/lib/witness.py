"""Type-level witnesses: translation units of static_asserts over Bluetoe's own constexpr metaprograms,
decided by the compiler (clang++ -fsyntax-only). Nothing is run."""
import os, re, subprocess, hashlib
from . import facts as F

PRELUDE = '''#include <iterator>
#include <tuple>
#include <array>
#include <cstdint>
#include <cstddef>
#include <cstring>
#include <type_traits>
#define VERIF_ASSERT( key, ... ) static_assert( ( __VA_ARGS__ ), "VERIF-W[" key "]" )
'''


def compile_witness(name, source, extra_flags=()):
    """returns (failed keys set, other error lines list, number of obligations, command string)"""
    d = os.path.join(F.CACHE, 'witness')
    os.makedirs(d, exist_ok=True)
    path = os.path.join(d, name + '.' + hashlib.sha1(source.encode()).hexdigest()[:10] + '.cpp')
    with open(path, 'w') as f:
        f.write(source)
    cmd = ['clang++', '-fsyntax-only', '-ferror-limit=0', '-ftemplate-backtrace-limit=1', '-fno-caret-diagnostics'] + F.BASE_INC + F.BASE_FLAGS + list(extra_flags) + [path]
    p = subprocess.run(cmd, capture_output=True, text=True)
    failed = set()
    other = []
    for line in p.stderr.splitlines():
        m = re.search(r'VERIF-W\[([^\]]*)\]', line)
        if m and 'error' in line:
            failed.add(m.group(1))
        elif ' error: ' in line or 'fatal error' in line:
            other.append(line.strip()[:300])
    n = len(re.findall(r'VERIF_ASSERT\(', source)) - (1 if 'define VERIF_ASSERT(' in source else 0)
    try:
        os.remove(path)
    except OSError:
        pass
    return failed, other, n, ' '.join(cmd[:4]) + ' ... ' + os.path.basename(path)


def run_witness(chk, rule, name, source, obligations, extra_flags=()):
    """obligations: list of (key, description). Each becomes one rule instance."""
    failed, other, n, cmd = compile_witness(name, source, extra_flags)
    if other:
        chk.broke('witness %s does not compile: %s' % (name, other[0]))
        return
    keys = [k for k, _ in obligations]
    for k in failed:
        if k not in keys:
            chk.broke('witness %s: unknown failing key %s' % (name, k))
    for k, desc in obligations:
        ok = k not in failed
        chk.obligation(rule, 'witness:' + name, desc, ok, '' if ok else 'static_assert failed in the compiler: ' + desc, key=k)
    chk.extra.setdefault('witness_cmds', []).append(cmd)
