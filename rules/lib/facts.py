"""Fact extraction (btfacts driver + cache) and the in-memory program model used by the rules.

Nothing here runs Bluetoe code: btfacts parses the units with clang and dumps trees and CFGs.
"""
import os, sys, json, hashlib, subprocess, re, time, fcntl
from concurrent.futures import ThreadPoolExecutor

VERIF = os.path.dirname(os.path.dirname(os.path.dirname(os.path.abspath(__file__))))
REPO = os.environ.get('BT_REPO', '/repo')
BTFACTS = os.path.join(VERIF, 'tools', 'btfacts')
CACHE = os.environ.get('BT_CACHE') or os.path.join(VERIF, '.cache')

BASE_INC = ['-I' + REPO, '-I' + REPO + '/bluetoe/utility/include', '-I' + REPO + '/bluetoe/link_layer/include',
            '-I' + REPO + '/bluetoe/sm/include', '-I' + REPO + '/bluetoe/hci/include',
            '-I' + REPO + '/bluetoe/bindings/nordic/include', '-I' + REPO + '/bluetoe/bindings/nordic/nrf52/include',
            '-I' + REPO + '/tests/test_tools', '-I' + REPO + '/tests', '-I' + VERIF + '/stubs', '-I' + VERIF + '/witness']
BASE_FLAGS = ['-std=gnu++17', '-O2', '-DNDEBUG', '-Wno-everything']


class AnalysisBroken(Exception):
    pass


def _resource_dir():
    return subprocess.check_output(['clang++', '-print-resource-dir'], text=True, stderr=subprocess.DEVNULL).strip()


def _sha_files(paths):
    h = hashlib.sha256()
    for p in sorted(paths):
        try:
            with open(p, 'rb') as f:
                h.update(p.encode()); h.update(b'\0'); h.update(f.read())
        except OSError:
            h.update(p.encode() + b'!missing')
    return h.hexdigest()


def _source_files():
    out = []
    for root in (REPO + '/bluetoe', REPO + '/tests', VERIF + '/witness', VERIF + '/stubs'):
        for d, dn, fn in os.walk(root):
            for f in fn:
                if f.endswith(('.hpp', '.cpp', '.h', '.c', '.hh', '.ipp')):
                    out.append(os.path.join(d, f))
    out.append(BTFACTS)
    return out


_tree_hash = None


def tree_hash():
    global _tree_hash
    if _tree_hash is None:
        _tree_hash = _sha_files(_source_files())[:20]
    return _tree_hash


def compile_db():
    """Regenerate the compilation database from the repo's own build description."""
    bdir = REPO + '/_build'
    if not os.path.exists(bdir + '/build.ninja'):
        raise AnalysisBroken('no build.ninja under %s' % bdir)
    out = subprocess.run(['ninja', '-C', bdir, '-t', 'compdb'], capture_output=True, text=True)
    if out.returncode != 0:
        raise AnalysisBroken('ninja -t compdb failed: ' + out.stderr[:300])
    db = json.loads(out.stdout)
    units = {}
    for e in db:
        f = e['file']
        if not f.endswith(('.cpp', '.cc', '.c')):
            continue
        if f in units:
            continue
        args = e['command'].split()
        flags = [a for a in args if a.startswith(('-I', '-D', '-std', '-isystem'))]
        units[f] = flags
    return units


def unit_sets(tier):
    """name -> (source file, flags). quick: witness family + library units; thorough: + all database units."""
    units = {}
    wdir = os.path.join(VERIF, 'witness')
    for f in sorted(os.listdir(wdir)):
        if f.startswith('inst_') and f.endswith('.cpp'):
            units['w_' + f[:-4]] = (os.path.join(wdir, f), BASE_INC + BASE_FLAGS)
    for f in ('bluetoe/link_layer/channel_map.cpp', 'bluetoe/link_layer/delta_time.cpp',
              'bluetoe/link_layer/connection_details.cpp', 'bluetoe/utility/address.cpp'):
        units['lib_' + os.path.basename(f)[:-4]] = (os.path.join(REPO, f), BASE_INC + BASE_FLAGS)
    for f in ('bluetoe/bindings/nordic/nrf52/security_tool_box.cpp', 'bluetoe/bindings/nordic/nrf52/nrf52.cpp'):
        if os.path.exists(os.path.join(VERIF, 'stubs', 'nrf.h')):
            units['nrf_' + os.path.basename(f)[:-4]] = (os.path.join(REPO, f), BASE_INC + ['-I' + REPO + '/bluetoe/bindings/nordic/uECC', '-fms-extensions'] + BASE_FLAGS)
    # the ECC library of the nRF binding (C): the public key validation the security tool box delegates to
    uecc = os.path.join(REPO, 'bluetoe/bindings/nordic/uECC/uECC.c')
    if os.path.exists(uecc):
        units['c_uecc'] = (uecc, ['-x', 'c', '-std=gnu99', '-I' + os.path.dirname(uecc), '-Wno-everything'])
    if tier == 'thorough':
        for f, flags in compile_db().items():
            if '/tests/' in f:
                name = 't_' + os.path.relpath(f, REPO + '/tests').replace('/', '_')[:-4]
                # the five test units outside the pinned suite only lack <iterator>/<tuple>: force the includes so that they are analysed too
                units[name] = (f, flags + ['-std=gnu++17', '-Wno-everything', '-include', 'iterator', '-include', 'tuple', '-include', 'array', '-include', 'cstdint', '-include', 'cstring'])
    return units


def _extract_one(name, src, flags, outdir, rd):
    out = os.path.join(outdir, name + '.jsonl')
    if os.path.exists(out):
        return name, True, ''
    tmp = out + '.tmp.%d' % os.getpid()
    cmd = [BTFACTS, '-o', tmp, '--root', REPO + '/bluetoe', src, '--'] + flags + ['-resource-dir', rd]
    p = subprocess.run(cmd, capture_output=True, text=True)
    if p.returncode != 0 or not os.path.exists(tmp):
        if os.path.exists(tmp):
            os.remove(tmp)
        return name, False, (p.stderr or '')[-1500:]
    os.replace(tmp, out)
    return name, True, ''


def ensure_facts(tier='quick', only=None):
    """Extract facts for the tier's unit set from /repo's current working tree (cached by content hash).
    Returns (dir, {unit name: source file})."""
    if not os.path.exists(BTFACTS):
        p = subprocess.run(['make', '-C', os.path.join(VERIF, 'tools')], capture_output=True, text=True)
        if p.returncode != 0:
            raise AnalysisBroken('cannot build btfacts: ' + p.stderr[-500:])
    units = unit_sets(tier)
    if only is not None:
        units = {k: v for k, v in units.items() if only(k)}
    outdir = os.path.join(CACHE, tree_hash())
    os.makedirs(outdir, exist_ok=True)
    # drop stale caches (keep disk small)
    for d in os.listdir(CACHE):
        p = os.path.join(CACHE, d)
        if d != tree_hash() and os.path.isdir(p) and time.time() - os.path.getmtime(p) > 600:
            subprocess.run(['rm', '-rf', p])
    lock = open(os.path.join(outdir, '.lock'), 'w')
    fcntl.flock(lock, fcntl.LOCK_EX)
    try:
        rd = _resource_dir()
        todo = [(n, s, f) for n, (s, f) in units.items() if not os.path.exists(os.path.join(outdir, n + '.jsonl'))]
        failed = []
        if todo:
            with ThreadPoolExecutor(max_workers=int(os.environ.get('BT_JOBS', '16'))) as ex:
                for name, ok, err in ex.map(lambda a: _extract_one(a[0], a[1], a[2], outdir, rd), todo):
                    if not ok:
                        failed.append((name, err))
        if failed:
            raise AnalysisBroken('units no longer parse: ' + '; '.join('%s: %s' % (n, e.strip().splitlines()[-1] if e.strip() else '?') for n, e in failed[:5]))
    finally:
        fcntl.flock(lock, fcntl.LOCK_UN)
        lock.close()
    return outdir, {n: s for n, (s, f) in units.items()}


# ------------------------------------------------------------------------------------------------
# program model

CALL_KINDS = ('CallExpr', 'CXXMemberCallExpr', 'CXXOperatorCallExpr', 'CXXConstructExpr', 'CXXTemporaryObjectExpr',
              'CXXUnresolvedConstructExpr', 'UserDefinedLiteral')


def _canon(d):
    """canonical forms applied when a function tree is loaded: std::copy_n(a, n, d) becomes std::copy(a, a + n, d)"""
    for i, c in enumerate(d.get('c', [])):
        d['c'][i] = _canon(c)
    # &p[k] -> p + k  (p a pointer or array; element address)
    if d.get('k') == 'UnaryOperator' and d.get('o') == '&' and len(d.get('c', [])) == 1 and d['c'][0].get('k') == 'ArraySubscriptExpr' and len(d['c'][0].get('c', [])) == 2:
        base, idx = d['c'][0]['c']
        if base.get('t', '').rstrip().endswith('*') or '[' in base.get('t', ''):
            d = {'k': 'BinaryOperator', 'o': '+', 'i': d.get('i', -1), 'l': d.get('l', 0), 't': d.get('t', ''), 'c': [base, idx], 'r': d.get('r'), 'canon': '&[]'}
            if d['r'] is None:
                del d['r']
    # *(p + k) -> p[k] ; p[0] stays, *p stays (both forms are matched by the rules through as_elem)
    if d.get('call') and d.get('cn') == 'copy_n' and d.get('k') == 'CallExpr' and len(d.get('c', [])) == 4:
        cal, a, n, dst = d['c']
        cal = dict(cal)
        cal['n'] = 'copy'
        import copy as _copy
        a2 = _copy.deepcopy(a)
        def strip_ids(x):
            x['i'] = -1
            for y in x.get('c', []):
                strip_ids(y)
        strip_ids(a2)
        end = {'k': 'BinaryOperator', 'o': '+', 'i': -1, 'l': d.get('l', 0), 't': a.get('t', ''), 'c': [a2, n]}
        d = dict(d)
        d['cn'] = 'copy'
        d['c'] = [cal, a, end, dst]
    return d


class Node:
    __slots__ = ('d', 'k', 'i', 'l', 'n', 'q', 'o', 'v', 't', 'r', 'c', 'parent', 'fn')

    def __init__(self, d, parent, fn):
        self.d = d
        self.k = d.get('k')
        self.i = d.get('i', -1)
        self.l = d.get('l', 0)
        self.n = d.get('n')
        self.q = d.get('q')
        self.o = d.get('o')
        self.v = d.get('v')
        self.t = d.get('t')
        self.r = d.get('r')
        self.parent = parent
        self.fn = fn
        self.c = [Node(x, self, fn) for x in d.get('c', [])]

    # -- traversal
    def walk(self):
        st = [self]
        while st:
            n = st.pop()
            yield n
            st.extend(reversed(n.c))

    def find(self, pred):
        return [n for n in self.walk() if pred(n)]

    def ancestors(self):
        p = self.parent
        while p is not None:
            yield p
            p = p.parent

    def is_call(self, name=None):
        if not self.d.get('call'):
            return False
        if name is None:
            return True
        cn = self.d.get('cn')
        if isinstance(name, (tuple, list, set, frozenset)):
            return cn in name
        return cn == name

    @property
    def cn(self):
        return self.d.get('cn')

    @property
    def cq(self):
        return self.d.get('cq')

    def args(self):
        if not self.d.get('call'):
            return []
        if self.k in ('CXXConstructExpr', 'CXXTemporaryObjectExpr', 'CXXUnresolvedConstructExpr', 'CXXOperatorCallExpr'):
            return self.c
        return self.c[1:]

    def callee(self):
        if self.d.get('call') and self.c and self.c[0].r == 'callee':
            return self.c[0]
        return None

    def child(self, role):
        for x in self.c:
            if x.r == role:
                return x
        return None

    def calls(self, name=None):
        return [n for n in self.walk() if n.is_call(name)]

    def names(self):
        """all identifiers referenced below this node"""
        return {n.n for n in self.walk() if n.n}

    def refs(self, name):
        return [n for n in self.walk() if n.n == name and n.k in REF_KINDS]

    def is_ref(self, name=None):
        return self.k in REF_KINDS and (name is None or self.n == name)

    def const(self):
        return self.v

    def text(self, depth=0):
        return _text(self, depth)

    def loc(self):
        return '%s:%d' % (self.fn.file if self.fn else '?', self.l)

    def __repr__(self):
        return '<%s %s@%d>' % (self.k, self.n or self.o or '', self.l)


REF_KINDS = ('DeclRefExpr', 'MemberExpr', 'CXXDependentScopeMemberExpr', 'UnresolvedMemberExpr', 'UnresolvedLookupExpr',
             'DependentScopeDeclRefExpr')


def _text(n, depth=0):
    if depth > 12:
        return '...'
    k = n.k
    T = lambda x: _text(x, depth + 1)
    if k in ('DeclRefExpr', 'UnresolvedLookupExpr', 'DependentScopeDeclRefExpr'):
        return n.n or '?'
    if k in ('MemberExpr', 'CXXDependentScopeMemberExpr', 'UnresolvedMemberExpr'):
        if n.c and n.c[0].k == 'CXXThisExpr' and n.c[0].d.get('implicit'):
            return n.n
        if n.c:
            return T(n.c[0]) + ('->' if n.d.get('arrow') else '.') + (n.n or '?')
        return n.n or '?'
    if k == 'CXXThisExpr':
        return 'this'
    if k in ('IntegerLiteral', 'CXXBoolLiteralExpr', 'CharacterLiteral'):
        return str(n.v)
    if k == 'StringLiteral':
        return json.dumps(n.d.get('s', ''))
    if k == 'CXXOperatorCallExpr':
        a = n.c
        if n.o == '()' and a:
            return T(a[0]) + '(' + ', '.join(T(x) for x in a[1:]) + ')'
        if n.o == '[]' and len(a) == 2:
            return T(a[0]) + '[' + T(a[1]) + ']'
        if len(a) == 2:
            return '(' + T(a[0]) + ' ' + n.o + ' ' + T(a[1]) + ')'
        if len(a) == 1:
            return n.o + T(a[0])
    if n.d.get('call'):
        if n.d.get('ctor'):
            return (n.cn or '?') + '{' + ', '.join(T(x) for x in n.c) + '}'
        cal = n.callee()
        return (T(cal) if cal else (n.cn or '?')) + '(' + ', '.join(T(x) for x in n.args()) + ')'
    if k in ('BinaryOperator', 'CompoundAssignOperator') and len(n.c) == 2:
        return '(' + T(n.c[0]) + ' ' + n.o + ' ' + T(n.c[1]) + ')'
    if k == 'UnaryOperator' and n.c:
        return (T(n.c[0]) + n.o) if n.d.get('post') else (n.o + T(n.c[0]))
    if k == 'ArraySubscriptExpr':
        return T(n.c[0]) + '[' + T(n.c[1]) + ']'
    if k == 'ConditionalOperator':
        return '(' + T(n.c[0]) + ' ? ' + T(n.c[1]) + ' : ' + T(n.c[2]) + ')'
    if k in ('CXXStaticCastExpr', 'CStyleCastExpr', 'CXXFunctionalCastExpr', 'CXXReinterpretCastExpr', 'CXXConstCastExpr'):
        return '(' + (n.t or '?') + ')' + (T(n.c[0]) if n.c else '')
    if k == 'ReturnStmt':
        return 'return ' + (T(n.c[0]) if n.c else '')
    if k == 'UnaryExprOrTypeTraitExpr':
        return 'sizeof(' + (n.d.get('at') or (T(n.c[0]) if n.c else '?')) + ')'
    if k == 'VarDecl':
        return (n.n or '?') + (' = ' + T(n.c[0]) if n.c else '')
    if k == 'DeclStmt':
        return '; '.join(T(x) for x in n.c)
    if k == 'InitListExpr':
        return '{' + ', '.join(T(x) for x in n.c) + '}'
    if k == 'IfStmt':
        return 'if (' + (T(n.child('cond')) if n.child('cond') else '?') + ') ...'
    if n.v is not None and not n.c:
        return str(n.v)
    return k + ('(' + ', '.join(T(x) for x in n.c) + ')' if n.c else '')


class Block:
    __slots__ = ('id', 'elems', 'tk', 'term', 'cond', 'label', 'succ', 'pred', 'extra')

    def __init__(self, d):
        self.id = d['id']
        self.elems = [e for e in d['e'] if isinstance(e, int)]
        self.extra = [e for e in d['e'] if not isinstance(e, int)]
        self.tk = d.get('tk')
        self.term = d.get('t')
        self.cond = d.get('cond')
        self.label = d.get('label')
        self.succ = d['s']
        self.pred = []


class Function:
    def __init__(self, rec, unit):
        h = rec['hdr']
        self.unit = unit
        self.q = rec['q']
        self.kind = rec['kind']
        self.name = h['n']
        self.file = h['file']
        self.line = h['line']
        self.cls = h.get('cls')
        self.params = h.get('params', [])
        self.ret = h.get('ret')
        self.targs = h.get('targs', '')
        self.hdr = h
        self.body = Node(_canon(rec['body']), None, self)
        self.inits = [(x.get('n'), Node(x['init'], None, self)) for x in h.get('inits', [])]
        self.nodes = {}
        for n in self.body.walk():
            if n.i >= 0:
                self.nodes[n.i] = n
        for _, t in self.inits:
            for n in t.walk():
                if n.i >= 0:
                    self.nodes[n.i] = n
        self._cfg = rec.get('cfg')
        self._blocks = None
        self._dom = None

    def site(self):
        return '%s:%d' % (os.path.relpath(self.file, REPO), self.line)

    def relfile(self):
        return os.path.relpath(self.file, REPO)

    def __repr__(self):
        return '<fn %s %s %s>' % (self.q, self.kind, self.site())

    # -- CFG ------------------------------------------------------------------
    @property
    def blocks(self):
        if self._blocks is None:
            if not self._cfg:
                raise AnalysisBroken('no CFG for %s' % self.q)
            self._blocks = {b['id']: Block(b) for b in self._cfg['blocks']}
            for b in self._blocks.values():
                for s in b.succ:
                    if s >= 0:
                        self._blocks[s].pred.append(b.id)
            self.entry = self._cfg['entry']
            self.exit = self._cfg['exit']
            self._node_block = {}
            for b in self._blocks.values():
                for e in b.elems:
                    self._node_block.setdefault(e, b.id)
        return self._blocks

    def block_of(self, node):
        """block in which the node is evaluated (for statements: block of their first evaluated sub-node)"""
        self.blocks
        n = node
        if n.i in self._node_block:
            return self._node_block[n.i]
        # search descendants in evaluation order (first listed element)
        best = None
        for x in n.walk():
            if x.i in self._node_block:
                return self._node_block[x.i]
        # fall back to ancestors
        for a in node.ancestors():
            if a.i in self._node_block:
                return self._node_block[a.i]
        return None

    def branch_cond(self, blk):
        """the sub-expression that decides the branch at the end of this block. clang reports the whole `A && B` as the
        condition of the block that evaluates only B (A was decided in an earlier block): descend to the right-most operand."""
        cond = self.nodes.get(blk.cond) if blk.cond is not None else None
        elems = set(blk.elems)
        while cond is not None and cond.k == 'BinaryOperator' and cond.o in ('&&', '||') and len(cond.c) == 2:
            rhs = cond.c[1]
            # descend only when this block really evaluates the right operand; a join block that merely tests the
            # already computed value of the whole expression keeps the whole expression as its condition
            if not any(x.i in elems for x in rhs.walk()):
                break
            cond = rhs
            while cond.k in ('CXXStaticCastExpr', 'CStyleCastExpr', 'CXXFunctionalCastExpr') and cond.c:
                cond = cond.c[0]
        return cond

    def edge_label(self, b, idx):
        """(condition node, outcome) of the idx-th successor edge of block b; outcome True/False, or ('case', v) / 'default'"""
        blk = self.blocks[b]
        if blk.cond is None or len(blk.succ) < 2:
            return None
        cond = self.branch_cond(blk)
        if blk.tk == 'SwitchStmt':
            s = blk.succ[idx]
            if s < 0:
                return None
            lab = self.blocks[s].label
            ln = self.nodes.get(lab) if lab is not None else None
            if ln is not None and ln.k == 'CaseStmt':
                return (cond, ('case', ln.v, ln))
            if ln is not None and ln.k == 'DefaultStmt':
                return (cond, ('default', None, ln))
            return (cond, ('default', None, None))
        if len(blk.succ) == 2:
            return (cond, idx == 0)
        return None

    def _dominators(self):
        """dominators over the graph whose vertices are blocks and edges (edge vertex = (b, idx))"""
        if self._dom is not None:
            return self._dom
        blocks = self.blocks
        succ = {}
        for b in blocks.values():
            outs = []
            for i, s in enumerate(b.succ):
                if s < 0:
                    continue
                e = ('e', b.id, i)
                outs.append(e)
                succ[e] = [s]
            succ[b.id] = outs
        pred = {v: [] for v in succ}
        for v, ss in succ.items():
            for s in ss:
                pred.setdefault(s, []).append(v)
        # reachable from entry, reverse post order
        order = []
        seen = set()
        st = [(self.entry, iter(succ.get(self.entry, [])))]
        seen.add(self.entry)
        while st:
            v, it = st[-1]
            adv = False
            for s in it:
                if s not in seen:
                    seen.add(s)
                    st.append((s, iter(succ.get(s, []))))
                    adv = True
                    break
            if not adv:
                order.append(v)
                st.pop()
        order.reverse()
        idx = {v: i for i, v in enumerate(order)}
        idom = {self.entry: self.entry}
        changed = True
        while changed:
            changed = False
            for v in order[1:]:
                ps = [p for p in pred.get(v, []) if p in idom]
                if not ps:
                    continue
                new = ps[0]
                for p in ps[1:]:
                    a, b = p, new
                    while a != b:
                        while idx[a] > idx[b]:
                            a = idom[a]
                        while idx[b] > idx[a]:
                            b = idom[b]
                    new = a
                if idom.get(v) != new:
                    idom[v] = new
                    changed = True
        self._dom = idom
        self._reach = seen
        return idom

    def reachable(self, b):
        self._dominators()
        return b in self._reach

    def dominating_edges(self, b):
        """list of (cond node, outcome) for every branch edge every path from entry to block b must take"""
        idom = self._dominators()
        out = []
        if b not in idom:
            return out
        v = b
        while v != self.entry:
            v = idom[v]
            if isinstance(v, tuple):
                lab = self.edge_label(v[1], v[2])
                if lab is not None and lab[0] is not None:
                    out.append(lab)
        return out

    def dominates(self, a, b):
        idom = self._dominators()
        if b not in idom:
            return False
        v = b
        while True:
            if v == a:
                return True
            if v == self.entry:
                return False
            v = idom[v]

    def guards(self, node):
        b = self.block_of(node)
        if b is None:
            return []
        return self.dominating_edges(b)

    def node_order(self, node):
        """(block, position in block) of a node, for 'before/after in the same block' questions"""
        b = self.block_of(node)
        if b is None:
            return None
        el = self.blocks[b].elems
        ids = [x.i for x in node.walk()]
        pos = [el.index(i) for i in ids if i in el]
        return (b, max(pos) if pos else -1)

    def returns(self):
        return [n for n in self.body.walk() if n.k == 'ReturnStmt']

    def paths_avoiding(self, start_blocks, target, avoid):
        """is `target` reachable from any of start_blocks without entering a block in `avoid`?"""
        seen = set()
        st = [b for b in start_blocks if b not in avoid]
        while st:
            v = st.pop()
            if v in seen:
                continue
            seen.add(v)
            if v == target:
                return True
            for s in self.blocks[v].succ:
                if s >= 0 and s not in avoid and s not in seen:
                    st.append(s)
        return False


class Facts:
    """All function/class/enum records of a set of units."""

    def __init__(self, outdir, units, select=None, want_classes=True):
        self.dir = outdir
        self.units = units
        self.functions = []
        self.classes = []
        self.enums = []
        self.dup_headers = []
        self.vars = []
        self.n_lines = 0
        self.unit_summary = {}
        rx = re.compile(select) if isinstance(select, str) else None
        seen_bodies = {}
        for u in sorted(units):
            path = os.path.join(outdir, u + '.jsonl')
            with open(path) as f:
                for line in f:
                    self.n_lines += 1
                    if line.startswith('{"q":'):
                        end = line.find('"', 6)
                        q = line[6:end]
                        if rx is not None and not rx.search(q):
                            continue
                        if callable(select) and not select(q):
                            continue
                        if line.startswith('"kind":"dup"', end + 2):
                            r = json.loads(line)
                            r['hdr']['q'] = q
                            r['hdr']['unit'] = u
                            self.dup_headers.append(r['hdr'])
                            continue
                        bi = line.find('"body":')
                        kd = line[end + 11:end + 14]
                        hk = (q, kd, hash(line[bi:]))
                        if hk in seen_bodies:
                            seen_bodies[hk].dups += 1
                            continue
                        fn = Function(json.loads(line), u)
                        fn.dups = 0
                        seen_bodies[hk] = fn
                        self.functions.append(fn)
                    elif want_classes:
                        r = json.loads(line)
                        r['unit'] = u
                        if r.get('rec') == 'class':
                            self.classes.append(r)
                        elif r.get('rec') == 'enum':
                            self.enums.append(r)
                        elif r.get('rec') == 'var':
                            r['tree'] = Node(r['init'], None, None)
                            self.vars.append(r)
                        elif r.get('rec') == 'summary':
                            self.unit_summary[u] = r
        self._byq = {}
        for f in self.functions:
            self._byq.setdefault(f.q, []).append(f)

    def fns(self, q, file=None, kind=None):
        out = self._byq.get(q, [])
        if file:
            out = [f for f in out if f.file.endswith(file)]
        if kind:
            out = [f for f in out if f.kind in (kind if isinstance(kind, (tuple, list)) else (kind,))]
        return out

    def fns_matching(self, rx):
        r = re.compile(rx)
        return [f for f in self.functions if r.search(f.q)]

    def enum(self, q):
        for e in self.enums:
            if e['q'] == q:
                return {x['n']: x.get('v') for x in e['enumerators']}
        return None

    def cls(self, q, kind=None):
        return [c for c in self.classes if c['q'] == q and (kind is None or c['kind'] == kind)]
