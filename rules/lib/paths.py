"""Path-sensitive typestate exploration over a function's CFG.

Paths are enumerated from entry to exit, visiting every block at most `max_visits` times. Branch conditions
that are structurally equal (or negations of each other) and whose operands were not written in between are
correlated: an edge contradicting an earlier outcome on the same path is pruned (this removes the classic
`while (A && B) ...; if (!B)` false alarm). Nothing is executed; conditions are compared as expression trees.
"""
from .match import atoms, stores, target_name, strip_casts, SWAP, NEG
from .facts import REF_KINDS

CANON = {'>': ('<=', False), '>=': ('<', False), '!=': ('==', False), '<=': ('<=', True), '<': ('<', True), '==': ('==', True)}


def _txt(x):
    return str(x) if isinstance(x, int) else strip_casts(x).text()


def canon_atom(l, op, r):
    """-> (key, truth, names)"""
    lt, rt = _txt(l), _txt(r)
    if lt > rt:
        lt, rt, op = rt, lt, SWAP[op]
        l, r = r, l
    base, truth = CANON[op]
    names = set()
    for x in (l, r):
        if not isinstance(x, int):
            names |= {n.n for n in strip_casts(x).walk() if n.k in REF_KINDS and n.n}
    return '%s %s %s' % (lt, base, rt), truth, names


class State:
    __slots__ = ('ts', 'facts', 'trace')

    def __init__(self, ts, facts=None, trace=()):
        self.ts = ts
        self.facts = facts or {}
        self.trace = trace

    def copy(self):
        return State(self.ts, dict(self.facts), self.trace)


def explore(fn, init, on_node=None, on_edge=None, max_visits=2, max_paths=20000, written_names=None):
    """Enumerate feasible paths. on_node(ts, node) -> new ts (called for every CFG element, in order);
    on_edge(ts, cond node, outcome, atoms) -> new ts (called when a branch edge is taken).
    Returns list of (final ts, trace) for paths reaching the exit block; trace = tuple of (line, text, outcome)."""
    blocks = fn.blocks
    results = []
    stack = [(fn.entry, State(init), {})]
    npaths = 0
    while stack:
        b, st, visits = stack.pop()
        v = dict(visits)
        v[b] = v.get(b, 0) + 1
        if v[b] > max_visits:
            continue
        blk = blocks[b]
        st = st.copy()
        for eid in blk.elems:
            node = fn.nodes.get(eid)
            if node is None:
                continue
            # writes invalidate correlated facts
            wrote = set()
            if node.k in ('BinaryOperator', 'CompoundAssignOperator', 'UnaryOperator', 'CXXOperatorCallExpr'):
                for tgt, op, val, s in stores(node):
                    if s is node:
                        nm = target_name(tgt)
                        if nm:
                            wrote.add(nm)
            if node.d.get('call') and written_names:
                wrote |= set(written_names(node) or ())
            if wrote:
                st.facts = {k: f for k, f in st.facts.items() if not (f[1] & wrote)}
            if on_node is not None:
                st.ts = on_node(st.ts, node)
        if b == fn.exit:
            results.append((st.ts, st.trace))
            npaths += 1
            if npaths > max_paths:
                raise RuntimeError('path explosion in %s' % fn.q)
            continue
        succ = [s for s in blk.succ]
        if blk.cond is not None and len(succ) == 2 and blk.tk != 'SwitchStmt':
            cond = fn.branch_cond(blk)
            for idx, s in enumerate(succ):
                if s < 0:
                    continue
                outcome = idx == 0
                ats = atoms(cond, outcome) if cond is not None else []
                feasible = True
                nst = st.copy()
                for l, op, r in ats:
                    key, truth, names = canon_atom(l, op, r)
                    if key in nst.facts and nst.facts[key][0] != truth:
                        feasible = False
                        break
                    nst.facts[key] = (truth, names)
                # constant conditions
                if cond is not None and cond.v is not None and not cond.c == [] and bool(cond.v) != outcome and cond.k in ('IntegerLiteral', 'CXXBoolLiteralExpr'):
                    feasible = False
                if not feasible:
                    continue
                if on_edge is not None:
                    nst.ts = on_edge(nst.ts, cond, outcome, ats)
                nst.trace = nst.trace + ((cond.l if cond is not None else 0, cond.text()[:80] if cond is not None else '?', outcome),)
                stack.append((s, nst, v))
        else:
            for s in succ:
                if s >= 0:
                    stack.append((s, st, v))
    return results
