"""Matching helpers over expression trees and branch conditions."""
from .facts import Node, REF_KINDS

NEG = {'==': '!=', '!=': '==', '<': '>=', '>=': '<', '>': '<=', '<=': '>'}
SWAP = {'==': '==', '!=': '!=', '<': '>', '>': '<', '<=': '>=', '>=': '<='}
CMP = set(NEG)


def strip_casts(n):
    """strip explicit casts and value-preserving single-argument constructions (copies / conversions)"""
    while n is not None and not isinstance(n, int):
        if n.k in ('CXXStaticCastExpr', 'CStyleCastExpr', 'CXXFunctionalCastExpr', 'CXXReinterpretCastExpr', 'CXXConstCastExpr') and n.c:
            n = n.c[0]
        elif n.d.get('ctor') and len(n.c) == 1 and n.k in ('CXXConstructExpr',):
            n = n.c[0]
        else:
            break
    return n


def atoms(cond, outcome):
    """atomic relations (lhs node, op, rhs node|int) known to hold when `cond` evaluated to `outcome` (True/False)."""
    out = []
    if cond is None or not isinstance(outcome, bool):
        return out
    c = strip_casts(cond)
    if c.k == 'UnaryOperator' and c.o == '!':
        return atoms(c.c[0], not outcome)
    if c.k == 'CXXOperatorCallExpr' and c.o == '!' and c.c:
        return atoms(c.c[0], not outcome)
    if c.k == 'BinaryOperator' and c.o == '&&':
        if outcome:
            return atoms(c.c[0], True) + atoms(c.c[1], True)
        return out
    if c.k == 'BinaryOperator' and c.o == '||':
        if not outcome:
            return atoms(c.c[0], False) + atoms(c.c[1], False)
        return out
    if (c.k == 'BinaryOperator' or c.k == 'CXXOperatorCallExpr') and c.o in CMP and len(c.c) == 2:
        op = c.o if outcome else NEG[c.o]
        out.append((strip_casts(c.c[0]), op, strip_casts(c.c[1])))
        return out
    out.append((c, '!=' if outcome else '==', 0))
    return out


def _expand_local_flags(fn, ats, depth=0):
    """a test of a const local flag (`const bool fresh = a == b; if ( fresh )`) also tells what its initialiser says, provided the
    initialiser reads only locals/parameters/constants that are not written after the declaration"""
    out = []
    for l, op, r in ats:
        if depth < 3 and isinstance(r, int) and r == 0 and op in ('!=', '==') and not isinstance(l, int) and l.k in REF_KINDS and l.d.get('local'):
            ds = fn.body.find(lambda n: n.k == 'VarDecl' and n.n == l.n)
            if len(ds) == 1 and ds[0].c and (ds[0].t or '').startswith('const'):
                init = strip_casts(ds[0].c[0])
                names = {x.n for x in init.walk() if x.k in REF_KINDS and x.v is None and x.d.get('dk') != 'Function' and x.d.get('r') != 'callee'}
                pure = all(x.d.get('local') or x.v is not None or x.d.get('dk') in ('Function', 'EnumConstant') or x.d.get('r') == 'callee' for x in init.walk() if x.k in REF_KINDS) and not any(x.d.get('call') for x in init.walk())
                written = any(target_name(tgt) in names and st.l >= ds[0].l for tgt, o2, val, st in stores(fn.body))
                if pure and not written and init.k in ('BinaryOperator', 'UnaryOperator', 'ParenExpr'):
                    ex = atoms(init, op == '!=')
                    out.extend(ex)
                    out.extend(_expand_local_flags(fn, ex, depth + 1))
    return out


def guard_atoms(fn, node):
    res = []
    for cond, outcome in fn.guards(node):
        if isinstance(outcome, bool):
            res.extend(atoms(cond, outcome))
    return res + _expand_local_flags(fn, res)


def cval(n):
    if isinstance(n, int):
        return n
    if n is None:
        return None
    n = strip_casts(n)
    return n.v


def is_name(n, name):
    if isinstance(n, int) or n is None:
        return False
    n = strip_casts(n)
    if isinstance(name, (set, frozenset, tuple, list)):
        return n.k in REF_KINDS and n.n in name
    return n.k in REF_KINDS and n.n == name


def norm_atoms(ats, is_subject):
    """orient atoms so that the subject is on the left: yields (subject node, op, other)"""
    for l, op, r in ats:
        if not isinstance(l, int) and is_subject(l):
            yield l, op, r
        elif not isinstance(r, int) and is_subject(r):
            yield r, SWAP[op], l


def lower_bound(ats, is_subject):
    """largest constant c with subject >= c implied by a single atom"""
    lb = None
    for s, op, o in norm_atoms(ats, is_subject):
        c = cval(o)
        if c is None:
            continue
        b = None
        if op == '==':
            b = c
        elif op == '>=':
            b = c
        elif op == '>':
            b = c + 1
        if b is not None and (lb is None or b > lb):
            lb = b
    return lb


def upper_bound(ats, is_subject):
    ub = None
    for s, op, o in norm_atoms(ats, is_subject):
        c = cval(o)
        if c is None:
            continue
        b = None
        if op == '==':
            b = c
        elif op == '<=':
            b = c
        elif op == '<':
            b = c - 1
        if b is not None and (ub is None or b < ub):
            ub = b
    return ub


def has_atom(ats, is_subject, ops, other_pred):
    for s, op, o in norm_atoms(ats, is_subject):
        if op in ops and other_pred(o):
            return True
    return False


def same_expr(a, b):
    """structural equality of two expression trees (names, operators, constants), ignoring casts"""
    if isinstance(a, int) or isinstance(b, int):
        return cval(a) is not None and cval(a) == cval(b)
    a = strip_casts(a)
    b = strip_casts(b)
    if a is None or b is None:
        return a is b
    if a.v is not None and b.v is not None and not a.c and not b.c:
        return a.v == b.v
    ka = 'ref' if a.k in REF_KINDS else ('call' if a.d.get('call') else a.k)
    kb = 'ref' if b.k in REF_KINDS else ('call' if b.d.get('call') else b.k)
    if ka != kb or a.n != b.n or a.o != b.o or a.d.get('cn') != b.d.get('cn'):
        return False
    ca = [x for x in a.c if not (x.k == 'CXXThisExpr')]
    cb = [x for x in b.c if not (x.k == 'CXXThisExpr')]
    if len(ca) != len(cb):
        return False
    return all(same_expr(x, y) for x, y in zip(ca, cb))


def stores(root):
    """assignments below root: yields (target node, op, value node|None, stmt node).
    op is '=', '+=', ..., '++', '--'."""
    for n in root.walk():
        if n.k == 'BinaryOperator' and n.o == '=' and len(n.c) == 2:
            yield n.c[0], '=', n.c[1], n
        elif n.k == 'CompoundAssignOperator' and len(n.c) == 2:
            yield n.c[0], n.o, n.c[1], n
        elif n.k == 'UnaryOperator' and n.o in ('++', '--') and n.c:
            yield n.c[0], n.o, None, n
        elif n.k == 'CXXOperatorCallExpr' and n.o in ('=', '+=', '-=', '|=', '&=', '^=') and len(n.c) == 2:
            yield n.c[0], n.o, n.c[1], n
        elif n.k == 'CXXOperatorCallExpr' and n.o in ('++', '--') and n.c:
            yield n.c[0], n.o, None, n


def target_name(t):
    """name of the variable / field a store target designates (through casts, *, [], .)"""
    t = strip_casts(t)
    while t is not None:
        if t.k in REF_KINDS:
            return t.n
        if t.k == 'ArraySubscriptExpr' or (t.k == 'UnaryOperator' and t.o == '*') or (t.k == 'CXXOperatorCallExpr' and t.o in ('[]', '*')):
            t = strip_casts(t.c[0]) if t.c else None
            continue
        return None
    return None


def base_object(n):
    """for a member call / member access: the node of the object expression"""
    if n.d.get('call'):
        cal = n.callee()
        if cal is not None and cal.k in ('MemberExpr', 'CXXDependentScopeMemberExpr', 'UnresolvedMemberExpr') and cal.c:
            return cal.c[0]
        return None
    if n.k in ('MemberExpr', 'CXXDependentScopeMemberExpr', 'UnresolvedMemberExpr') and n.c:
        return n.c[0]
    return None


def enclosing_stmt(n):
    """nearest ancestor that is a statement in a compound (child of CompoundStmt / then / else / body)"""
    p = n
    while p.parent is not None and p.parent.k not in ('CompoundStmt', 'IfStmt', 'ForStmt', 'WhileStmt', 'DoStmt', 'CaseStmt', 'DefaultStmt', 'SwitchStmt', 'CXXForRangeStmt'):
        p = p.parent
    return p


def field_stores(facts, field, cls_prefix=None):
    """every store to a field of that name in the analysed functions: yields (fn, target, op, value, stmt)"""
    for fn in facts.functions:
        if cls_prefix and not fn.q.startswith(cls_prefix):
            continue
        for tgt, op, val, st in stores(fn.body):
            if target_name(tgt) == field:
                yield fn, tgt, op, val, st
        for name, init in fn.inits:
            if name == field:
                yield fn, None, 'init', init, init


def is_toggle_of(val, name):
    v = strip_casts(val)
    return v is not None and v.k == 'UnaryOperator' and v.o == '!' and is_name(v.c[0], name)


def mentions(n, name):
    if n is None or isinstance(n, int):
        return False
    return any(x.k in REF_KINDS and x.n == name for x in n.walk())


def variants(facts, q, chk=None, need_pattern=True, file=None):
    """all analysed variants (template pattern, instantiations, plain) of a function. Variants for which clang cannot build a CFG
    (range-based for over a dependent range in a template pattern) are left out; the rule then needs at least one instantiation."""
    fns = facts.fns(q, file=file)
    if chk is not None and need_pattern:
        chk.require(any(f.kind in ('pattern', 'plain') for f in fns), 'anchor %s not found' % q)
    ok = [f for f in fns if f._cfg]
    if chk is not None and len(ok) != len(fns):
        chk.note('%s: clang builds no CFG for the template pattern (dependent range-for); decided on %d instantiation(s)' % (q, len(ok)))
        chk.require(bool(ok), 'no variant of %s has a CFG (no instantiation in the analysis set)' % q)
    return ok


MISSING_LOCALS = []      # (function, name): frozen local variable names a rule looked for and that do not exist (renamed code)


def local_init(fn, name, optional=False):
    """initialiser of the local variable `name` (None if not found or not unique).
    Rules look locals up by the name they have in today's source; when no such variable exists at all the lookup is
    recorded and the check ends as analysis-broken (unrecognised idiom) instead of reporting a violation."""
    ds = fn.body.find(lambda n: n.k == 'VarDecl' and n.n == name)
    if not ds and not optional and isinstance(name, str) and not any(p.get('n') == name for p in fn.params):
        MISSING_LOCALS.append((fn.q, name))
    if len(ds) != 1 or not ds[0].c:
        return None
    return strip_casts(ds[0].c[0])


def precedes(fn, a, b):
    """a is evaluated before b on every path that reaches b"""
    oa, ob = fn.node_order(a), fn.node_order(b)
    if oa is None or ob is None:
        return False
    if oa[0] == ob[0]:
        return oa[1] < ob[1]
    return fn.dominates(oa[0], ob[0])


def member_calls(root, obj_name, method=None):
    """calls obj_name.method(...)"""
    out = []
    for c in root.calls(method):
        o = base_object(c)
        if o is not None and is_name(o, obj_name):
            out.append(c)
    return out


def ret_value(r):
    return strip_casts(r.c[0]) if r.c else None


def ctor_sites(facts, cls_short):
    """construction sites `Cls<...> var( args )` of a class by its short name: yields (fn, vardecl, [arg nodes])"""
    for fn in facts.functions:
        for d in fn.body.find(lambda n: n.k == 'VarDecl' and n.d.get('tn') == cls_short):
            if not d.c:
                continue
            init = d.c[0]
            if init.k == 'ParenListExpr' or init.k == 'InitListExpr':
                yield fn, d, [strip_casts(x) for x in init.c]
            elif init.d.get('ctor'):
                yield fn, d, [strip_casts(x) for x in init.args()]


def field_ctor_param(facts, cls_q, field):
    """index of the constructor parameter a field is initialised from (constructors of class cls_q), or None"""
    short = cls_q.split('::')[-1]
    for fn in facts.fns(cls_q + '::' + short):
        for name, init in fn.inits:
            if name == field:
                i = strip_casts(init)
                # `field_( param )` appears as a ParenListExpr / ctor call / plain ref
                refs = [x for x in i.walk() if x.k in REF_KINDS]
                for r in refs:
                    for idx, p in enumerate(fn.params):
                        if p['n'] == r.n:
                            return idx
    return None


def as_binop(n):
    """(op, lhs, rhs) for a built-in or overloaded binary operator node, else None"""
    n = strip_casts(n)
    if n is None or isinstance(n, int):
        return None
    if n.k in ('BinaryOperator', 'CompoundAssignOperator') and len(n.c) == 2:
        return n.o, strip_casts(n.c[0]), strip_casts(n.c[1])
    if n.k == 'CXXOperatorCallExpr' and len(n.c) == 2 and n.o not in ('()', '[]'):
        return n.o, strip_casts(n.c[0]), strip_casts(n.c[1])
    return None


def enclosing_ifs(n):
    """IfStmt ancestors whose then/else branch contains n: yields (ifstmt, 'then'|'else')"""
    prev = n
    for a in n.ancestors():
        if a.k == 'IfStmt':
            if prev.r in ('then', 'else'):
                yield a, prev.r
        prev = a


def must_hold(node):
    """conditions that the syntax forces to have a known outcome whenever `node` is evaluated: the left operands of enclosing && / ||,
    the conditions of enclosing if / ?: branches -> list of (cond node, outcome)"""
    out = []
    prev = node
    for a in node.ancestors():
        if a.k == 'BinaryOperator' and a.o in ('&&', '||') and len(a.c) == 2 and prev is a.c[1]:
            out.append((a.c[0], a.o == '&&'))
        elif a.k == 'IfStmt' and prev.r in ('then', 'else'):
            out.append((a.child('cond'), prev.r == 'then'))
        elif a.k == 'ConditionalOperator' and len(a.c) == 3 and prev is not a.c[0]:
            out.append((a.c[0], prev is a.c[1]))
        prev = a
    return out


def feasible_values(conds, name, values):
    """subset of the enumerators `values` ({name: int}) of variable `name` under which none of the (cond, outcome) pairs is refuted
    (three valued folding: everything that is not a comparison of `name` with a constant is unknown)"""
    from .dlist import fold
    ok = []
    for en, v in values.items():
        good = True
        for cond, outcome in conds:
            env = dict(values)
            env[name] = v
            r = fold(cond, env)
            if r is not None and bool(r) != outcome:
                good = False
                break
        if good:
            ok.append(en)
    return ok
