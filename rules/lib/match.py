"""Matching helpers over expression trees and branch conditions."""
from .facts import Node, REF_KINDS

NEG = {'==': '!=', '!=': '==', '<': '>=', '>=': '<', '>': '<=', '<=': '>'}
SWAP = {'==': '==', '!=': '!=', '<': '>', '>': '<', '<=': '>=', '>=': '<='}
CMP = set(NEG)


CAST_KINDS = ('CXXStaticCastExpr', 'CStyleCastExpr', 'CXXFunctionalCastExpr', 'CXXReinterpretCastExpr', 'CXXConstCastExpr')
# calls that read state without changing it: a local initialised from them may be looked through
PURE_CALLS = {'header', 'size', 'state', 'empty', 'zero', 'begin', 'end', 'data', 'min', 'max', 'usec', 'connection_event_counter', 'negotiated_mtu', 'client_mtu', 'server_mtu',
              'is_random', 'is_encrypted', 'read_16bit', 'read_32bit', 'read_handle', 'bits', 'remote_address', 'local_address', 'client_configurations', 'security_attributes',
              'first_index_by_handle', 'handle_by_index', 'index_by_handle', 'strlen', 'sizeof', 'get_io_capabilities', 'has_oob_data_for_remote_device', 'pdu_length', 'data_channel_pdu_memory_size',
              'first_channel_selected', 'time_since_last_event', 'current_channel_index', 'is_in_white_list', 'peripheral_latency_feature', 'more_than_one', 'next_end', 'flags', 'at', 'lesc_pairing_algorithm', 'legacy_pairing_algorithm', 'first_channel_index'}
_LOCALS = {}


def strip_casts_raw(n):
    """strip explicit casts and value-preserving single-argument constructions (copies / conversions)"""
    while n is not None and not isinstance(n, int):
        if n.k in CAST_KINDS and n.c:
            n = n.c[0]
        elif n.d.get('ctor') and len(n.c) == 1 and n.k in ('CXXConstructExpr',):
            n = n.c[0]
        else:
            break
    return n


def _raw_target(t):
    t = strip_casts_raw(t)
    while t is not None:
        if t.k in REF_KINDS:
            return t.n
        if t.k == 'ArraySubscriptExpr' or (t.k == 'UnaryOperator' and t.o == '*') or (t.k == 'CXXOperatorCallExpr' and t.o in ('[]', '*')):
            t = strip_casts_raw(t.c[0]) if t.c else None
            continue
        return None
    return None


def _local_table(fn):
    """single-assignment locals of fn whose initialiser is a pure expression: {name: initialiser node}.
    A reference to such a local denotes its initialiser (`const bool fresh = a == b; if ( fresh )` is `if ( a == b )`)."""
    key = id(fn)
    t = _LOCALS.get(key)
    if t is not None:
        return t
    t = {}
    _LOCALS[key] = t
    body = fn.body
    decls = {}
    written = set()
    wlines = {}
    uses = {}

    wnodes = {}
    unodes = {}

    def w(name, line, node=None):
        written.add(name)
        wlines.setdefault(name, []).append(line)
        if node is not None:
            wnodes.setdefault(name, []).append(node)
    for n in body.walk():
        if n.k == 'VarDecl' and n.n:
            decls.setdefault(n.n, []).append(n)
        if n.k == 'DeclRefExpr' and n.d.get('local') and n.n:
            uses.setdefault(n.n, []).append(n.l)
            unodes.setdefault(n.n, []).append(n)
        if n.k == 'BinaryOperator' and n.o == '=' and len(n.c) == 2:
            w(_raw_target(n.c[0]), n.l, n)
        elif n.k == 'CompoundAssignOperator' and n.c:
            w(_raw_target(n.c[0]), n.l, n)
        elif n.k == 'UnaryOperator' and n.o in ('++', '--') and n.c:
            w(_raw_target(n.c[0]), n.l, n)
        elif n.k == 'CXXOperatorCallExpr' and n.o in ('=', '+=', '-=', '|=', '&=', '^=', '++', '--') and n.c:
            w(_raw_target(n.c[0]), n.l, n)
        elif n.k == 'UnaryOperator' and n.o == '&' and n.c and strip_casts_raw(n.c[0]).k in REF_KINDS and strip_casts_raw(n.c[0]).d.get('local'):
            w(strip_casts_raw(n.c[0]).n, n.l)      # address taken: may be written through the pointer
    has_loop = any(n.k in ('ForStmt', 'WhileStmt', 'DoStmt', 'CXXForRangeStmt', 'GotoStmt') for n in body.walk())
    for name, ds in decls.items():
        if len(ds) != 1 or not ds[0].c or name in written:
            continue
        d = ds[0]
        ty = d.t or ''
        if '&' in ty and 'const' not in ty:
            continue                                      # non-const reference: an alias that may be written through
        if '[' in ty:
            continue                                      # arrays are storage, not values
        init = d.c[0]
        if init.k in ('InitListExpr', 'LambdaExpr', 'CXXConstructExpr') and not (init.k == 'CXXConstructExpr' and len(init.c) == 1):
            continue
        ok = True
        for x in init.walk():
            if x.k == 'LambdaExpr':
                ok = False
            elif x.d.get('call') and x.k not in ('CXXConstructExpr', 'CXXTemporaryObjectExpr') and not (x.k == 'CXXOperatorCallExpr' and x.o in ('[]', '*', '==', '!=', '<', '>', '<=', '>=', '+', '-', '&', '|', '!')):
                if x.d.get('cn') not in PURE_CALLS:
                    ok = False
            elif x.k in REF_KINDS and not x.d.get('local') and x.d.get('dk') not in ('Function', 'EnumConstant', 'CXXMethod') and x.d.get('r') != 'callee' and x.n in written:
                # reads a member / global that this function also writes: fine only if every such write comes after the last use of the local
                # (the flag then still says what it said when it was tested) and the function has no loop
                last_use = max(uses.get(name, [d.l]))
                if has_loop:
                    ok = False
                elif not all(l > last_use or l < d.l for l in wlines.get(x.n, [])):
                    # a write between the declaration and a use (in line order) matters only if control can flow from the write to that use:
                    # a write in one branch of an if / else-if chain never reaches the test of a later branch
                    ok = _writes_cannot_reach_uses(fn, [wn for wn in wnodes.get(x.n, []) if d.l <= wn.l <= last_use], unodes.get(name, []))
            if not ok:
                break
        if ok:
            t[name] = init
    return t


def _writes_cannot_reach_uses(fn, writes, uses):
    try:
        for wn in writes:
            wb = fn.block_of(wn)
            if wb is None:
                return False
            for u in uses:
                ub = fn.block_of(u)
                if ub is None:
                    return False
                if ub == wb:
                    ow, ou = fn.node_order(wn), fn.node_order(u)
                    if ow is None or ou is None or ow[1] < ou[1]:
                        return False
                elif fn.paths_avoiding([x for x in fn.blocks[wb].succ if x >= 0], ub, set()):
                    return False
        return True
    except Exception:
        return False


def resolve_local(n):
    """initialiser of the single-assignment pure local that n names (else None)"""
    if n is None or isinstance(n, int) or n.k != 'DeclRefExpr' or not n.d.get('local') or n.fn is None:
        return None
    try:
        return _local_table(n.fn).get(n.n)
    except Exception:
        return None


def strip_casts(n):
    """strip explicit casts, parentheses and value-preserving single-argument constructions (copies / conversions)"""
    while n is not None and not isinstance(n, int):
        if n.k in CAST_KINDS and n.c:
            n = n.c[0]
        elif n.d.get('ctor') and len(n.c) == 1 and n.k in ('CXXConstructExpr',):
            n = n.c[0]
        elif n.k == 'ParenExpr' and len(n.c) == 1:
            n = n.c[0]
        else:
            break
    return n


def deep(n):
    """strip_casts, and look through single-assignment locals with a pure initialiser (a named sub-condition, a hoisted
    sub-expression, a renamed copy): the structure-examining helpers (atoms, as_binop, same_expr, cval, lin, mentions) use this"""
    depth = 0
    while n is not None and not isinstance(n, int):
        n = strip_casts(n)
        init = resolve_local(n) if depth < 6 else None
        if init is None:
            break
        depth += 1
        n = init
    return n


def atoms(cond, outcome):
    """atomic relations (lhs node, op, rhs node|int) known to hold when `cond` evaluated to `outcome` (True/False).
    A named sub-condition (single-assignment local with a pure initialiser) stands for its initialiser; the relation with the
    name itself is kept too, so that rules may refer to either."""
    out = []
    if cond is None or not isinstance(outcome, bool):
        return out
    c = strip_casts(cond)
    if c.k == 'UnaryOperator' and c.o == '!':
        return atoms(c.c[0], not outcome)
    if c.k == 'CXXOperatorCallExpr' and c.o == '!' and c.c:
        return atoms(c.c[0], not outcome)
    if c.k == 'BinaryOperator' and c.o == '&&':
        if outcome:
            return atoms(c.c[0], True) + atoms(c.c[1], True)
        return out
    if c.k == 'BinaryOperator' and c.o == '||':
        if not outcome:
            return atoms(c.c[0], False) + atoms(c.c[1], False)
        return out
    if (c.k == 'BinaryOperator' or c.k == 'CXXOperatorCallExpr') and c.o in CMP and len(c.c) == 2:
        op = c.o if outcome else NEG[c.o]
        l, r = strip_casts(c.c[0]), strip_casts(c.c[1])
        # `flag == false`, `flag != 0` with a named sub-condition
        for a, b in ((l, r), (r, l)):
            if op in ('==', '!=') and b.v is not None and not b.c and b.v in (0, 1):
                init = resolve_local(a)
                if init is not None and _condition_like(init):
                    return [(l, op, r)] + atoms(init, (op == '==') == bool(b.v))
        if _const_like(l) and not _const_like(r):
            l, r, op = r, l, SWAP[op]              # constants and enumerators on the right: `success != rc` reads `rc != success`
        out.append((l, op, r))
        return out
    out.append((c, '!=' if outcome else '==', 0))
    init = resolve_local(c)
    if init is not None and _condition_like(init):
        out.extend(atoms(init, outcome))
    return out


def _const_like(n):
    if isinstance(n, int):
        return True
    n = strip_casts(n)
    return n is not None and ((n.v is not None and not n.c) or n.d.get('dk') == 'EnumConstant' or n.k in ('CXXNullPtrLiteralExpr', 'UnaryExprOrTypeTraitExpr', 'CXXBoolLiteralExpr', 'IntegerLiteral'))


def _condition_like(n):
    n = strip_casts(n)
    return n is not None and ((n.k == 'BinaryOperator' and n.o in CMP | {'&&', '||', '&'}) or (n.k == 'UnaryOperator' and n.o == '!') or (n.k == 'CXXOperatorCallExpr' and n.o in CMP | {'!'})
                              or n.d.get('call') or resolve_local(n) is not None)


def _expand_local_flags(fn, ats, depth=0):
    """a test of a const local flag (`const bool fresh = a == b; if ( fresh )`) also tells what its initialiser says, provided the
    initialiser reads only locals/parameters/constants that are not written after the declaration"""
    out = []
    for l, op, r in ats:
        if depth < 3 and isinstance(r, int) and r == 0 and op in ('!=', '==') and not isinstance(l, int) and l.k in REF_KINDS and l.d.get('local'):
            ds = fn.body.find(lambda n: n.k == 'VarDecl' and n.n == l.n)
            if len(ds) == 1 and ds[0].c and (ds[0].t or '').startswith('const'):
                init = strip_casts(ds[0].c[0])
                names = {x.n for x in init.walk() if x.k in REF_KINDS and x.v is None and x.d.get('dk') != 'Function' and x.d.get('r') != 'callee'}
                pure = all(x.d.get('local') or x.v is not None or x.d.get('dk') in ('Function', 'EnumConstant') or x.d.get('r') == 'callee' for x in init.walk() if x.k in REF_KINDS) and not any(x.d.get('call') for x in init.walk())
                written = any(target_name(tgt) in names and st.l >= ds[0].l for tgt, o2, val, st in stores(fn.body))
                if pure and not written and init.k in ('BinaryOperator', 'UnaryOperator', 'ParenExpr'):
                    ex = atoms(init, op == '!=')
                    out.extend(ex)
                    out.extend(_expand_local_flags(fn, ex, depth + 1))
    return out


def guard_atoms(fn, node):
    res = []
    for cond, outcome in fn.guards(node):
        if isinstance(outcome, bool):
            res.extend(atoms(cond, outcome))
    return res


def cval(n):
    if isinstance(n, int):
        return n
    if n is None:
        return None
    n = strip_casts(n)
    if n.v is None:
        d = deep(n)
        if d is not None and d is not n and d.v is not None and not d.c:
            return d.v
    return n.v


def is_name(n, name):
    if isinstance(n, int) or n is None:
        return False
    n = strip_casts(n)
    if isinstance(name, (set, frozenset, tuple, list)):
        return n.k in REF_KINDS and n.n in name
    return n.k in REF_KINDS and n.n == name


def norm_atoms(ats, is_subject):
    """orient atoms so that the subject is on the left: yields (subject node, op, other)"""
    for l, op, r in ats:
        if not isinstance(l, int) and is_subject(l):
            yield l, op, r
        elif not isinstance(r, int) and is_subject(r):
            yield r, SWAP[op], l


def lower_bound(ats, is_subject):
    """largest constant c with subject >= c implied by a single atom"""
    lb = None
    for s, op, o in norm_atoms(ats, is_subject):
        c = cval(o)
        if c is None:
            continue
        b = None
        if op == '==':
            b = c
        elif op == '>=':
            b = c
        elif op == '>':
            b = c + 1
        if b is not None and (lb is None or b > lb):
            lb = b
    return lb


def upper_bound(ats, is_subject):
    ub = None
    for s, op, o in norm_atoms(ats, is_subject):
        c = cval(o)
        if c is None:
            continue
        b = None
        if op == '==':
            b = c
        elif op == '<=':
            b = c
        elif op == '<':
            b = c - 1
        if b is not None and (ub is None or b < ub):
            ub = b
    return ub


def has_atom(ats, is_subject, ops, other_pred):
    for s, op, o in norm_atoms(ats, is_subject):
        if op in ops and other_pred(o):
            return True
    return False


def _ptr_form(n):
    """(base, offset node|int) for `p + k`, `&p[k]`, `p` ; (base, index, 'elem') for `p[k]`, `*(p + k)`, `*p`"""
    n = strip_casts(n)
    if n.k == 'UnaryOperator' and n.o == '&' and n.c:
        s2 = strip_casts(n.c[0])
        if s2.k == 'ArraySubscriptExpr' and len(s2.c) == 2:
            return ('ptr', s2.c[0], s2.c[1])
    if n.k == 'BinaryOperator' and n.o == '+' and len(n.c) == 2 and '*' in (n.t or ''):
        return ('ptr', n.c[0], n.c[1])
    if n.k == 'ArraySubscriptExpr' and len(n.c) == 2:
        return ('elem', n.c[0], n.c[1])
    if n.k == 'UnaryOperator' and n.o == '*' and n.c:
        inner = _ptr_form(n.c[0])
        if inner and inner[0] == 'ptr':
            return ('elem', inner[1], inner[2])
        return ('elem', n.c[0], 0)
    return None


def same_expr(a, b, _depth=0):
    """structural equality of two expression trees (names, operators, constants), ignoring casts; named pure locals stand for
    their initialisers; `&p[k]` == `p + k`, `*p` == `p[0]`, operands of commutative operators may be swapped"""
    if isinstance(a, int) or isinstance(b, int):
        return cval(a) is not None and cval(a) == cval(b)
    a = strip_casts(a)
    b = strip_casts(b)
    if a is None or b is None:
        return a is b
    if a.v is not None and b.v is not None and not a.c and not b.c:
        return a.v == b.v
    ka = 'ref' if a.k in REF_KINDS else ('call' if a.d.get('call') else a.k)
    kb = 'ref' if b.k in REF_KINDS else ('call' if b.d.get('call') else b.k)
    if ka == 'ref' and kb == 'ref' and a.n == b.n:
        ca = [x for x in a.c if not (x.k == 'CXXThisExpr')]
        cb = [x for x in b.c if not (x.k == 'CXXThisExpr')]
        if len(ca) == len(cb) and all(same_expr(x, y, _depth) for x, y in zip(ca, cb)):
            return True
    if _depth < 5:
        da, db = deep(a), deep(b)
        if da is not a or db is not b:
            return same_expr(da, db, _depth + 1)
        pa, pb = _ptr_form(a), _ptr_form(b)
        if pa and pb and (pa[0] == pb[0]) and (a.k != b.k or a.o != b.o):
            return same_expr(pa[1], pb[1], _depth + 1) and same_expr(pa[2], pb[2], _depth + 1)
    if ka != kb or a.n != b.n or a.o != b.o or a.d.get('cn') != b.d.get('cn'):
        return False
    ca = [x for x in a.c if not (x.k == 'CXXThisExpr')]
    cb = [x for x in b.c if not (x.k == 'CXXThisExpr')]
    if len(ca) != len(cb):
        return False
    if all(same_expr(x, y, _depth) for x, y in zip(ca, cb)):
        return True
    if a.k == 'BinaryOperator' and a.o in ('+', '*', '&', '|', '^', '==', '!=', '&&', '||') and len(ca) == 2:
        return same_expr(ca[0], cb[1], _depth) and same_expr(ca[1], cb[0], _depth)
    return False


def stores(root):
    """assignments below root: yields (target node, op, value node|None, stmt node).
    op is '=', '+=', ..., '++', '--'. Canonical forms: `x = x + k` is reported as `x += k`, `x += 1` / `x -= 1` as `++` / `--`."""
    for n in root.walk():
        if n.k == 'BinaryOperator' and n.o == '=' and len(n.c) == 2:
            rhs = strip_casts(n.c[1])
            if rhs is not None and rhs.k == 'BinaryOperator' and rhs.o in ('+', '-') and len(rhs.c) == 2 and strip_casts(n.c[0]).k in REF_KINDS:
                if same_expr(rhs.c[0], n.c[0]):
                    yield from _step(n.c[0], rhs.o + '=', rhs.c[1], n)
                    continue
                if rhs.o == '+' and same_expr(rhs.c[1], n.c[0]):
                    yield from _step(n.c[0], '+=', rhs.c[0], n)
                    continue
            yield n.c[0], '=', n.c[1], n
        elif n.k == 'CompoundAssignOperator' and len(n.c) == 2:
            yield from _step(n.c[0], n.o, n.c[1], n)
        elif n.k == 'UnaryOperator' and n.o in ('++', '--') and n.c:
            yield n.c[0], n.o, None, n
        elif n.k == 'CXXOperatorCallExpr' and n.o in ('=', '+=', '-=', '|=', '&=', '^=') and len(n.c) == 2:
            yield n.c[0], n.o, n.c[1], n
        elif n.k == 'CXXOperatorCallExpr' and n.o in ('++', '--') and n.c:
            yield n.c[0], n.o, None, n


def _step(tgt, op, val, n):
    v = strip_casts(val)
    if op in ('+=', '-=') and v is not None and v.v == 1 and not v.c and '*' not in (strip_casts(tgt).t or ''):
        yield tgt, '++' if op == '+=' else '--', None, n
    else:
        yield tgt, op, val, n


def target_name(t):
    """name of the variable / field a store target designates (through casts, *, [], .)"""
    t = strip_casts(t)
    while t is not None:
        if t.k in REF_KINDS:
            return t.n
        if t.k == 'ArraySubscriptExpr' or (t.k == 'UnaryOperator' and t.o == '*') or (t.k == 'CXXOperatorCallExpr' and t.o in ('[]', '*')):
            t = strip_casts(t.c[0]) if t.c else None
            continue
        return None
    return None


def base_object(n):
    """for a member call / member access: the node of the object expression"""
    if n.d.get('call'):
        cal = n.callee()
        if cal is not None and cal.k in ('MemberExpr', 'CXXDependentScopeMemberExpr', 'UnresolvedMemberExpr') and cal.c:
            return cal.c[0]
        return None
    if n.k in ('MemberExpr', 'CXXDependentScopeMemberExpr', 'UnresolvedMemberExpr') and n.c:
        return n.c[0]
    return None


def enclosing_stmt(n):
    """nearest ancestor that is a statement in a compound (child of CompoundStmt / then / else / body)"""
    p = n
    while p.parent is not None and p.parent.k not in ('CompoundStmt', 'IfStmt', 'ForStmt', 'WhileStmt', 'DoStmt', 'CaseStmt', 'DefaultStmt', 'SwitchStmt', 'CXXForRangeStmt'):
        p = p.parent
    return p


def field_stores(facts, field, cls_prefix=None):
    """every store to a field of that name in the analysed functions: yields (fn, target, op, value, stmt)"""
    for fn in facts.functions:
        if cls_prefix and not fn.q.startswith(cls_prefix):
            continue
        for tgt, op, val, st in stores(fn.body):
            if target_name(tgt) == field:
                yield fn, tgt, op, val, st
        for name, init in fn.inits:
            if name == field:
                yield fn, None, 'init', init, init


def is_toggle_of(val, name):
    v = strip_casts(val)
    return v is not None and v.k == 'UnaryOperator' and v.o == '!' and is_name(v.c[0], name)


def mentions(n, name, _depth=0):
    if n is None or isinstance(n, int):
        return False
    for x in n.walk():
        if x.k in REF_KINDS and x.n == name:
            return True
        if _depth < 4:
            init = resolve_local(x)
            if init is not None and mentions(init, name, _depth + 1):
                return True
    return False


def elem_addr(n):
    """(base node, index node | 0) when n is the address of an element: `p + k` (also the loaded form of `&p[k]`), `&a[k]` on a class with
    operator[], or a bare pointer / array name (index 0); None otherwise"""
    n = strip_casts(n)
    if n is None or isinstance(n, int):
        return None
    if n.k in ('BinaryOperator', 'CXXOperatorCallExpr') and n.o == '+' and len(n.c) == 2:
        return (n.c[0], n.c[1])
    if n.k == 'UnaryOperator' and n.o == '&' and n.c:
        x = strip_casts(n.c[0])
        if x.k == 'ArraySubscriptExpr' and len(x.c) == 2:
            return (x.c[0], x.c[1])
        if x.k == 'CXXOperatorCallExpr' and x.o == '[]' and len(x.c) >= 2:
            return (x.c[-2], x.c[-1])
    if n.k in REF_KINDS:
        return (n, 0)
    return None


def as_elem(n):
    """(base node, index node | 0) when n designates an element: `p[k]`, `*(p + k)`, `*p`; None otherwise"""
    n = strip_casts(n)
    if n is None or isinstance(n, int):
        return None
    if n.k == 'ArraySubscriptExpr' and len(n.c) == 2:
        return (n.c[0], n.c[1])
    if n.k == 'CXXOperatorCallExpr' and n.o == '[]' and len(n.c) >= 2:
        return (n.c[-2], n.c[-1])
    if n.k in ('UnaryOperator', 'CXXOperatorCallExpr') and n.o == '*' and n.c:
        inner = strip_casts(n.c[-1])
        if inner.k in ('BinaryOperator', 'CXXOperatorCallExpr') and inner.o == '+' and len(inner.c) == 2:
            return (inner.c[0], inner.c[1])
        return (inner, 0)
    return None


def deep_walk(n, _depth=0):
    """nodes below n, continuing into the initialisers of named pure locals"""
    if n is None or isinstance(n, int):
        return
    for x in n.walk():
        yield x
        if _depth < 4:
            init = resolve_local(x)
            if init is not None:
                yield from deep_walk(init, _depth + 1)


def deep_calls(n, name=None):
    return [x for x in deep_walk(n) if x.is_call(name)]


def variants(facts, q, chk=None, need_pattern=True, file=None):
    """all analysed variants (template pattern, instantiations, plain) of a function. Variants for which clang cannot build a CFG
    (range-based for over a dependent range in a template pattern) are left out; the rule then needs at least one instantiation."""
    fns = facts.fns(q, file=file)
    if chk is not None and need_pattern:
        chk.require(any(f.kind in ('pattern', 'plain') for f in fns), 'anchor %s not found' % q)
    ok = [f for f in fns if f._cfg]
    if chk is not None and len(ok) != len(fns):
        chk.note('%s: clang builds no CFG for the template pattern (dependent range-for); decided on %d instantiation(s)' % (q, len(ok)))
        chk.require(bool(ok), 'no variant of %s has a CFG (no instantiation in the analysis set)' % q)
    return ok


MISSING_LOCALS = []      # (function, name): frozen local variable names a rule looked for and that do not exist (renamed code)


def local_init(fn, name, optional=False):
    """initialiser of the local variable `name` (None if not found or not unique).
    Rules look locals up by the name they have in today's source; when no such variable exists at all the lookup is
    recorded and the check ends as analysis-broken (unrecognised idiom) instead of reporting a violation."""
    ds = fn.body.find(lambda n: n.k == 'VarDecl' and n.n == name)
    if not ds and not optional and isinstance(name, str) and not any(p.get('n') == name for p in fn.params):
        MISSING_LOCALS.append((fn.q, name))
    if len(ds) != 1 or not ds[0].c:
        return None
    return strip_casts(ds[0].c[0])


def precedes(fn, a, b):
    """a is evaluated before b on every path that reaches b"""
    oa, ob = fn.node_order(a), fn.node_order(b)
    if oa is None or ob is None:
        return False
    if oa[0] == ob[0]:
        return oa[1] < ob[1]
    return fn.dominates(oa[0], ob[0])


def member_calls(root, obj_name, method=None):
    """calls obj_name.method(...)"""
    out = []
    for c in root.calls(method):
        o = base_object(c)
        if o is not None and is_name(o, obj_name):
            out.append(c)
    return out


def ret_value(r):
    return strip_casts(r.c[0]) if r.c else None


def ctor_sites(facts, cls_short):
    """construction sites `Cls<...> var( args )` of a class by its short name: yields (fn, vardecl, [arg nodes])"""
    for fn in facts.functions:
        for d in fn.body.find(lambda n: n.k == 'VarDecl' and n.d.get('tn') == cls_short):
            if not d.c:
                continue
            init = d.c[0]
            if init.k == 'ParenListExpr' or init.k == 'InitListExpr':
                yield fn, d, [strip_casts(x) for x in init.c]
            elif init.d.get('ctor'):
                yield fn, d, [strip_casts(x) for x in init.args()]


def field_ctor_param(facts, cls_q, field):
    """index of the constructor parameter a field is initialised from (constructors of class cls_q), or None"""
    short = cls_q.split('::')[-1]
    for fn in facts.fns(cls_q + '::' + short):
        for name, init in fn.inits:
            if name == field:
                i = strip_casts(init)
                # `field_( param )` appears as a ParenListExpr / ctor call / plain ref
                refs = [x for x in i.walk() if x.k in REF_KINDS]
                for r in refs:
                    for idx, p in enumerate(fn.params):
                        if p['n'] == r.n:
                            return idx
    return None


def as_binop(n):
    """(op, lhs, rhs) for a built-in or overloaded binary operator node, else None"""
    n = strip_casts(n)
    if n is None or isinstance(n, int):
        return None
    if n.k in REF_KINDS:
        d = deep(n)
        if d is not None and d is not n and d.k in ('BinaryOperator', 'CXXOperatorCallExpr'):
            n = d
    if n.k in ('BinaryOperator', 'CompoundAssignOperator') and len(n.c) == 2:
        return n.o, strip_casts(n.c[0]), strip_casts(n.c[1])
    if n.k == 'CXXOperatorCallExpr' and len(n.c) == 2 and n.o not in ('()', '[]'):
        return n.o, strip_casts(n.c[0]), strip_casts(n.c[1])
    return None


def enclosing_ifs(n):
    """IfStmt ancestors whose then/else branch contains n: yields (ifstmt, 'then'|'else')"""
    prev = n
    for a in n.ancestors():
        if a.k == 'IfStmt':
            if prev.r in ('then', 'else'):
                yield a, prev.r
        prev = a


def must_hold(node):
    """conditions that the syntax forces to have a known outcome whenever `node` is evaluated: the left operands of enclosing && / ||,
    the conditions of enclosing if / ?: branches -> list of (cond node, outcome)"""
    out = []
    prev = node
    for a in node.ancestors():
        if a.k == 'BinaryOperator' and a.o in ('&&', '||') and len(a.c) == 2 and prev is a.c[1]:
            out.append((a.c[0], a.o == '&&'))
        elif a.k == 'IfStmt' and prev.r in ('then', 'else'):
            out.append((a.child('cond'), prev.r == 'then'))
        elif a.k == 'ConditionalOperator' and len(a.c) == 3 and prev is not a.c[0]:
            out.append((a.c[0], prev is a.c[1]))
        prev = a
    return out


def feasible_values(conds, name, values):
    """subset of the enumerators `values` ({name: int}) of variable `name` under which none of the (cond, outcome) pairs is refuted
    (three valued folding: everything that is not a comparison of `name` with a constant is unknown)"""
    from .dlist import fold
    ok = []
    for en, v in values.items():
        good = True
        for cond, outcome in conds:
            env = dict(values)
            env[name] = v
            r = fold(cond, env)
            if r is not None and bool(r) != outcome:
                good = False
                break
        if good:
            ok.append(en)
    return ok
