"""Golden structure of the functions the rules were confirmed against (spec/golden_functions.json).

When a rule instance fails, the verdict depends on how far the function has moved from the code the rule's idiom table was
confirmed on (by reading): a small local edit that breaks the rule is a violation; a function that was restructured beyond the
idioms the rule knows is `analysis broken: idiom not recognised` (exit 2), never a violation. The distance is the number of
changed tokens of the function's normalised AST token sequence (difflib opcodes)."""
import os, json, difflib, gzip

VERIF = os.path.dirname(os.path.dirname(os.path.dirname(os.path.abspath(__file__))))
PATH = os.path.join(VERIF, 'spec', 'golden_functions.json.gz')
_GOLD = None


def tokens(fn):
    out = []
    for n in fn.body.walk():
        if n.k in ('ParenExpr', 'ImplicitCastExpr', 'CompoundStmt', 'DeclStmt', 'ExprWithCleanups', 'MaterializeTemporaryExpr', 'CXXBindTemporaryExpr'):
            continue
        t = n.k
        if n.o:
            t += ':' + str(n.o)
        if n.n and n.k not in ('VarDecl',):
            t += ':' + str(n.n)
        elif n.k == 'VarDecl':
            t += ':' + str(n.n)
        if n.v is not None and not n.c:
            t += '=' + str(n.v)
        out.append(t)
    return out


def key(fn):
    return '%s|%d|%s' % (fn.q, len(fn.params), os.path.basename(fn.file or ''))


def load():
    global _GOLD
    if _GOLD is None:
        try:
            with gzip.open(PATH, 'rt') as f:
                _GOLD = json.load(f)
        except Exception:
            _GOLD = {}
    return _GOLD


def distance(fn):
    """(changed tokens, golden length) against the closest golden variant of fn; None if fn is unknown to the golden file"""
    g = load().get(key(fn))
    if not g:
        return None
    cur = tokens(fn)
    best = None
    for ref in g:
        sm = difflib.SequenceMatcher(None, ref, cur, autojunk=False)
        d = 0
        for tag, i1, i2, j1, j2 in sm.get_opcodes():
            if tag != 'equal':
                d += max(i2 - i1, j2 - j1)
        if best is None or d < best[0]:
            best = (d, len(ref))
    return best


def record(functions, path=PATH):
    g = {}
    functions = list(functions)
    primary = {key(fn) for fn in functions if fn.kind in ('pattern', 'plain')}
    for fn in functions:
        if '/tests/' in (fn.file or '') or '/witness/' in (fn.file or ''):
            continue
        if fn.kind not in ('pattern', 'plain') and key(fn) in primary:
            continue      # instantiations repeat their pattern; explicit specialisations (no pattern under the key) are recorded
        t = tokens(fn)
        lst = g.setdefault(key(fn), [])
        if t not in lst:
            lst.append(t)
    with gzip.open(path, 'wt') as f:
        json.dump(g, f)
    return len(g)
