"""Decision-list table extraction: walks a function's CFG with some parameters bound to constants of a finite
domain and folds the branch conditions (comparisons with constants, &&, ||, !). The function must be a decision
list over those parameters (no loops, no other data): anything else is 'analysis broken'. This is constant folding over
the tree, i.e. the table the code denotes; the code itself is not run."""
from .facts import AnalysisBroken, REF_KINDS
from .match import strip_casts, resolve_local

FACTS = None    # set by a rule module that wants small pure helpers folded through (dlist.FACTS = facts)


def fold(n, env):
    n = strip_casts(n)
    if n is None:
        return None
    if n.k in REF_KINDS and n.n in env:
        return env[n.n]
    if n.k == 'ArraySubscriptExpr' and n.text() in env:
        return env[n.text()]
    if n.k in REF_KINDS and n.v is None:
        init = resolve_local(n)
        if init is not None:
            return fold(init, env)
    if n.v is not None and n.k not in ('BinaryOperator', 'UnaryOperator', 'ConditionalOperator'):
        return n.v
    if n.k == 'UnaryOperator' and n.o == '!':
        v = fold(n.c[0], env)
        return None if v is None else int(not v)
    if n.k == 'BinaryOperator' and len(n.c) == 2:
        if n.o == '&&':
            a = fold(n.c[0], env)
            if a is not None and not a:
                return 0
            b = fold(n.c[1], env)
            if b is not None and not b:
                return 0
            return None if a is None or b is None else 1
        if n.o == '||':
            a = fold(n.c[0], env)
            if a:
                return 1
            b = fold(n.c[1], env)
            if b:
                return 1
            return None if a is None or b is None else 0
        a, b = fold(n.c[0], env), fold(n.c[1], env)
        if a is None or b is None:
            return None
        ops = {'==': lambda: a == b, '!=': lambda: a != b, '<': lambda: a < b, '<=': lambda: a <= b, '>': lambda: a > b, '>=': lambda: a >= b,
               '&': lambda: a & b, '|': lambda: a | b, '+': lambda: a + b, '-': lambda: a - b}
        if n.o in ops:
            return int(ops[n.o]())
    if n.k == 'ConditionalOperator':
        c = fold(n.c[0], env)
        if c is None:
            return None
        return fold(n.c[1] if c else n.c[2], env)
    if n.v is not None:
        return n.v
    if n.d.get('call') and FACTS is not None:
        # a small pure helper `return <expression over its parameters>;`: its value under the folded arguments
        cal = n.callee()
        name = n.cn or (cal.n if cal is not None and not isinstance(cal, str) else None)
        args = n.args()
        for f in FACTS.functions:
            if f.name != name or f.kind not in ('pattern', 'plain') or len(f.params) != len(args) or not f.body:
                continue
            rets = f.returns()
            if len(rets) != 1 or f.body.find(lambda x: x.k in ('ForStmt', 'WhileStmt', 'DoStmt', 'IfStmt', 'SwitchStmt')) or not rets[0].c:
                continue
            vals = [fold(a, env) for a in args]
            if any(v is None for v in vals):
                return None
            return fold(rets[0].c[0], {p['n']: v for p, v in zip(f.params, vals)})
    return None


def evaluate(fn, env, max_steps=200):
    """follow the CFG under env; returns the ReturnStmt node reached (or None when the exit is reached without return)"""
    blocks = fn.blocks
    b = fn.entry
    for _ in range(max_steps):
        blk = blocks[b]
        for eid in blk.elems:
            node = fn.nodes.get(eid)
            if node is not None and node.k == 'ReturnStmt':
                return node
        if b == fn.exit:
            return None
        succ = blk.succ
        if blk.cond is not None and len(succ) == 2 and blk.tk != 'SwitchStmt':
            cond = fn.branch_cond(blk)
            v = fold(cond, env)
            if v is None:
                raise AnalysisBroken('%s is not a decision list over %s: cannot fold (%s) at line %d' % (fn.q, sorted(env), cond.text()[:60], cond.l))
            b = succ[0] if v else succ[1]
        elif blk.tk == 'SwitchStmt':
            cond = fn.nodes.get(blk.cond)
            v = fold(cond, env)
            if v is None:
                # allow `switch (local)` where local was initialised from a foldable expression
                raise AnalysisBroken('%s: cannot fold switch condition (%s)' % (fn.q, cond.text()[:60]))
            nxt = None
            dflt = None
            for s in succ:
                if s < 0:
                    continue
                lab = blocks[s].label
                ln = fn.nodes.get(lab) if lab is not None else None
                if ln is not None and ln.k == 'CaseStmt' and ln.v == v:
                    nxt = s
                elif ln is None or ln.k == 'DefaultStmt':
                    dflt = s
            b = nxt if nxt is not None else dflt
            if b is None:
                return None
        else:
            nx = [s for s in succ if s >= 0]
            if len(nx) != 1:
                raise AnalysisBroken('%s: unexpected CFG shape' % fn.q)
            b = nx[0]
    raise AnalysisBroken('%s: decision list does not terminate' % fn.q)


def value_leaf(n, env, depth=0):
    """the expression a (possibly conditional) value denotes under env: folds ?: and looks through named locals; None if undecided"""
    n = strip_casts(n)
    if n is None or depth > 8:
        return None
    if n.k == 'ConditionalOperator':
        c = fold(n.c[0], env)
        if c is None:
            return None
        return value_leaf(n.c[1] if c else n.c[2], env, depth + 1)
    if n.k in REF_KINDS and n.d.get('local'):
        init = resolve_local(n)
        if init is not None:
            return value_leaf(init, env, depth + 1)
    return n
