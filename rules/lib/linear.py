"""Linear forms over expression trees (constants, named symbols, +, -, * by constant), resolving local constants."""
from .match import *


class Lin:
    """linear form: const + sum coef * symbol"""
    def __init__(self, c=0, t=None):
        self.c = c
        self.t = dict(t or {})

    def __add__(self, o):
        t = dict(self.t)
        for k, v in o.t.items():
            t[k] = t.get(k, 0) + v
        return Lin(self.c + o.c, {k: v for k, v in t.items() if v})

    def scale(self, k):
        return Lin(self.c * k, {s: v * k for s, v in self.t.items() if v * k})

    def __sub__(self, o):
        return self + o.scale(-1)

    def key(self):
        return (self.c, tuple(sorted(self.t.items())))

    def __eq__(self, o):
        return isinstance(o, Lin) and self.key() == o.key()

    def __repr__(self):
        s = ' + '.join(('%d*%s' % (v, k) if v != 1 else k) for k, v in sorted(self.t.items()))
        return ('%d' % self.c if not s else ('%s + %d' % (s, self.c) if self.c else s))


def lin(fn, n, depth=0):
    """linear form of an expression, resolving local constants; None if not linear"""
    n = strip_casts(n)
    if n is None or depth > 8:
        return None
    if isinstance(n, int):
        return Lin(n)
    if n.v is not None and n.k not in ('BinaryOperator',):
        return Lin(n.v)
    if n.k == 'SizeOfPackExpr' or (n.k == 'UnaryExprOrTypeTraitExpr'):
        return Lin(n.v) if n.v is not None else Lin(0, {'sizeof(' + n.text()[:30] + ')': 1})
    if n.k in REF_KINDS:
        init = local_init(fn, n.n, optional=True) if n.d.get('local') else None
        if init is not None and (init.v is not None):
            return Lin(init.v)
        r = resolve_local(n)
        if r is not None:
            x = lin(fn, r, depth + 1)
            if x is not None:
                return x
        return Lin(0, {n.n: 1})
    b = as_binop(n)
    if b:
        l, r = lin(fn, b[1], depth + 1), lin(fn, b[2], depth + 1)
        if l is None or r is None:
            return None
        if b[0] == '+':
            return l + r
        if b[0] == '-':
            return l - r
        if b[0] == '*':
            if not l.t:
                return r.scale(l.c)
            if not r.t:
                return l.scale(r.c)
    if n.is_call('strlen'):
        return Lin(0, {'strlen': 1})
    return None


