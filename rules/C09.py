"""C09 Client characteristic configuration is per connection and exact (structure)."""
from .lib.match import *
from .lib.witness import PRELUDE, run_witness

SELECT = r'^bluetoe::details::client_characteristic_configuration::|^bluetoe::details::client_characteristic_configurations::|^bluetoe::details::generate_attribute::access$|^bluetoe::server::notification_subscription_changed$'
UNITS = lambda u: u in ('w_inst_att',) or u.startswith('t_char') or u.startswith('t_att_notification')
CC = 'bluetoe::details::client_characteristic_configuration::'
EXACT = ('cccd-indices-permutation',)   # verdicts computed from the meaning of the code (compiler / folding / symbolic terms): not gated by the golden structure
META = {
    'level': 'packing shape: flags(i) / flags(i, v) address byte i / D and bit offset (i % D) * B with a mask of B bits, D * B == 8, the setter keeps all other bits (old & ~mask) and masks the new value with 0x03, '
             'the store is sized (Size * B + 7) / 8 and lives in the per-connection data; the CCCD attribute uses one position (index_of<ClientCharacteristicIndex, CCCDIndices>) for every flags() call and '
             'invokes the subscription-changed callback only under old != new; compiler-evaluated witness: cccd_indices is a permutation of 0..N-1 for declarations with 1, 5 and 9 CCCDs with and without '
             'priorities (distinct CCCDs never share a position). Histories of writes are not decided.',
    'technique': 'static store-shape / guarded-by rules over clang AST facts + static_assert permutation witness evaluated by clang',
}


def run(chk, facts, tier):
    chk.rule('packing-shape', 'client_characteristic_configuration: get = (data_[i / D] >> (i % D) * B) & mask, set = (data_[i / D] & ~(mask << shift)) | ((v & 0x03) << shift), D * B == 8, mask == (1 << B) - 1', floor=2)
    chk.rule('one-position-per-cccd', 'the CCCD access passes the same cccd_position (index_of<ClientCharacteristicIndex, CCCDIndices> or ClientCharacteristicIndex for an empty list) to every flags() call', floor=1)
    chk.rule('callback-iff-changed', 'notification_subscription_changed is called only under old_config != flags(cccd_position) after the store', floor=1)
    chk.rule('partial-write-keeps-rest', 'the CCCD write merges the received octets into a scratch copy preloaded with the stored flags (write_16bit(scratch, flags(cccd_position)) before the copy) and stores read_16bit(scratch): octets the client did not send keep their value', floor=1)
    chk.rule('cccd-indices-permutation', 'cccd_indices is a permutation of 0..N-1 (witness declarations with 1 / 5 / 9 CCCDs, with and without outgoing priorities; evaluated by the compiler)', floor=4)
    consts = {}
    for c in facts.cls('bluetoe::details::client_characteristic_configuration'):
        for s in c['statics']:
            if s.get('v') is not None:
                consts[s['n']] = s['v']
    B = consts.get('bits_per_config')
    chk.require(B is not None, 'bits_per_config not found')
    D = None
    for fn in variants(facts, CC + 'shift', chk):
        b = as_binop(ret_value(fn.returns()[0])) if fn.returns() else None
        ok = b is not None and b[0] == '*' and (cval(b[2]) == B or is_name(b[2], 'bits_per_config')) and as_binop(b[1]) is not None and as_binop(b[1])[0] == '%' and is_name(as_binop(b[1])[1], fn.params[0]['n'])
        if ok:
            D = cval(as_binop(b[1])[2])
            ok = D is not None and B is not None and D * B == 8
        chk.instance('packing-shape', fn, 'shift(i) = (i %% %s) * %s' % (D, B), ok, '' if ok else 'bit offset of a configuration does not tile a byte', key='shift')
    for fn in variants(facts, CC + 'mask', chk):
        b = as_binop(ret_value(fn.returns()[0])) if fn.returns() else None
        ok = b is not None and b[0] == '<<' and cval(b[1]) == (1 << (B or 0)) - 1 and b[2].is_call('shift') and is_name(b[2].args()[0], fn.params[0]['n'])
        chk.instance('packing-shape', fn, 'mask(i) = 0x3 << shift(i)', ok, '' if ok else 'mask does not cover exactly one configuration', key='mask')
    for fn in variants(facts, CC + 'flags', chk):
        i = fn.params[0]['n']
        def byte_index(n):
            n = strip_casts(n)
            return n.k == 'ArraySubscriptExpr' and is_name(n.c[0], 'data_') and as_binop(n.c[1]) is not None and as_binop(n.c[1])[0] == '/' and is_name(as_binop(n.c[1])[1], i) and cval(as_binop(n.c[1])[2]) == D
        if len(fn.params) == 1:
            v = ret_value(fn.returns()[0]) if fn.returns() else None
            b = as_binop(v)
            ok = b is not None and b[0] == '&' and cval(b[2]) == (1 << (B or 0)) - 1 and as_binop(b[1]) is not None and as_binop(b[1])[0] == '>>' and byte_index(as_binop(b[1])[1]) and as_binop(b[1])[2].is_call('shift')
            chk.instance('packing-shape', fn, 'flags(i) = (data_[i / %s] >> shift(i)) & 0x3' % D, ok, '' if ok else 'getter reads other bits than the setter writes', key='get')
        else:
            st = [(tgt, val) for tgt, op, val, s in stores(fn.body) if op == '=']
            ok = len(st) == 1 and byte_index(st[0][0])
            if ok:
                b = as_binop(st[0][1])
                ok = b is not None and b[0] == '|'
                if ok:
                    keep, new = as_binop(b[1]), as_binop(b[2])
                    ok = keep is not None and keep[0] == '&' and byte_index(keep[1]) and strip_casts(keep[2]).k == 'UnaryOperator' and strip_casts(keep[2]).o == '~' and strip_casts(keep[2]).c[0].is_call('mask')
                    ok = ok and new is not None and new[0] == '<<' and new[2].is_call('shift') and as_binop(new[1]) is not None and as_binop(new[1])[0] == '&' and is_name(as_binop(new[1])[1], fn.params[1]['n']) and cval(as_binop(new[1])[2]) == 3
            chk.instance('packing-shape', fn, 'flags(i, v): data_[i / %s] = (old & ~mask(i)) | ((v & 0x03) << shift(i))' % D, ok, '' if ok else 'a CCCD write changes bits of another CCCD or stores more than the two defined bits', key='set')
    # CCCD attribute
    for fn in facts.fns('bluetoe::details::generate_attribute::access'):
        fl = [c for c in fn.body.calls('flags') if mentions(c, 'client_config')]
        if not fl:
            continue
        ok = all(is_name(c.args()[0], 'cccd_position') for c in fl)
        if fn.kind == 'pattern':
            pos = local_init(fn, 'cccd_position')
            idx = local_init(fn, 'cccd_position_index')
            ok = ok and pos is not None and pos.k == 'ConditionalOperator' and mentions(pos, 'cccd_position_index') and mentions(pos, 'ClientCharacteristicIndex') and idx is not None and 'index_of' in (idx.d.get('qual') or idx.text())
        chk.instance('one-position-per-cccd', fn, '%d flags() calls use cccd_position' % len(fl), ok, '' if ok else 'reads and writes of one CCCD address different positions', key='cccd position')
        cb = fn.body.calls('notification_subscription_changed')
        setter = [c for c in fl if len(c.args()) == 2]
        ok = len(cb) == 1
        if ok:
            ats = guard_atoms(fn, cb[0])
            ok = any(op == '!=' and is_name(l, 'old_config') and not isinstance(r, int) and strip_casts(r).is_call('flags') for l, op, r in ats)
            setter = [c for c in fl if len(c.args()) == 2]
            ok = ok and len(setter) == 1 and precedes(fn, setter[0], cb[0])
            old = local_init(fn, 'old_config')
            ok = ok and old is not None and old.is_call('flags') and precedes(fn, old, setter[0])
        chk.instance('callback-iff-changed', fn, 'notification_subscription_changed only if the stored value changed', ok, '' if ok else 'callback not tied to a change of the stored value', key='callback')
        # the stored value is rebuilt from a scratch copy the written bytes are merged into: the copy has to start as the stored flags
        if len(setter) == 1:
            v = strip_casts(setter[0].args()[1])
            src_ = elem_addr(v.args()[0]) if v.is_call('read_16bit') and v.args() else None
            okm, why = src_ is not None and cval(src_[1]) == 0 and strip_casts(src_[0]).d.get('local'), 'the stored flags are not read from a local scratch value'
            if okm:
                buf = strip_casts(src_[0]).n
                pre = [c for c in fn.body.calls('write_16bit') if len(c.args()) == 2 and elem_addr(c.args()[0]) is not None and is_name(elem_addr(c.args()[0])[0], buf) and cval(elem_addr(c.args()[0])[1]) == 0]
                mer = [c for c in fn.body.calls('copy') if c.args() and elem_addr(c.args()[-1]) is not None and is_name(elem_addr(c.args()[-1])[0], buf)]
                def stored(n):
                    n = deep(n)
                    return n is not None and n.is_call('flags') and len(n.args()) == 1 and is_name(n.args()[0], 'cccd_position')
                okm = len(pre) == 1 and len(mer) == 1 and stored(pre[0].args()[1]) and precedes(fn, pre[0], mer[0]) and precedes(fn, mer[0], setter[0])
                why = 'the scratch value the written bytes are merged into does not start as the stored flags: a write shorter than the value (1 or 0 octets) changes bits the client did not send'
            chk.instance('partial-write-keeps-rest', fn, 'scratch value = stored flags, then written bytes, then stored', okm, '' if okm else why, node=setter[0], key='merge')
    # permutation witness
    src = PRELUDE + '#include "inst_att_decls.hpp"\n'
    obl = []
    for name in ('srv_one_cccd', 'srv_prio', 'srv_nine', 'srv_layout', 'srv_values'):
        src += '''VERIF_ASSERT( "perm:%(n)s", wit::is_permutation< typename wit::%(n)s::cccd_indices >::value );
VERIF_ASSERT( "count:%(n)s", std::tuple_size< typename wit::%(n)s::cccd_indices >::value == wit::%(n)s::number_of_client_configs );
''' % {'n': name}
        obl += [('perm:' + name, name + '::cccd_indices is a permutation of 0..N-1'), ('count:' + name, name + ': one position per CCCD')]
    run_witness(chk, 'cccd-indices-permutation', 'c09_perm', src, obl)
