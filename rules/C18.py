"""C18 PDU ring buffers keep PDUs intact and in FIFO order (structural clauses: bounded regions, writer/reader agreement on the wrap mark, pointer update shapes)."""
from .lib.match import *
from .lib.linear import Lin, lin

SELECT = r'^bluetoe::link_layer::pdu_ring_buffer::|::(default_pdu_layout|encrypted_pdu_layout)::(header|body|data_channel_pdu_memory_size)$'
UNITS = lambda u: u in ('w_inst_ll',) or u.startswith('nrf') or u.startswith('lib_nrf') or u.startswith('t_link_layer_ring')
R = 'bluetoe::link_layer::pdu_ring_buffer::'
META = {
    'level': 'structural clauses of the property, each a necessary condition, decided on pdu_ring_buffer for every ring size and layout (the template pattern is analysed): '
             '(1) every region alloc_front hands out starts at front_ or at the start of the storage and is dominated by the matching size test - strictly below the distance to the read pointer end_ '
             '(front_ == end_ means empty), at most the distance to the end of the storage - so nothing is written outside the storage or over a live PDU; '
             '(2) writer/reader agreement on the wrap mark: push_front writes the mark at the abandoned front_ exactly when the allocation moved away from front_ and `front_ + a < end_of_buffer`, '
             'pop_end wraps exactly when the ring is not empty and (`end_ + b >= end_of_buffer` or the mark is read at end_[b]) with a == b >= 1, so the 2 byte mark is written and read inside the storage and '
             'the reader wraps wherever the writer did; (3) pointer updates: reset sets both pointers to the start and marks it; push_front samples emptiness before moving front_ to pdu.buffer + pdu_length(pdu) '
             'and moves end_ to the PDU only if the ring was empty; pop_end advances end_ by pdu_length(end_) before the wrap test; next_end is empty exactly for front_ == end_ and otherwise the PDU at end_ with its '
             'stored length; pdu_length is the layout\'s memory size of the length field. The inductive FIFO / no-overlap invariant over arbitrary operation histories is not decided.',
    'technique': 'static guarded-by / store-shape / writer-reader agreement rules over clang AST/CFG facts',
}


def pat(facts, name, nparams=None):
    return [f for f in facts.fns(R + name) if f.kind == 'pattern' and (nparams is None or len(f.params) == nparams)]


def plus_const(fn, n, base):
    """n == base + c  -> c (else None)"""
    x = lin(fn, n)
    if x is None:
        return None
    rest = x - Lin(0, {base: 1})
    return rest.c if not rest.t else None


def end_of_storage(fn, n, buf):
    n = strip_casts(n)
    if n.k in REF_KINDS and n.d.get('local'):
        i = local_init(fn, n.n, optional=True)
        return i is not None and end_of_storage(fn, i, buf)
    return lin(fn, n) == Lin(0, {buf: 1, 'Size': 1})


def run(chk, facts, tier):
    chk.rule('alloc-within-free-space', 'alloc_front: each returned region {start, size} has start == front_ or start == buffer and is dominated by the size test for that start: '
             'front_ with end_ > front_: size < end_ - front_; front_ with front_ >= end_: size <= (buffer + Size) - front_; buffer with front_ >= end_: size < end_ - buffer', floor=3)
    chk.rule('wrap-mark-agreement', 'push_front writes the wrap mark at front_ iff front_ != pdu.buffer and front_ + a < buffer + Size; pop_end wraps iff end_ != front_ and (end_ + b >= buffer + Size or end_[b] == wrap_mark); a == b >= 1', floor=2)
    chk.rule('pointer-updates', 'reset / push_front / pop_end / next_end / pdu_length update and read front_ and end_ in the shape described in the level', floor=6)

    chk.rule('layout-agreement', 'every PDU layout: header(p) / header(p, v) read and write the 16 bit word at p; both body() overloads start at the same offset B behind the header; '
             'data_channel_pdu_memory_size(payload) == B + payload, so the ring advances over exactly the bytes a PDU occupies', floor=2)
    layouts = {}
    for fn in facts.functions:
        if fn.kind in ('pattern', 'plain') and fn.cls and fn.cls.split('::')[-1] in ('default_pdu_layout', 'encrypted_pdu_layout'):
            layouts.setdefault(fn.cls, []).append(fn)
    for cls, fns in sorted(layouts.items()):
        probs = []
        offs = set()
        hs = next((c2 for c2 in facts.cls(cls) if True), None)
        hsv = next((st.get('v') for st in (hs['statics'] if hs else []) if st['n'] == 'header_size'), None)
        for fn in fns:
            if fn.name == 'body':
                r = fn.returns()
                il = next((x for x in (ret_value(r[0]).walk() if len(r) == 1 and ret_value(r[0]) is not None else []) if (x.k == 'InitListExpr' or x.d.get('ctor') or x.k == 'CXXConstructExpr') and len(x.c) == 2), None)
                first = strip_casts(il.c[0]) if il is not None else None
                ea = elem_addr(first) if first is not None else None
                if ea is None or isinstance(ea[1], int):
                    probs.append('body(): start is not &pdu.buffer[ offset ]')
                    continue
                sub = first
                o = lin(fn, ea[1])
                if o is None or (o.t and set(o.t) != {'header_size'}):
                    probs.append('body(): offset %s is not a constant' % ea[1].text())
                else:
                    offs.add(o.c + (hsv or 0) * o.t.get('header_size', 0))
            elif fn.name == 'data_channel_pdu_memory_size':
                r = fn.returns()
                o = lin(fn, ret_value(r[0])) if len(r) == 1 else None
                p = fn.params[0]['n']
                if o is None or o.t.get(p) != 1 or set(o.t) - {p, 'header_size'}:
                    probs.append('data_channel_pdu_memory_size is not payload + constant')
                else:
                    offs.add(('mem', o.c + (hsv or 0) * o.t.get('header_size', 0)))
            elif fn.name == 'header' and fn.params and fn.params[0]['t'].replace('const ', '').strip().endswith('uint8_t *'):
                want = 'write_16bit' if len(fn.params) == 2 else 'read_16bit'
                cs = fn.body.calls(want)
                if not (len(cs) == 1 and is_name(cs[0].args()[0], fn.params[0]['n']) and (len(fn.params) == 1 or is_name(cs[0].args()[1], fn.params[1]['n']))):
                    probs.append('header(%s) does not %s the 16 bit word at the start of the PDU' % (', '.join(p['n'] for p in fn.params), want))
                if len(fn.params) == 2:
                    # ... and nothing else: the ring writes its wrap mark through header(p, v) where only the two header bytes are known to lie inside the storage
                    p0 = fn.params[0]['n']
                    extra = [st for tgt, op, val, st in stores(fn.body) if as_elem(tgt) is not None and mentions(as_elem(tgt)[0], p0)]
                    extra += [c for c in fn.body.calls() if c not in cs and any(mentions(a, p0) for a in c.args())]
                    if extra:
                        probs.append('header(%s, ..) writes more than the 16 bit header word (line %d): the ring puts its wrap mark through this function where only two bytes are left in front of the end of the storage' % (p0, extra[0].l))
        body_offs = {o for o in offs if not isinstance(o, tuple)}
        mem = {o[1] for o in offs if isinstance(o, tuple)}
        if len(body_offs) != 1 or len(mem) != 1:
            probs.append('body offsets %s / memory size constants %s: not one of each' % (sorted(body_offs), sorted(mem)))
        elif body_offs != mem:
            probs.append('the body starts %d bytes into the PDU but the memory size of a PDU is payload + %d: the ring advances over %s bytes than the PDU occupies (PDUs overlap / bytes behind the storage are written)' % (
                list(body_offs)[0], list(mem)[0], 'fewer' if list(mem)[0] < list(body_offs)[0] else 'more'))
        if hsv is not None and hsv != 2:
            probs.append('header_size is %s, the link layer header has 2 bytes' % hsv)
        chk.instance('layout-agreement', fns[0], '%s: body offset %s, memory size payload + %s, header_size %s' % (cls.split('::')[-1], sorted(body_offs), sorted(mem), hsv), not probs, '; '.join(probs), key=cls.split('::')[-1])

    # ---- (1) allocation
    for fn in pat(facts, 'alloc_front'):
        buf, size = fn.params[0]['n'], fn.params[1]['n']
        n = 0
        for r in fn.returns():
            il = next((x for x in (ret_value(r).walk() if ret_value(r) is not None else []) if (x.k == 'InitListExpr' or x.d.get('ctor')) and len(x.c) == 2), None)
            chk.require(il is not None, 'alloc_front: return at line %d is not Buffer{ start, size }' % r.l)
            if il is None:
                continue
            start, sz = strip_casts(il.c[0]), strip_casts(il.c[1])
            if cval(sz) == 0 and cval(start) == 0:
                continue
            n += 1
            ats = guard_atoms(fn, r)
            probs = []
            if not is_name(sz, size):
                probs.append('the region is not of the requested size')
            # ordering of the two pointers known here
            split = any((op == '>' and is_name(l, 'end_') and is_name(rr, 'front_')) or (op == '<' and is_name(l, 'front_') and is_name(rr, 'end_')) for l, op, rr in ats if not isinstance(rr, int))
            cont = any((op == '>=' and is_name(l, 'front_') and is_name(rr, 'end_')) or (op == '<=' and is_name(l, 'end_') and is_name(rr, 'front_')) for l, op, rr in ats if not isinstance(rr, int))
            bounds = []
            for l, op, rr in ats:
                if isinstance(rr, int) or not is_name(l, size) or op not in ('<', '<='):
                    continue
                b = as_binop(rr)
                if b and b[0] == '-':
                    hi, lo = strip_casts(b[1]), strip_casts(b[2])
                    bounds.append((op, 'end_' if is_name(hi, 'end_') else 'E' if end_of_storage(fn, hi, buf) else '?', lo))
            if is_name(start, 'front_'):
                a = [op for op, hi, lo in bounds if hi == 'end_' and is_name(lo, 'front_')]
                e = [op for op, hi, lo in bounds if hi == 'E' and is_name(lo, 'front_')]
                if split and a:
                    if a != ['<']:
                        probs.append('an allocation may reach the read pointer end_ exactly: front_ == end_ then reads as "empty" and every stored PDU is lost')
                elif cont and e:
                    pass   # <= distance to the end of the storage
                else:
                    probs.append('a region at front_ needs (end_ > front_ and size < end_ - front_) or (front_ >= end_ and size <= buffer + Size - front_); found neither: it can run over live PDUs or over the end of the storage')
            elif is_name(start, buf):
                a = [op for op, hi, lo in bounds if hi == 'end_' and is_name(lo, buf)]
                if not (cont and a == ['<']):
                    probs.append('a region at the start of the storage needs front_ >= end_ and size < end_ - buffer: otherwise it overwrites the oldest stored PDU or makes a full ring look empty')
            else:
                probs.append('a region starts at %s, neither at front_ nor at the start of the storage' % start.text())
            chk.instance('alloc-within-free-space', fn, 'return { %s, %s }' % (start.text(), sz.text()), not probs, '; '.join(probs), node=r, key='alloc at %s/%s' % (start.text(), 'split' if split else 'contiguous'))
        chk.require(n == 3, 'alloc_front: expected three allocating returns, found %d' % n)

    # ---- (2) wrap mark: writer and reader
    a_w = b_r = None
    for fn in pat(facts, 'push_front'):
        buf, pdu = fn.params[0]['n'], fn.params[1]['n']
        marks = [c for c in fn.body.calls('header') if len(c.args()) == 2 and strip_casts(c.args()[1]).n == 'wrap_mark']
        chk.require(len(marks) == 1 and is_name(marks[0].args()[0], 'front_'), 'push_front: Layout::header( front_, wrap_mark ) not found')
        if len(marks) != 1:
            continue
        ats = guard_atoms(fn, marks[0])
        probs = []
        room = [(l, op, rr) for l, op, rr in ats if not isinstance(rr, int) and op == '<' and end_of_storage(fn, rr, buf) and plus_const(fn, l, 'front_') is not None]
        moved = [1 for l, op, rr in ats if op == '!=' and not isinstance(rr, int) and ((is_name(l, 'front_') and strip_casts(rr).text() == pdu + '.buffer') or (is_name(rr, 'front_') and strip_casts(l).text() == pdu + '.buffer'))]
        if len(room) != 1:
            probs.append('the mark is not written under `front_ + a < buffer + Size`')
        else:
            a_w = plus_const(fn, room[0][0], 'front_')
            if a_w < 1:
                probs.append('the 2 byte mark is written with only %d byte(s) left: it is written behind the storage' % (a_w + 1))
        if not moved:
            probs.append('the mark is not restricted to allocations that moved away from front_ (front_ != pdu.buffer): a contiguous PDU would be cut off')
        if len(ats) != 2:
            probs.append('%d further condition(s) on writing the mark' % (len(ats) - 2))
        st = [s for tgt, op, val, s in stores(fn.body) if is_name(tgt, 'front_')]
        loops = fn.body.find(lambda n: n.k in ('ForStmt', 'WhileStmt', 'DoStmt', 'GotoStmt'))
        if not (len(st) == 1 and not loops and not precedes(fn, st[0], marks[0]) and marks[0].l < st[0].l):
            probs.append('the mark is not written before front_ moves')
        chk.instance('wrap-mark-agreement', fn, 'writer: mark at front_ iff front_ != pdu.buffer && front_ + %s < end of storage' % a_w, not probs, '; '.join(probs), node=marks[0], key='writer')
    for fn in pat(facts, 'pop_end'):
        buf = fn.params[0]['n']
        wraps = [(val, s) for tgt, op, val, s in stores(fn.body) if is_name(tgt, 'end_') and op == '=' and is_name(val, buf)]
        chk.require(len(wraps) == 1, 'pop_end: `end_ = buffer` not found')
        if len(wraps) != 1:
            continue
        probs = []
        g = list(enclosing_ifs(wraps[0][1]))
        cond = strip_casts(g[0][0].child('cond')) if len(g) == 1 and g[0][1] == 'then' else None
        ok_shape = cond is not None and cond.k == 'BinaryOperator' and cond.o == '&&'
        if ok_shape:
            ne = as_binop(cond.c[0])
            dis = strip_casts(cond.c[1])
            ok_shape = bool(ne) and ne[0] == '!=' and {strip_casts(ne[1]).n, strip_casts(ne[2]).n} == {'end_', 'front_'} and dis.k == 'BinaryOperator' and dis.o == '||'
        chk.require(ok_shape, 'pop_end: wrap condition is not `end_ != front_ && ( A || B )`: idiom not recognised')
        if ok_shape:
            d0, d1 = as_binop(dis.c[0]), as_binop(dis.c[1])
            if not (d0 and d0[0] == '>=' and end_of_storage(fn, d0[2], buf) and plus_const(fn, d0[1], 'end_') is not None):
                probs.append('first alternative is not `end_ + b >= buffer + Size`')
            else:
                b_r = plus_const(fn, d0[1], 'end_')
            el = as_elem(d1[1]) if d1 else None
            if not (d1 and d1[0] == '==' and strip_casts(d1[2]).n == 'wrap_mark' and el is not None and is_name(el[0], 'end_')):
                probs.append('second alternative is not `end_[ i ] == wrap_mark`')
            elif b_r is not None and cval(el[1]) != b_r:
                probs.append('the mark is read at end_[%s] but the storage test covers end_ + %s' % (cval(el[1]), b_r))
            if a_w is not None and b_r is not None and a_w != b_r:
                probs.append('writer and reader disagree: the writer marks a wrap when front_ + %d < end of storage, the reader assumes an unmarked wrap when end_ + %d >= end of storage; for the positions in between the reader '
                             'takes stale bytes for a PDU header (or skips a stored PDU)' % (a_w, b_r))
        adv = [s for tgt, op, val, s in stores(fn.body) if is_name(tgt, 'end_') and op == '+=']
        if not (len(adv) == 1 and precedes(fn, adv[0], wraps[0][1]) and not fn.guards(adv[0])):
            probs.append('end_ is not advanced unconditionally before the wrap test')
        chk.instance('wrap-mark-agreement', fn, 'reader: wrap iff end_ != front_ && ( end_ + %s >= end of storage || end_[%s] == wrap_mark )' % (b_r, b_r), not probs, '; '.join(probs), node=wraps[0][1], key='reader')

    # ---- (3) pointer updates
    for fn in pat(facts, 'reset'):
        buf = fn.params[0]['n']
        sts = {target_name(tgt): val for tgt, op, val, s in stores(fn.body) if op == '='}
        marks = [c for c in fn.body.calls('header') if len(c.args()) == 2 and is_name(c.args()[0], buf) and strip_casts(c.args()[1]).n == 'wrap_mark']
        ok = set(sts) == {'front_', 'end_'} and all(is_name(v, buf) for v in sts.values()) and len(marks) == 1 and not any(fn.guards(x) for x in marks)
        chk.instance('pointer-updates', fn, 'reset: front_ = end_ = buffer, mark at buffer', ok, '' if ok else 'reset does not leave an empty ring at the start of the storage', key='reset')
    for fn in pat(facts, 'push_front'):
        pdu = fn.params[1]['n']
        probs = []
        fs = [(val, s) for tgt, op, val, s in stores(fn.body) if is_name(tgt, 'front_')]
        es = [(val, s) for tgt, op, val, s in stores(fn.body) if is_name(tgt, 'end_')]
        we = [n for n in fn.body.walk() if n.k == 'VarDecl' and n.c and as_binop(n.c[0]) is not None and as_binop(n.c[0])[0] == '==' and {strip_casts(as_binop(n.c[0])[1]).n, strip_casts(as_binop(n.c[0])[2]).n} == {'front_', 'end_'}]
        if len(fs) != 1 or len(es) != 1 or len(we) != 1:
            probs.append('expected one store to front_, one to end_ and one `front_ == end_` sample')
        else:
            b = as_binop(fs[0][0])
            if not (b and b[0] == '+' and strip_casts(b[1]).text() == pdu + '.buffer' and strip_casts(b[2]).is_call('pdu_length') and is_name(strip_casts(b[2]).args()[0], pdu)) or fn.guards(fs[0][1]):
                probs.append('front_ does not move to the end of the committed PDU (pdu.buffer + pdu_length(pdu))')
            if not precedes(fn, we[0], fs[0][1]):
                probs.append('emptiness is sampled after front_ moved')
            g = guard_atoms(fn, es[0][1])
            if not (strip_casts(es[0][0]).text() == pdu + '.buffer' and len(g) == 1 and is_name(g[0][0], we[0].n) and g[0][1] == '!=' and cval(g[0][2]) == 0):
                probs.append('end_ is not moved to the PDU exactly when the ring was empty')
        chk.instance('pointer-updates', fn, 'push_front: was_empty sampled, front_ = pdu.buffer + pdu_length(pdu), end_ = pdu.buffer if was_empty', not probs, '; '.join(probs), key='push_front')
    for fn in pat(facts, 'pop_end'):
        adv = [(val, s) for tgt, op, val, s in stores(fn.body) if is_name(tgt, 'end_') and op == '+=']
        ok = len(adv) == 1 and strip_casts(adv[0][0]).is_call('pdu_length') and is_name(strip_casts(adv[0][0]).args()[0], 'end_')
        chk.instance('pointer-updates', fn, 'pop_end: end_ += pdu_length(end_)', ok, '' if ok else 'the read pointer does not advance by the length of the PDU it points to', key='pop_end')
    for fn in pat(facts, 'next_end'):
        r = fn.returns()
        v = ret_value(r[0]) if len(r) == 1 else None
        ok = v is not None and v.k == 'ConditionalOperator'
        if ok:
            c = as_binop(v.c[0])
            ok = bool(c) and c[0] == '==' and {strip_casts(c[1]).n, strip_casts(c[2]).n} == {'front_', 'end_'}
            t = [x for x in v.c[1].walk() if (x.k == 'InitListExpr' or x.d.get('ctor')) and len(x.c) == 2]
            e = [x for x in v.c[2].walk() if (x.k == 'InitListExpr' or x.d.get('ctor')) and len(x.c) == 2]
            ok = ok and bool(t) and cval(t[0].c[1]) == 0 and bool(e) and is_name(e[0].c[0], 'end_') and strip_casts(e[0].c[1]).is_call('pdu_length') and is_name(strip_casts(e[0].c[1]).args()[0], 'end_')
        chk.instance('pointer-updates', fn, 'next_end: front_ == end_ ? empty : { end_, pdu_length(end_) }', ok, '' if ok else 'the oldest PDU is not reported with its stored length, or emptiness is not front_ == end_', key='next_end')
    for fn in pat(facts, 'pdu_length'):
        r = fn.returns()
        v = strip_casts(ret_value(r[0])) if len(r) == 1 else None
        p = fn.params[0]['n']
        if v is not None and v.is_call('pdu_length'):
            ok = len(v.args()) == 1 and strip_casts(v.args()[0]).text() == p + '.buffer'
            chk.instance('pointer-updates', fn, 'pdu_length(buffer object) -> pdu_length(pdu.buffer)', ok, '' if ok else 'length of a buffer object is not taken from its own bytes', key='pdu_length/obj')
        else:
            ok = v is not None and v.is_call('data_channel_pdu_memory_size') and len(v.args()) == 1
            if ok:
                b = as_binop(v.args()[0])
                ok = bool(b) and b[0] == '>>' and cval(b[2]) == 8 and strip_casts(b[1]).is_call('header') and is_name(strip_casts(b[1]).args()[0], p)
            chk.instance('pointer-updates', fn, 'pdu_length(p) = Layout::data_channel_pdu_memory_size( Layout::header( p ) >> 8 )', ok, '' if ok else 'the in-memory length of a stored PDU is not derived from its length field through the layout', key='pdu_length/ptr')
