"""C36 Pairing method selection matches the IO capability mapping."""
import json, os
from .lib.match import *
from .lib.dlist import evaluate, fold, value_leaf
from .lib import dlist as _dlist
from .lib.facts import VERIF, AnalysisBroken

SELECT = r'^bluetoe::(pairing_no_output|pairing_numeric_output)::|^bluetoe::details::(io_capabilities_matrix|security_manager_base|security_manager_impl)::'
UNITS = lambda u: u in ('w_inst_sm',) or u.startswith('t_security_manager')
EXACT = ('legacy-method-table', 'lesc-method-table', 'oob-preferred')   # verdicts computed from the meaning of the code (compiler / folding / symbolic terms): not gated by the golden structure
META = {
    'level': 'table extraction: the decision lists select_legacy_pairing_algorithm / select_lesc_pairing_algorithm / get_io_capabilities of the two output-capability classes '
             '(3 input-capability overloads each) are folded for each of the 5 remote IO capabilities and compared cell by cell with the Core specification tables (Vol 3 Part H, '
             'Tables 2.5 and 2.8) frozen in spec/io_mapping.json: 6 + 30 + 30 cells, exhaustive over the finite domain. Plus: OOB is preferred by the two *_select_pairing_algorithm '
             'wrappers, and the selected method must depend on the MITM bits of the authentication requirements.',
    'technique': 'static decision-table extraction from the AST/CFG (constant folding over a finite domain) against a frozen specification table',
}


def run(chk, facts, tier):
    _dlist.FACTS = facts      # small pure helpers are folded through
    chk.rule('io-capability-map', 'get_io_capabilities(output class, input tag) equals Core Vol 3 Part H Table 2.5', floor=6)
    chk.rule('legacy-method-table', 'select_legacy_pairing_algorithm equals Table 2.8 (legacy column) for all local IO configurations x remote IO capabilities', floor=30)
    chk.rule('lesc-method-table', 'select_lesc_pairing_algorithm equals Table 2.8 (LE Secure Connections column) for all local IO configurations x remote IO capabilities', floor=30)
    chk.rule('oob-preferred', 'legacy: OOB when both sides have OOB data; LESC: OOB when either side has OOB data; otherwise the IO table is consulted with the remote io_capability', floor=2)
    chk.rule('oob-queried-before-selection', 'every pairing request handler asks the application for the OOB data of the requesting device (request_oob_data_presents_for_remote_device(state.remote_address())) '
             'on every path before has_oob_data_for_remote_device() feeds the method selection or the pairing response', floor=3)
    chk.rule('advertised-oob-is-selection-input', 'the OOB flag written to the Pairing Response is the predicate the selection uses (has_oob_data_for_remote_device()): the central selects from the advertised flags, '
             'so a response built from capabilities with a different OOB flag makes both sides select different methods', floor=3)
    chk.rule('mitm-considered', 'the pairing method selection reads the authentication requirements (MITM bit): without MITM on both sides Just Works must be selected', floor=2)
    spec = json.load(open(os.path.join(VERIF, 'spec', 'io_mapping.json')))
    io_enum = facts.enum('bluetoe::details::io_capabilities')
    chk.require(io_enum is not None, 'enum details::io_capabilities not found')
    if io_enum is None:
        return
    want_vals = {'display_only': 0, 'display_yes_no': 1, 'keyboard_only': 2, 'no_input_no_output': 3, 'keyboard_display': 4}
    for k, v in want_vals.items():
        chk.require(io_enum.get(k) == v, 'io_capabilities::%s has value %s, specification says %d' % (k, io_enum.get(k), v))

    def input_tag(fn):
        t = fn.params[0].get('tn') if fn.params else None
        return t

    for out_cls in ('pairing_no_output', 'pairing_numeric_output'):
        for fname, table, rule in (('select_legacy_pairing_algorithm', 'legacy', 'legacy-method-table'), ('select_lesc_pairing_algorithm', 'lesc', 'lesc-method-table')):
            fns = [f for f in facts.fns('bluetoe::%s::%s' % (out_cls, fname)) if f.kind in ('pattern', 'plain')]
            tags = {input_tag(f): f for f in fns}
            for tag in ('pairing_no_input', 'pairing_yes_no', 'pairing_keyboard'):
                fn = tags.get(tag)
                if fn is None:
                    # overload resolution: no overload names this input class; a single overload whose first parameter is a template type parameter takes it
                    generic = [f for f in fns if input_tag(f) not in ('pairing_no_input', 'pairing_yes_no', 'pairing_keyboard') and f.params and (f.params[0].get('tk') == 'TemplateTypeParm' or not facts.cls('bluetoe::' + (input_tag(f) or '?')))]
                    if len(generic) == 1:
                        fn = generic[0]
                        chk.note('%s::%s(%s): no overload for this input class, the generic overload at line %d applies' % (out_cls, fname, tag, fn.line))
                if not chk.require(fn is not None, '%s::%s(%s) not found' % (out_cls, fname, tag)):
                    continue
                local = spec['io_capability_of'][out_cls + '/' + tag]
                pname = fn.params[1]['n'] if len(fn.params) > 1 else None
                for col, remote in enumerate(spec['initiator_order']):
                    env = {pname: io_enum[remote]} if pname else {}
                    r = evaluate(fn, env)
                    leaf = value_leaf(ret_value(r), env) if r is not None and ret_value(r) is not None else None
                    if leaf is None or leaf.k not in REF_KINDS:
                        raise AnalysisBroken('%s::%s(%s): the value returned for remote %s is computed (%s): idiom not recognised' % (out_cls, fname, tag, remote, (ret_value(r).text()[:40] if r is not None and ret_value(r) is not None else 'no return')))
                    got = leaf.n
                    exp = spec[table][local][col]
                    ok = got == exp
                    chk.instance(rule, fn, 'local %s (%s/%s), remote %s -> %s' % (local, out_cls, tag, remote, got), ok,
                                 '' if ok else 'specification Table 2.8 says %s' % exp, node=r, key='%s/%s/%s' % (out_cls, tag, remote))
        fns = [f for f in facts.fns('bluetoe::%s::get_io_capabilities' % out_cls) if f.kind in ('pattern', 'plain')]
        tags = {input_tag(f): f for f in fns}
        for tag in ('pairing_no_input', 'pairing_yes_no', 'pairing_keyboard'):
            fn = tags.get(tag)
            if not chk.require(fn is not None, '%s::get_io_capabilities(%s) not found' % (out_cls, tag)):
                continue
            r = evaluate(fn, {})
            leaf = value_leaf(ret_value(r), {}) if r is not None and ret_value(r) is not None else None
            if leaf is None or leaf.k not in REF_KINDS:
                raise AnalysisBroken('get_io_capabilities of %s/%s returns a computed value: idiom not recognised' % (out_cls, tag))
            got = leaf.n
            exp = spec['io_capability_of'][out_cls + '/' + tag]
            chk.instance('io-capability-map', fn, '%s + %s -> %s' % (out_cls, tag, got), got == exp, '' if got == exp else 'Table 2.5 says ' + exp, node=r, key=out_cls + '/' + tag)

    # matrix forwards output_capabilities::select_*(input_capabilities(), io)
    for fname in ('select_legacy_pairing_algorithm', 'select_lesc_pairing_algorithm'):
        for fn in facts.fns('bluetoe::details::io_capabilities_matrix::' + fname):
            if fn.kind != 'pattern':
                continue
            rets = fn.returns()
            c = ret_value(rets[0]) if rets else None
            ok = c is not None and c.is_call(fname) and len(c.args()) in (1, 2) and is_name(c.args()[-1] if c.args()[-1].k in REF_KINDS else c.args()[-1].c[0] if c.args()[-1].c else None, fn.params[0]['n'])
            rule = 'legacy-method-table' if 'legacy' in fname else 'lesc-method-table'
            chk.instance(rule, fn, 'io_capabilities_matrix::%s forwards the remote capability' % fname, ok, '' if ok else 'matrix does not forward its argument', key='matrix ' + fname + str(len(fn.params[0]['t'])))

    # the local OOB predicate: looked up per request, and advertised as used
    handlers = []
    for q in ('bluetoe::details::security_manager_base::legacy_handle_pairing_request', 'bluetoe::details::security_manager_base::lesc_handle_pairing_request',
              'bluetoe::details::security_manager_impl::handle_pairing_request'):
        fs = [f for f in facts.fns(q) if f.kind == 'pattern']
        chk.require(len(fs) == 1, q + ': pattern not found')
        handlers += fs
    caps_flag = {}
    for nm in ('legacy_local_io_caps', 'lesc_local_io_caps'):
        for fn in [f for f in facts.fns('bluetoe::details::security_manager_base::' + nm) if f.kind == 'pattern']:
            r = fn.returns()
            il = [x for x in ret_value(r[0]).walk() if x.k == 'InitListExpr' and len(x.c) == 3] if len(r) == 1 and ret_value(r[0]) is not None else []
            chk.require(bool(il), nm + ': return {{ io, oob, auth }} not recognised')
            if il:
                e0 = strip_casts(il[0].c[0])
                ok0 = e0.is_call('get_io_capabilities') and not e0.args()
                chk.instance('io-capability-map', fn, '%s()[0] = io_device_t::get_io_capabilities()' % nm, ok0,
                             '' if ok0 else 'the IO capability written to the Pairing Response is %s, not the configured capability the method selection uses: the central selects from another row/column of the mapping table than the peripheral' % e0.text()[:60], key='advertised by ' + nm)
                e = strip_casts(il[0].c[1])
                caps_flag[nm] = 'has_oob' if (e.k == 'ConditionalOperator' and strip_casts(e.c[0]).is_call('has_oob_data_for_remote_device') and cval(e.c[1]) == 1 and cval(e.c[2]) == 0) else ('const %s' % e.v if e.v is not None else e.text()[:30])
    for fn in handlers:
        reqs = fn.body.calls('request_oob_data_presents_for_remote_device')
        uses = fn.body.calls('has_oob_data_for_remote_device') + [c for c in fn.body.calls() if c.cn in ('legacy_local_io_caps', 'lesc_local_io_caps')]
        req_ok = [c for c in reqs if len(c.args()) == 1 and strip_casts(c.args()[0]).is_call('remote_address') and is_name(base_object(strip_casts(c.args()[0])), fn.params[-1]['n'])]
        bad = [u for u in uses if not any(precedes(fn, r, u) for r in req_ok)]
        short = fn.q.split('::')[-2] + '::' + fn.name
        chk.instance('oob-queried-before-selection', fn, '%s: %d use(s) of the local OOB predicate, %d lookup(s)' % (short, len(uses), len(req_ok)), not bad and bool(uses),
                     '' if not bad and uses else 'has_oob_data_for_remote_device() is consulted at line %d without a preceding lookup for the requesting device: the answer is the one for the last device that was looked up (or "no data" if none ever was)' % (bad[0].l if bad else 0),
                     node=bad[0] if bad else None, key=short)
        for c in fn.body.calls('create_pairing_response'):
            capc = strip_casts(c.args()[-1]) if c.args() else None
            nm = capc.cn if capc is not None and capc.d.get('call') else None
            if capc is not None and capc.k in REF_KINDS and capc.d.get('local'):
                # a local copy of one of the capability functions' result; the OOB element [1] must not be overwritten
                init = local_init(fn, capc.n, optional=True)
                touched = [st for tgt, op, val, st in stores(fn.body) if strip_casts(tgt).k in ('ArraySubscriptExpr', 'CXXOperatorCallExpr') and is_name(strip_casts(tgt).c[0 if strip_casts(tgt).k == 'ArraySubscriptExpr' else 1], capc.n)
                           and cval(strip_casts(tgt).c[-1]) != 2]
                nm = init.cn if init is not None and init.d.get('call') and not touched else None
            # which selection shares the branch with this response
            sel = [x for x in fn.body.calls() if x.cn in ('legacy_select_pairing_algorithm', 'lesc_select_pairing_algorithm') and [(g[0].i, g[1]) for g in fn.guards(x)] == [(g[0].i, g[1]) for g in fn.guards(c)]]
            chk.require(len(sel) == 1 and nm in caps_flag, '%s: response at line %d cannot be paired with one selection call / capability function' % (short, c.l))
            if len(sel) != 1 or nm not in caps_flag:
                continue
            uses_has = len(sel[0].args()) == 4 and strip_casts(sel[0].args()[3]).is_call('has_oob_data_for_remote_device')
            if not req_ok and caps_flag[nm] == 'const 0':
                # no lookup in this handler: the predicate keeps its constructor value (false) for this manager, which is what a constant 0 advertises; the missing lookup is reported by the other rule
                chk.note('%s: %s() advertises OOB flag 0 and the handler never looks the OOB data up (predicate constant false): consistent, see oob-queried-before-selection' % (short, nm))
                continue
            ok = uses_has and caps_flag[nm] == 'has_oob'
            chk.instance('advertised-oob-is-selection-input', fn, '%s: %s(.., has_oob_data) answered with %s() [OOB flag: %s]' % (short, sel[0].cn, nm, caps_flag[nm]), ok,
                         '' if ok else 'the method is selected with the local OOB predicate but the Pairing Response carries OOB flag "%s": when the application has OOB data, the peripheral selects OOB while the central, reading the response, does not' % caps_flag[nm],
                         node=c, key='%s/%s' % (short, sel[0].cn))
    # OOB preference + MITM dependence in the security manager wrappers
    SB = 'bluetoe::details::security_manager_base::'
    for fname, want in (('legacy_select_pairing_algorithm', '&&'), ('lesc_select_pairing_algorithm', '||')):
        for fn in variants(facts, SB + fname, chk):
            # fold the function for the four combinations of (remote OOB flag, local OOB data): which return is reached
            pflag, phas = fn.params[1]['n'], fn.params[3]['n']
            ok = True
            why = ''
            table = {}
            try:
                for v1 in (0, 1):
                    for v2 in (0, 1):
                        r = evaluate(fn, {pflag: v1, phas: v2})
                        v = value_leaf(ret_value(r), {pflag: v1, phas: v2}) if r is not None and ret_value(r) is not None else None
                        table[(v1, v2)] = 'oob' if v is not None and v.n == 'oob_authentication' else ('table' if v is not None and v.d.get('call') and any(is_name(a, fn.params[0]['n']) for a in v.args()) else '?')
            except AnalysisBroken as e:
                chk.broke('%s: cannot fold the OOB decision (%s)' % (fname, str(e)[:120]))
                continue
            for (v1, v2), got in sorted(table.items()):
                exp = 'oob' if ((v1 and v2) if want == '&&' else (v1 or v2)) else 'table'
                if got != exp:
                    ok = False
                    why = 'remote OOB flag %d, local OOB data %d selects %s, the specification says %s (OOB when remote flag %s local data, otherwise the IO capability mapping with the remote capability)' % (
                        v1, v2, {'oob': 'OOB', 'table': 'the IO mapping', '?': 'something else'}[got], {'oob': 'OOB', 'table': 'the IO mapping'}[exp], want)
            chk.instance('oob-preferred', fn, fname, ok, '' if ok else why, key=fname)
            p = fn.params[2]
            used = bool(p['n']) and mentions(fn.body, p['n'])
            chk.instance('mitm-considered', fn, '%s(.., auth_req, ..)' % fname, used,
                         '' if used else 'the authentication requirements parameter is unnamed/unused: when neither side requests MITM protection the specification selects Just Works, '
                         'but the IO capability table is applied unconditionally', key=fname + ' auth_req')
