"""C36 Pairing method selection matches the IO capability mapping."""
import json, os
from .lib.match import *
from .lib.dlist import evaluate, fold
from .lib.facts import VERIF, AnalysisBroken

SELECT = r'^bluetoe::(pairing_no_output|pairing_numeric_output)::|^bluetoe::details::(io_capabilities_matrix|security_manager_base)::'
UNITS = lambda u: u in ('w_inst_sm',) or u.startswith('t_security_manager')
META = {
    'level': 'table extraction: the decision lists select_legacy_pairing_algorithm / select_lesc_pairing_algorithm / get_io_capabilities of the two output-capability classes '
             '(3 input-capability overloads each) are folded for each of the 5 remote IO capabilities and compared cell by cell with the Core specification tables (Vol 3 Part H, '
             'Tables 2.5 and 2.8) frozen in spec/io_mapping.json: 6 + 30 + 30 cells, exhaustive over the finite domain. Plus: OOB is preferred by the two *_select_pairing_algorithm '
             'wrappers, and the selected method must depend on the MITM bits of the authentication requirements.',
    'technique': 'static decision-table extraction from the AST/CFG (constant folding over a finite domain) against a frozen specification table',
}


def run(chk, facts, tier):
    chk.rule('io-capability-map', 'get_io_capabilities(output class, input tag) equals Core Vol 3 Part H Table 2.5', floor=6)
    chk.rule('legacy-method-table', 'select_legacy_pairing_algorithm equals Table 2.8 (legacy column) for all local IO configurations x remote IO capabilities', floor=30)
    chk.rule('lesc-method-table', 'select_lesc_pairing_algorithm equals Table 2.8 (LE Secure Connections column) for all local IO configurations x remote IO capabilities', floor=30)
    chk.rule('oob-preferred', 'legacy: OOB when both sides have OOB data; LESC: OOB when either side has OOB data; otherwise the IO table is consulted with the remote io_capability', floor=2)
    chk.rule('mitm-considered', 'the pairing method selection reads the authentication requirements (MITM bit): without MITM on both sides Just Works must be selected', floor=2)
    spec = json.load(open(os.path.join(VERIF, 'spec', 'io_mapping.json')))
    io_enum = facts.enum('bluetoe::details::io_capabilities')
    chk.require(io_enum is not None, 'enum details::io_capabilities not found')
    if io_enum is None:
        return
    want_vals = {'display_only': 0, 'display_yes_no': 1, 'keyboard_only': 2, 'no_input_no_output': 3, 'keyboard_display': 4}
    for k, v in want_vals.items():
        chk.require(io_enum.get(k) == v, 'io_capabilities::%s has value %s, specification says %d' % (k, io_enum.get(k), v))

    def input_tag(fn):
        t = fn.params[0].get('tn') if fn.params else None
        return t

    for out_cls in ('pairing_no_output', 'pairing_numeric_output'):
        for fname, table, rule in (('select_legacy_pairing_algorithm', 'legacy', 'legacy-method-table'), ('select_lesc_pairing_algorithm', 'lesc', 'lesc-method-table')):
            fns = [f for f in facts.fns('bluetoe::%s::%s' % (out_cls, fname)) if f.kind in ('pattern', 'plain')]
            tags = {input_tag(f): f for f in fns}
            for tag in ('pairing_no_input', 'pairing_yes_no', 'pairing_keyboard'):
                fn = tags.get(tag)
                if not chk.require(fn is not None, '%s::%s(%s) not found' % (out_cls, fname, tag)):
                    continue
                local = spec['io_capability_of'][out_cls + '/' + tag]
                pname = fn.params[1]['n'] if len(fn.params) > 1 else None
                for col, remote in enumerate(spec['initiator_order']):
                    env = {pname: io_enum[remote]} if pname else {}
                    r = evaluate(fn, env)
                    got = strip_casts(ret_value(r)).n if r is not None else None
                    exp = spec[table][local][col]
                    ok = got == exp
                    chk.instance(rule, fn, 'local %s (%s/%s), remote %s -> %s' % (local, out_cls, tag, remote, got), ok,
                                 '' if ok else 'specification Table 2.8 says %s' % exp, node=r, key='%s/%s/%s' % (out_cls, tag, remote))
        fns = [f for f in facts.fns('bluetoe::%s::get_io_capabilities' % out_cls) if f.kind in ('pattern', 'plain')]
        tags = {input_tag(f): f for f in fns}
        for tag in ('pairing_no_input', 'pairing_yes_no', 'pairing_keyboard'):
            fn = tags.get(tag)
            if not chk.require(fn is not None, '%s::get_io_capabilities(%s) not found' % (out_cls, tag)):
                continue
            r = evaluate(fn, {})
            got = strip_casts(ret_value(r)).n if r is not None else None
            exp = spec['io_capability_of'][out_cls + '/' + tag]
            chk.instance('io-capability-map', fn, '%s + %s -> %s' % (out_cls, tag, got), got == exp, '' if got == exp else 'Table 2.5 says ' + exp, node=r, key=out_cls + '/' + tag)

    # matrix forwards output_capabilities::select_*(input_capabilities(), io)
    for fname in ('select_legacy_pairing_algorithm', 'select_lesc_pairing_algorithm'):
        for fn in facts.fns('bluetoe::details::io_capabilities_matrix::' + fname):
            if fn.kind != 'pattern':
                continue
            rets = fn.returns()
            c = ret_value(rets[0]) if rets else None
            ok = c is not None and c.is_call(fname) and len(c.args()) in (1, 2) and is_name(c.args()[-1] if c.args()[-1].k in REF_KINDS else c.args()[-1].c[0] if c.args()[-1].c else None, fn.params[0]['n'])
            rule = 'legacy-method-table' if 'legacy' in fname else 'lesc-method-table'
            chk.instance(rule, fn, 'io_capabilities_matrix::%s forwards the remote capability' % fname, ok, '' if ok else 'matrix does not forward its argument', key='matrix ' + fname + str(len(fn.params[0]['t'])))

    # OOB preference + MITM dependence in the security manager wrappers
    SB = 'bluetoe::details::security_manager_base::'
    for fname, want in (('legacy_select_pairing_algorithm', '&&'), ('lesc_select_pairing_algorithm', '||')):
        for fn in variants(facts, SB + fname, chk):
            ifs = fn.body.find(lambda n: n.k == 'IfStmt')
            ok = False
            why = 'no OOB test'
            if ifs:
                c = strip_casts(ifs[0].child('cond'))
                names = {x.n for x in c.walk() if x.k in REF_KINDS}
                then_ret = [r for r in ifs[0].child('then').find(lambda n: n.k == 'ReturnStmt')] if ifs[0].child('then') is not None else []
                if ifs[0].child('then') is not None and ifs[0].child('then').k == 'ReturnStmt':
                    then_ret = [ifs[0].child('then')]
                ok = c.k == 'BinaryOperator' and c.o == want and fn.params[1]['n'] in names and fn.params[3]['n'] in names and bool(then_ret) and strip_casts(ret_value(then_ret[0])).n == 'oob_authentication'
                why = 'OOB must be selected when remote flag %s local data' % want
            last = [r for r in fn.returns() if ret_value(r) is not None and ret_value(r).d.get('call')]
            ok = ok and bool(last) and any(is_name(a, fn.params[0]['n']) for a in ret_value(last[0]).args())
            chk.instance('oob-preferred', fn, fname, ok, '' if ok else why, key=fname)
            p = fn.params[2]
            used = bool(p['n']) and mentions(fn.body, p['n'])
            chk.instance('mitm-considered', fn, '%s(.., auth_req, ..)' % fname, used,
                         '' if used else 'the authentication requirements parameter is unnamed/unused: when neither side requests MITM protection the specification selects Just Works, '
                         'but the IO capability table is applied unconditionally', key=fname + ' auth_req')
