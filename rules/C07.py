"""C07 Prepared writes are deferred, per-client and applied in order (structure)."""
from .lib.match import *

SELECT = r'^bluetoe::server::(handle_prepair_write_request|handle_execute_write_request|handle_write_request|client_disconnected)$|^bluetoe::details::(write_queue|write_queue_guard)::|^bluetoe::details::attribute_access_arguments::check_write$|^bluetoe::link_layer::link_layer::(force_disconnect|disconnect)$'
UNITS = lambda u: u in ('w_inst_att', 'w_inst_ll') or u.startswith('t_att_prepare') or u.startswith('t_att_execute') or u.startswith('t_write_queue')
SV = 'bluetoe::server::'
WQ = 'bluetoe::details::write_queue::'
META = {
    'level': 'structural necessary conditions: the Prepare Write permission probe is built from the same client configuration and security attributes of the same connection as the Write Request and the '
             'queued execution (so it is accepted exactly when a write would be); Prepare Write changes no value (its access is the zero-length probe, everything else goes to the queue); '
             'Execute Write releases the queue on every exit behind the length test (RAII guard or explicit call on each path) and applies the elements in queue order with the owner\'s credentials; '
             'the queue refuses a second owner, yields elements only to the owner and is released when the link layer closes the connection. Interleavings over time are not decided.',
    'technique': 'static argument-provenance / must-pass / guarded-by / who-calls rules over clang AST/CFG facts',
}


def run(chk, facts, tier):
    chk.rule('probe-same-credentials', 'handle_prepair_write_request probes with check_write(<conn>.client_configurations(), <conn>.security_attributes(), this) of its own connection parameter, '
             'like handle_write_request / handle_execute_write_request build their write arguments', floor=3)
    chk.rule('prepare-defers', 'Prepare Write: the only attribute access is the zero-length probe; the payload is copied into the queue element returned by allocate_from_write_queue (null -> Prepare Queue Full)', floor=1)
    chk.rule('execute-writes-own-attribute', 'handle_execute_write_request applies every queued element to the attribute named by the handle stored in that element (looked up inside the loop)', floor=1)
    chk.rule('element-size-codec', 'the write queue stores the length of an element as two octets (size & 0xff, size >> 8) and read_size() rebuilds it as low + high * 256 (or low | high << 8) in at least 16 bit: elements longer than 255 octets keep their length', floor=1)
    chk.rule('execute-frees-on-every-exit', 'handle_execute_write_request: every exit behind the PDU check releases the queue (write_queue_guard in scope or free_write_queue on the path)', floor=1)
    chk.rule('release-only-after-pdu-check', 'handle_execute_write_request: the write_queue_guard and every free_write_queue are control dependent on the passed PDU check (in_size == 2, flag 0 or 1): the queue is released on execute, cancel or disconnect only', floor=1)
    chk.rule('single-owner', 'allocate_from_write_queue refuses when another client owns the queue and claims the queue only on the path that queues an element; first_write_queue_element yields only to the owner; free_write_queue only for the owner', floor=4)
    chk.rule('release-on-disconnect', 'server::client_disconnected frees the queue and the link layer calls it on every disconnect (force_disconnect)', floor=2)

    chk.rule('probe-no-side-effect', 'the Prepare Write probe is distinguishable from a real write (own access type), so value handlers are not invoked and nothing changes before Execute Write', floor=1)
    for fn in variants(facts, 'bluetoe::details::attribute_access_arguments::check_write', chk):
        il = next((x for x in fn.body.walk() if x.k == 'InitListExpr' or (x.d.get('ctor') and x.cn == 'attribute_access_arguments')), None)
        t = strip_casts(il.c[0]).n if il is not None and il.c else None
        ok = t not in (None, 'write')
        chk.instance('probe-no-side-effect', fn, 'check_write() builds access type `%s`' % t, ok,
                     '' if ok else 'the probe is an ordinary zero-length write: user write handlers (free_write_handler, control point handlers, CCCD subscription callbacks) run on Prepare Write alone, or refuse it with Invalid Attribute Value Length although the later write would be accepted', key='probe type')

    def cred_args(fn, c, ic, isx):
        a = [strip_casts(x) for x in c.args()]
        conn = next((p['n'] for p in fn.params if p.get('tn') in ('Connection', 'ConnectionData') or p['n'] in ('client', 'connection')), None)
        return (len(a) > max(ic, isx) and a[ic].is_call('client_configurations') and a[isx].is_call('security_attributes')
                and is_name(base_object(a[ic]), conn) and is_name(base_object(a[isx]), conn)), conn

    for fn in [f for f in variants(facts, SV + 'handle_prepair_write_request', chk) if len(f.params) == 6 and f.params[5].get('tn') != 'no_such_type' and f.body.calls('allocate_from_write_queue')]:
        probes = fn.body.calls('check_write')
        ok = len(probes) == 1
        why = 'expected exactly one check_write probe'
        if ok:
            ok, conn = cred_args(fn, probes[0], 0, 1)
            ok = ok and len(probes[0].args()) == 3
            why = 'the permission probe does not carry the connection\'s client configuration and security attributes: Prepare Write is refused (or crashes) where a Write Request is accepted'
        chk.instance('probe-same-credentials', fn, 'check_write(client.client_configurations(), client.security_attributes(), this)', ok, '' if ok else why, node=probes[0] if probes else None, key='prepare probe')
        acc = fn.body.calls('access')
        wr = [c for c in fn.body.calls(('write', 'read')) if 'attribute_access_arguments' in ((c.callee().d.get('qual') or '') + (c.cq or '') if c.callee() is not None else (c.cq or ''))]
        al = fn.body.calls('allocate_from_write_queue')
        ok = len(acc) == 1 and not wr and len(al) == 1
        if ok:
            qe = [d for d in fn.body.find(lambda n: n.k == 'VarDecl') if d.c and any(x is al[0] for x in d.c[0].walk())]
            cp = [c for c in fn.body.calls('copy') if qe and is_name(c.args()[-1], qe[0].n)]
            full = [c for c in fn.body.calls('error_response') if mentions(c, 'prepare_queue_full') and qe and has_atom(guard_atoms(fn, c), lambda n: is_name(n, qe[0].n), {'=='}, lambda o: cval(o) == 0 or (not isinstance(o, int) and strip_casts(o).k == 'CXXNullPtrLiteralExpr'))]
            ok = len(qe) == 1 and len(cp) == 1 and mentions(cp[0].args()[0], 'input') and len(full) == 1 and \
                has_atom(guard_atoms(fn, cp[0]), lambda n: is_name(n, qe[0].n), {'!='}, lambda o: cval(o) == 0 or (not isinstance(o, int) and strip_casts(o).k == 'CXXNullPtrLiteralExpr'))
            ok = ok and is_name(al[0].args()[1], 'client') and precedes(fn, acc[0], al[0])
        chk.instance('prepare-defers', fn, 'probe, then allocate_from_write_queue + copy; full -> prepare_queue_full', ok, '' if ok else 'Prepare Write touches the value or does not queue the payload', key='prepare')
    for fn in variants(facts, SV + 'handle_write_request', chk):
        for c in fn.body.calls('write'):
            if len(c.args()) == 6:
                ok, conn = cred_args(fn, c, 3, 4)
                chk.instance('probe-same-credentials', fn, 'write(.., connection.client_configurations(), connection.security_attributes(), this)', ok, '' if ok else 'Write Request does not use the connection\'s credentials', node=c, key='write request')
    for fn in [f for f in variants(facts, SV + 'handle_execute_write_request', chk) if f.body.calls('first_write_queue_element')]:
        for c in fn.body.calls('write'):
            if len(c.args()) == 6:
                ok, conn = cred_args(fn, c, 3, 4)
                chk.instance('probe-same-credentials', fn, 'queued write(.., client.client_configurations(), client.security_attributes(), this)', ok, '' if ok else 'queued writes are applied with other credentials than the probe', node=c, key='execute write')
        guard = fn.body.find(lambda n: n.k == 'VarDecl' and n.d.get('tn') == 'write_queue_guard')
        bad = []
        for r in fn.returns() + [None]:
            node = r
            if r is not None:
                if any(mentions(i.child('cond'), 'in_size') for i, br in enclosing_ifs(r) if br == 'then') and not guard_before(fn, guard, r) and not fn.body.calls('first_write_queue_element')[0].l < r.l:
                    continue   # the malformed PDU exit in front of everything else: not an execute/cancel, queue untouched
                if guard_before(fn, guard, r):
                    continue
                frees = [c for c in fn.body.calls('free_write_queue') if precedes(fn, c, r)]
                if not frees:
                    bad.append(r)
        end_free = [c for c in fn.body.calls('free_write_queue') if not fn.guards(c)] or guard
        if not end_free:
            bad.append(fn.body)
        loop = fn.body.find(lambda n: n.k == 'ForStmt')
        def _calls(n):
            return n.calls() if n is not None else []
        first_in_init = len(loop) == 1 and any(c.cn == 'first_write_queue_element' for c in _calls(loop[0].child('init')))
        if len(loop) == 1 and not first_in_init:
            # `auto queue = first_write_queue_element(..); for ( ; queue.first; queue = next.. )`: the loop variable initialised in front of the loop
            lv = [d for d in fn.body.find(lambda n: n.k == 'VarDecl' and n.c) if strip_casts(d.c[0]).is_call('first_write_queue_element')]
            first_in_init = len(lv) == 1 and mentions(loop[0].child('cond'), lv[0].n) and precedes(fn, lv[0].c[0], loop[0].child('cond')) and not [st for tgt, op, val, st in stores(fn.body) if is_name(tgt, lv[0].n) and st.l < loop[0].l]
        order_ok = len(loop) == 1 and first_in_init and any(c.cn == 'next_write_queue_element' for c in _calls(loop[0].child('inc')))
        # every queued element is written to the attribute its own handle names
        own_ok, own_why = False, 'write access of the queued elements not found'
        if len(loop) == 1:
            def inside(n):
                while n is not None:
                    if n is loop[0].child('body'):
                        return True
                    n = n.parent
                return False
            acc = [c for c in loop[0].calls('access') if base_object(c) is not None and strip_casts(base_object(c)).is_call('attribute_at')]
            if len(acc) == 1:
                i_node = strip_casts(strip_casts(base_object(acc[0])).args()[0])
                chain, cur, per_element = [], i_node, True
                for _ in range(6):
                    if cur is None or isinstance(cur, int):
                        break
                    cur = strip_casts(cur)
                    if cur.k == 'DeclRefExpr' and cur.d.get('local'):
                        ds = fn.body.find(lambda n: n.k == 'VarDecl' and n.n == cur.n and n.c)
                        if len(ds) != 1:
                            break
                        per_element = per_element and inside(ds[0])
                        cur = ds[0].c[0]
                        continue
                    if cur.is_call('index_by_handle') or cur.is_call('read_handle'):
                        chain.append(cur.cn or cur.callee().n)
                        cur = cur.args()[0] if cur.args() else None
                        continue
                    break
                elem = cur is not None and not isinstance(cur, int) and strip_casts(cur).k == 'MemberExpr' and strip_casts(cur).n == 'first'
                own_ok = chain == ['index_by_handle', 'read_handle'] and elem and per_element and inside(acc[0])
                own_why = 'the attribute a queued write is applied to is not index_by_handle(read_handle(<this element>)) evaluated for every element: the elements of a queue that holds writes to several attributes all go to one of them'
        chk.instance('execute-writes-own-attribute', fn, 'each queued element -> attribute_at(index_by_handle(read_handle(element)))', own_ok, '' if own_ok else own_why, key='own attribute')
        flag_ok = any(is_name(l, 'execute_flag') and op == '!=' for l, op, r in guard_atoms(fn, loop[0].child('cond'))) if loop else False
        ok = not bad and order_ok and flag_ok
        chk.instance('execute-frees-on-every-exit', fn, 'queue released on %d exits; elements applied first..next under execute_flag' % (len(fn.returns()) + 1), ok,
                     '' if ok else ('exit at line %d leaves the queue allocated' % bad[0].l if bad else 'queue elements are not applied in order / not under the execute flag'), key='execute')
    # ... and only then: a PDU that is neither an execute nor a cancel leaves the queue with its owner
    for fn in [f for f in variants(facts, SV + 'handle_execute_write_request', chk) if f.body.calls('first_write_queue_element')]:
        guard = fn.body.find(lambda n: n.k == 'VarDecl' and n.d.get('tn') == 'write_queue_guard')
        sites = guard + fn.body.calls('free_write_queue')
        bad = [x for x in sites if not has_atom(guard_atoms(fn, x), lambda n: is_name(n, fn.params[1]['n']), {'=='}, lambda o: cval(o) == 2)]
        chk.instance('release-only-after-pdu-check', fn, '%d release site(s) behind in_size == 2 and a valid flag' % len(sites), bool(sites) and not bad,
                     '' if sites and not bad else 'the queue is released at line %d before the request is known to be an Execute Write with flag 0 or 1: a malformed PDU (answered with Invalid PDU) discards the prepared writes and hands the queue to another client' % (bad[0].l if bad else 0),
                     node=bad[0] if bad else None, key='execute')
    for fn in variants(facts, WQ + 'allocate_from_write_queue', chk):
        rets = [r for r in fn.returns() if ret_value(r) is not None and (cval(ret_value(r)) == 0 or ret_value(r).k == 'CXXNullPtrLiteralExpr')]
        conds = [i.child('cond') for r in rets for i, br in enclosing_ifs(r) if br == 'then']
        ok = bool(rets) and any(mentions(c, 'current_client_') and mentions(c, fn.params[1]['n']) and any(as_binop(x) is not None and as_binop(x)[0] == '!=' and mentions(x, 'current_client_') and mentions(x, fn.params[1]['n']) for x in deep_walk(c)) for c in conds)
        st = [s for tgt, op, val, s in stores(fn.body) if is_name(tgt, 'current_client_')]
        ok = ok and len(st) == 1
        chk.instance('single-owner', fn, 'refuse when current_client_ != nullptr && current_client_ != &client', ok, '' if ok else 'a second client can append to a queue owned by another client', key='allocate')
        # ownership is taken only together with a queued element: no refusal after the queue was claimed
        from .lib.paths import explore

        def on_node(ts, node):
            owned, bad = ts
            for tgt, op, val, s2 in stores(node):
                if s2 is node and is_name(tgt, 'current_client_'):
                    owned = True
            if node.k == 'ReturnStmt' and owned and ret_value(node) is not None and (cval(ret_value(node)) == 0 or ret_value(node).k == 'CXXNullPtrLiteralExpr'):
                bad = node.l
            return (owned, bad)
        res = explore(fn, (False, None), on_node)
        badl = [ts[1] for ts, tr in res if ts[1] is not None]
        chk.instance('single-owner', fn, 'no refusal after current_client_ was claimed (%d paths)' % len(res), bool(res) and not badl,
                     '' if res and not badl else 'a client whose request does not fit (line %s: nullptr) already owns the queue with nothing queued: every other client gets Prepare Queue Full until that client executes or disconnects' % (badl[0] if badl else '?'), key='allocate claims')
    for name in ('first_write_queue_element', 'free_write_queue'):
        for fn in variants(facts, WQ + name, chk):
            if not fn.params or not mentions(fn.body, 'current_client_'):
                continue
            if name == 'free_write_queue':
                st = [s for tgt, op, val, s in stores(fn.body) if is_name(tgt, 'current_client_')]
                allst = [s for tgt, op, val, s in stores(fn.body)]
                owner = lambda x: any(op == '==' and ((is_name(l, 'current_client_') and mentions(r, fn.params[0]['n'])) or (is_name(r, 'current_client_') and mentions(l, fn.params[0]['n']))) for l, op, r in guard_atoms(fn, x) if not isinstance(r, int) and not isinstance(l, int))
                ok = len(st) == 1 and all(owner(x) for x in allst)
            else:
                pos = [r for r in fn.returns() if mentions(r, 'buffer_')]
                ok = len(pos) == 1 and any(op == '==' and is_name(l, 'current_client_') and mentions(r, fn.params[0]['n']) for l, op, r in guard_atoms(fn, pos[0]) if not isinstance(r, int))
            chk.instance('single-owner', fn, name + ' only for the owner', ok, '' if ok else 'queue contents are visible to / released by a client that does not own them', key=name)
    for fn in variants(facts, SV + 'client_disconnected', chk):
        c = fn.body.calls('free_write_queue')
        ok = len(c) == 1 and is_name(c[0].args()[0], fn.params[0]['n']) and not fn.guards(c[0])
        chk.instance('release-on-disconnect', fn, 'client_disconnected -> free_write_queue(client)', ok, '' if ok else 'disconnect does not release the queue', key='server')
    for fn in [f for f in variants(facts, 'bluetoe::link_layer::link_layer::force_disconnect', chk) if not f.params]:
        c = fn.body.calls('client_disconnected')
        ok = len(c) == 1 and is_name(c[0].args()[0], 'connection_data_') and not fn.guards(c[0])
        chk.instance('release-on-disconnect', fn, 'force_disconnect -> client_disconnected(connection_data_)', ok,
                     '' if ok else 'the link layer never tells the server that the client is gone: the next connection inherits (and can execute) the previous client\'s prepared writes', key='link layer')
    for fn in facts.functions:
        if fn.kind not in ('pattern', 'plain') or fn.name != 'read_size' or 'write_queue' not in fn.q:
            continue
        p0 = fn.params[0]['n']
        rs = fn.returns()
        ok, why = len(rs) == 1, 'expected one return'
        if ok:
            b = as_binop(ret_value(rs[0]))
            ok = b is not None and b[0] in ('+', '|')
            why = 'the length is not low + high * 256'
            if ok:
                def octet(n, k):
                    e = as_elem(n)
                    if e is None:
                        return False
                    base, idx = e
                    if isinstance(idx, int):
                        bb = as_binop(base)
                        return bb is not None and bb[0] == '-' and is_name(bb[1], p0) and cval(bb[2]) == k
                    return False
                lo = [x for x in b[1:] if octet(x, 2)]
                hi = None
                top = deep(ret_value(rs[0]))
                for x in (top.c if top is not None and len(top.c) == 2 else b[1:]):
                    raw = x
                    narrowed = False
                    while raw is not None and not isinstance(raw, int) and raw.k in CAST_KINDS + ('ParenExpr', 'ImplicitCastExpr') and raw.c:
                        if raw.k != 'ImplicitCastExpr' and any(w in (raw.t or '') for w in ('uint8_t', 'unsigned char', 'char')):
                            narrowed = True
                        raw = raw.c[0]
                    bb = as_binop(x)
                    if bb and ((bb[0] == '*' and 256 in (cval(bb[1]), cval(bb[2]))) or (bb[0] == '<<' and cval(bb[2]) == 8)) and any(octet(y, 1) for y in bb[1:]):
                        hi = (x, narrowed)
                ok = len(lo) == 1 and hi is not None and not hi[1]
                why = 'the high octet of the stored length is lost (narrowed to 8 bit after the shift, or missing): the length of a queued write is taken modulo 256 and the rest of its data is read as further queue elements'
        chk.instance('element-size-codec', fn, 'read_size = last[-2] + last[-1] * 256', ok, '' if ok else why, key='read_size')


def guard_before(fn, guard, r):
    return bool(guard) and guard[0].l < r.l and guard[0].parent is not None and guard[0].parent.parent is fn.body
