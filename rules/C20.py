"""C20 Data channel selection follows Channel Selection Algorithm #1 (second sentence + algorithm shape)."""
from .lib.match import *

SELECT = r'^bluetoe::link_layer::channel_map::|^bluetoe::link_layer::in_map$|^bluetoe::link_layer::link_layer::(adv_received|handle_pending_ll_control|start_advertising_impl)$|^bluetoe::link_layer::details::connection_state_base::'
UNITS = lambda u: u in ('lib_channel_map', 'w_inst_ll') or u.startswith('t_link_layer_channel_map')
CM = 'bluetoe::link_layer::channel_map::'
SPEC_MAX_LATENCY = 499   # Core 5.x Vol 6 Part B 4.5.1: connPeripheralLatency 0..499 (bluetoe: maximum_link_layer_peripheral_latency, enforced by link_layer::parameters_valid)
ALSO = [('C23', ('latency-bounded',))]   # a channel map takes effect at its instant only if the latency planner does not sleep over it: decided by C23's rule, run here as well
META = {
    'level': 'decides the second sentence of the property and the step structure of the algorithm: in channel_map::reset every store to the channel table (and the return true) is dominated by the '
             'failed tests hop < 5 || hop > 16 and used_channels_count < 2, so an invalid request leaves the table untouched; the connect path enters `connecting` only if reset() returned true; '
             'the table is filled by unmapped = (unmapped + hop) mod 37 starting at hop, used channels map to themselves and unused ones to used[unmapped mod count] with `used` built in ascending order. '
             'The index into that table (channel_index_) is advanced by exactly the step of the connection event counter modulo 37 in every function that moves the counter (timeouts, latency, moving a planned event back). Equality with the specification for all 2^37 maps is value reasoning and is not decided.',
    'technique': 'static guarded-by / store-shape rules over clang AST/CFG facts',
}


def index_tracks(chk, facts, rule='index-tracks-event-counter'):
    # the index into the precomputed hop table moves in lock step with the connection event counter
    from .lib.linear import Lin, lin
    CS = 'bluetoe::link_layer::details::connection_state_base::'
    maxlat = None
    for fn in [f for f in facts.functions if f.q.startswith(CS) and f.kind == 'pattern']:
        ci = [(op, val, st) for tgt, op, val, st in stores(fn.body) if target_name(tgt) == 'channel_index_']
        ec = [(op, val, st) for tgt, op, val, st in stores(fn.body) if target_name(tgt) == 'event_counter_']
        if not ci and not ec:
            continue
        probs = []
        if len(ci) != 1 or len(ec) != 1:
            probs.append('%d store(s) to channel_index_ and %d to event_counter_: the two are not updated as a pair' % (len(ci), len(ec)))
        else:
            (cop, cv, cst), (eop, ev, est) = ci[0], ec[0]
            step = Lin(1) if eop == '++' else (lin(fn, ev) if eop == '+=' else None)
            if eop == '=' and cval(ev) == 0:
                if not (cop == '=' and cval(cv) == 0):
                    probs.append('event counter reset without hop index reset')
            elif step is None:
                probs.append('event counter update %s not recognised' % est.text()[:40])
            else:
                b = as_binop(cv)
                if not (cop == '=' and b and b[0] == '%' and cval(b[2]) == 37):
                    probs.append('hop index is not advanced modulo 37')
                else:
                    x = lin(fn, b[1])
                    rest = (x - Lin(0, {'channel_index_': 1}) - step) if x is not None else None
                    if rest is None or rest.t:
                        probs.append('hop index advances by %s while the event counter advances by %s' % (x, step))
                    else:
                        k = rest.c
                        signed = any(p['n'] in step.t and p['t'].strip() in ('int', 'long', 'short') for p in fn.params)
                        if k % 37 != 0:
                            probs.append('hop index advances by %d more than the event counter (mod 37)' % (k % 37))
                        elif signed:
                            # step can be negative, down to -maximum_link_layer_peripheral_latency (asserted by the function, granted by link_layer's parameter check)
                            if k < SPEC_MAX_LATENCY:
                                probs.append('the step is signed (down to -499 = -maximum_link_layer_peripheral_latency) but only %d is added before the unsigned modulo: for steps below -(channel_index_ + %d) the sum wraps at 2^32, which is not a multiple of 37 - the hop index is off by 7 from then on' % (k, k))
        for st in ci[:1] + ec[:1]:
            pass
        chk.instance(rule, fn, '%s: channel_index_ and event_counter_ move together' % fn.name, not probs, '; '.join(probs), key=fn.name)



def run(chk, facts, tier):
    chk.rule('reset-validates-first', 'channel_map::reset(map, hop): every store to map_ and `return true` are control dependent on !(hop < 5 || hop > 16) and !(used_channels_count < 2)', floor=3)
    chk.rule('map-update-keeps-hop', 'channel_map::reset(map) (channel map update of a running connection) rebuilds the table with the hop increment stored by reset(map, hop), a field nothing else writes', floor=1)
    chk.rule('csa1-shape', 'unmapped channel advances by hop modulo 37 from hop; used channel -> itself, unused -> used_channels[unmapped % count]; used_channels collected ascending by channel', floor=3)
    chk.rule('index-tracks-event-counter', 'connection_state_base: every function that changes event_counter_ changes channel_index_ by the same step modulo 37 (and resets both together); '
             'where the step is signed, the constant added to keep the unsigned sum from wrapping is a multiple of 37 and at least the maximum peripheral latency (499)', floor=4)
    chk.rule('connect-needs-valid-map', 'link_layer::adv_received enters connecting only when channels_.reset(map, hop) returned true; hop is body[33] & 0x1f; a deferred channel map indication does not survive its connection', floor=2)
    # channel map update: same hop increment, taken from a field that only reset(map, hop) writes (with the validated hop)
    for fn in [f for f in variants(facts, CM + 'reset', chk) if len(f.params) == 1]:
        rs = fn.returns()
        call = ret_value(rs[0]) if len(rs) == 1 else None
        ok = call is not None and call.is_call('reset') and len(call.args()) == 2 and is_name(call.args()[0], fn.params[0]['n'])
        why = 'reset(map) does not delegate to reset(map, hop)'
        if ok:
            h = strip_casts(call.args()[1])
            ok = h.k == 'MemberExpr' and h.n is not None
            why = 'the hop increment used for a channel map update (%s) is not the stored hop of the connection' % h.text()[:40]
            if ok:
                ws = [(g, op, val) for g, tgt, op, val, st in field_stores(facts, h.n, CM) if op != 'init']
                ok = bool(ws) and all(g.name == 'reset' and len(g.params) == 2 and op == '=' and is_name(val, g.params[1]['n']) for g, op, val in ws)
                why = 'the stored hop increment %s is written by something else than reset(map, hop) = hop' % h.n
        chk.instance('map-update-keeps-hop', fn, 'reset(map) = reset(map, <hop stored by reset(map, hop)>)', ok, '' if ok else why + ': after LL_CHANNEL_MAP_IND the hop sequence is built with a different increment than the central uses', key='reset1')
    fns = [f for f in variants(facts, CM + 'reset', chk) if len(f.params) == 2]
    chk.require(bool(fns), 'channel_map::reset(map, hop) not found')
    for fn in fns:
        hop = fn.params[1]['n']
        def valid(node):
            ats = guard_atoms(fn, node)
            lo = lower_bound(ats, lambda n: is_name(n, hop))
            hi = upper_bound(ats, lambda n: is_name(n, hop))
            cnt = lower_bound(ats, lambda n: is_name(n, 'used_channels_count'))
            return lo is not None and lo >= 5 and hi is not None and hi <= 16 and cnt is not None and cnt >= 2
        for tgt, op, val, st in stores(fn.body):
            if target_name(tgt) == 'map_':
                chk.instance('reset-validates-first', fn, 'map_[..] = %s' % val.text(), valid(st), '' if valid(st) else 'the channel table is modified before hop/used-channel validation succeeded', node=st, key='store ' + val.text()[:30])
        for r in fn.returns():
            if cval(ret_value(r)) == 1:
                chk.instance('reset-validates-first', fn, 'return true', valid(r), '' if valid(r) else 'success reported for an invalid hop / channel map', node=r, key='return true')
        # shape
        loops = fn.body.find(lambda n: n.k == 'ForStmt')
        ok = len(loops) == 1
        if ok:
            init = {d.n: strip_casts(d.c[0]) for d in loops[0].child('init').find(lambda n: n.k == 'VarDecl') if d.c}
            ch = next((k for k, v in init.items() if is_name(v, hop)), None)
            adv = [val for tgt, op, val, st in stores(loops[0].child('body')) if is_name(tgt, ch)]
            b = as_binop(adv[0]) if adv else None
            ok = ch is not None and b is not None and b[0] == '%' and mentions(b[2], 'max_number_of_data_channels') and as_binop(b[1]) is not None and as_binop(b[1])[0] == '+' and is_name(as_binop(b[1])[1], ch) and is_name(as_binop(b[1])[2], hop)
        chk.instance('csa1-shape', fn, 'channel = (channel + hop) % 37 starting at hop', ok, '' if ok else 'unmapped channel sequence differs from CSA#1', key='advance')
        ok2 = False
        for tgt, op, val, st in stores(fn.body):
            if target_name(tgt) == 'map_':
                v = strip_casts(val)
                ats = guard_atoms(fn, st)
                inm = [o for l, o, r in ats if not isinstance(l, int) and strip_casts(l).is_call('in_map')]
                if v.k in REF_KINDS:
                    ok2 = ok2 or ('!=' in inm)
                elif v.k == 'ArraySubscriptExpr' and is_name(v.c[0], 'used_channels'):
                    b = as_binop(v.c[1])
                    if not ('==' in inm and b is not None and b[0] == '%' and is_name(b[2], 'used_channels_count')):
                        ok2 = False
                        break
        chk.instance('csa1-shape', fn, 'used -> channel, unused -> used_channels[channel % count]', ok2, '' if ok2 else 'remapping differs from CSA#1', key='remap')
    for fn in variants(facts, CM + 'build_used_channel_map', chk):
        loops = fn.body.find(lambda n: n.k == 'ForStmt')
        ok = len(loops) == 1 and any(op == '++' for tgt, op, val, st in stores(loops[0].child('inc'))) and any(cval(d.c[0]) == 0 for d in loops[0].child('init').find(lambda n: n.k == 'VarDecl') if d.c)
        st = [(tgt, val) for tgt, op, val, s in stores(fn.body) if target_name(tgt) == 'used']
        ok = ok and len(st) == 1 and is_name(strip_casts(st[0][0]).c[1], 'count')
        chk.instance('csa1-shape', fn, 'used[count++] = channel for ascending channel', ok, '' if ok else 'used channel list is not built in ascending order', key='used list')
    index_tracks(chk, facts)

    # a channel map comes from the current connection only: a LL_CHANNEL_MAP_IND still waiting for its instant is dropped with the connection
    for fn in variants(facts, 'bluetoe::link_layer::link_layer::start_advertising_impl', chk):
        clr = [st for tgt, op, val, st in stores(fn.body) if target_name(tgt) == 'defered_ll_control_pdu_' and not fn.guards(st)]
        chk.instance('connect-needs-valid-map', fn, 'start_advertising_impl drops a deferred LL control PDU', len(clr) == 1,
                     '' if clr else 'a channel map indication deferred in a lost connection survives: when the next connection reaches that event counter the old map is applied and the hop sequence no longer follows the connect request', key='deferred map dropped')
    for fn in variants(facts, 'bluetoe::link_layer::link_layer::adv_received', chk):
        st = [s for tgt, op, val, s in stores(fn.body) if is_name(tgt, 'state_') and strip_casts(val).n == 'connecting']
        ok = len(st) == 1
        if ok:
            rs = [strip_casts(l) for l, op, r in guard_atoms(fn, st[0]) if op == '!=' and cval(r) == 0 and not isinstance(l, int) and strip_casts(l).is_call('reset')]
            ok = len(rs) == 1 and len(rs[0].args()) == 2
            if ok:
                b = as_binop(rs[0].args()[1])
                ok = b is not None and b[0] == '&' and cval(b[2]) == 0x1f and mentions(b[1], 'body')
        chk.instance('connect-needs-valid-map', fn, 'state_ = connecting only if channels_.reset(&body[28], body[33] & 0x1f)', ok, '' if ok else 'connection entered with an unvalidated channel map / hop', key='connect')
