"""C26 White list behaves as a bounded set (software implementation: update shapes; radio-backed: delegation)."""
from .lib.match import *
from .lib.linear import Lin, lin
from .lib.witness import PRELUDE, run_witness

SELECT = r'^bluetoe::link_layer::details::white_list_implementation::'
UNITS = lambda u: u in ('w_inst_ll',) or u.startswith('t_link_layer_white')
WL = 'bluetoe::link_layer::details::white_list_implementation::'
EXACT = ('implementation-selection',)   # decided by the compiler on witness declarations: not gated by the golden structure
META = {
    'level': 'update-shape rules on the software white list white_list_implementation<Size, true>: the set is the prefix addresses_[0, Size - free_size_); each rule is a step of the induction that makes '
             'this prefix a duplicate-free set of at most Size addresses: membership searches exactly that prefix; add returns false only when the address is absent and free_size_ == 0, returns true without '
             'a store for a member, and otherwise stores at index Size - free_size_ and decrements free_size_ once; remove searches the prefix, returns false exactly when nothing was found, overwrites the found '
             'slot with the last live slot and increments free_size_ once; clear restores free_size_ = Size; free_size_ has no other writer; the two filters are `!own_flag || is_in_white_list(addr)` with the '
             'flag their own setter writes. The radio-backed variant forwards every operation to the radio function of the same name with the same argument. Decides these shapes (each a necessary '
             'condition: breaking one breaks the set behaviour for some history); the radio\'s own list (hardware) is not decided.',
    'technique': 'static store-shape / guarded-by / who-writes rules over clang AST/CFG facts',
}


def soft_and_radio(facts, name):
    fns = []
    for f in facts.fns(WL + name):
        if f.kind == 'pattern' and (f.file, f.line) not in {(g.file, g.line) for g in fns}:
            fns.append(f)   # one record per source definition (several units may carry the same pattern)
    soft = [f for f in fns if not f.body.calls() or not any((c.cn or '').startswith('radio_') for c in f.body.calls())]
    radio = [f for f in fns if any((c.cn or '').startswith('radio_') for c in f.body.calls())]
    return soft, radio


def is_live_end(fn, n):
    """n is begin(addresses_) + (Size - free_size_), possibly through a local"""
    n = strip_casts(n)
    if n.k in REF_KINDS and n.d.get('local'):
        i = local_init(fn, n.n, optional=True)
        return i is not None and is_live_end(fn, i)
    b = as_binop(n)
    if not (b and b[0] == '+'):
        return False
    base, off = strip_casts(b[1]), b[2]
    return base.is_call('begin') and mentions(base, 'addresses_') and lin(fn, off) == Lin(0, {'Size': 1, 'free_size_': -1})


def filter_form_ok(fn, flag):
    """the function returns true when `flag` is false and is_in_white_list(addr) otherwise: `!flag || in(addr)`, or `if ( !flag ) return true; return in(addr);` and the like"""
    outs = []

    def unfold(v, ats):
        v = strip_casts(v)
        if v.k == 'BinaryOperator' and v.o == '||':
            # a || b : true when a, else b
            return unfold_true(v.c[0], ats) + unfold(v.c[1], ats + atoms(v.c[0], False))
        if v.k == 'ConditionalOperator':
            return unfold(v.c[1], ats + atoms(v.c[0], True)) + unfold(v.c[2], ats + atoms(v.c[0], False))
        return [(v, ats)]

    def unfold_true(c, ats):
        return [('true', ats + atoms(c, True))]
    for r in fn.returns():
        if ret_value(r) is None:
            return False
        outs += unfold(ret_value(r), guard_atoms(fn, r))
    seen_true = seen_list = False
    for v, ats in outs:
        off = has_atom(ats, lambda n: is_name(n, flag), {'=='}, lambda o: cval(o) == 0)
        on = has_atom(ats, lambda n: is_name(n, flag), {'!='}, lambda o: cval(o) == 0)
        if v == 'true' or (not isinstance(v, str) and cval(v) == 1):
            if not off:
                return False
            seen_true = True
        elif not isinstance(v, str) and v.is_call('is_in_white_list') and len(v.args()) == 1 and is_name(v.args()[0], fn.params[0]['n']):
            if not on:
                return False
            seen_list = True
        else:
            return False
    return seen_true and seen_list


def deref_of(n):
    n = strip_casts(n)
    if n.k in ('UnaryOperator', 'CXXOperatorCallExpr') and n.o == '*' and n.c:
        return strip_casts(n.c[-1])
    return None


def selection_witness(chk):
    src = PRELUDE + '''#include <bluetoe/white_list.hpp>
namespace wit {
    namespace ll = bluetoe::link_layer;
    template < std::size_t N > struct radio { static constexpr std::size_t radio_maximum_white_list_entries = N; };
    struct link {};
    template < std::size_t Size, std::size_t Hw >
    struct uses_software : std::is_base_of< ll::details::white_list_implementation< Size, true, radio< Hw >, link >, typename ll::white_list< Size >::template impl< radio< Hw >, link > > {};
    template < std::size_t Size, std::size_t Hw >
    struct uses_radio : std::is_base_of< ll::details::white_list_implementation< Size, false, radio< Hw >, link >, typename ll::white_list< Size >::template impl< radio< Hw >, link > > {};
}
'''
    obl = []
    for size, hw, soft in ((8, 0, True), (8, 4, True), (5, 2, True), (1, 0, True), (9, 8, True), (8, 8, False), (4, 8, False), (1, 1, False)):
        key = 'select:%d:%d' % (size, hw)
        # the property needs a capacity of Size: the software list always has it, the radio-backed list only if the radio holds Size entries
        src += 'VERIF_ASSERT( "%s", wit::uses_software< %d, %d >::value != wit::uses_radio< %d, %d >::value && ( wit::uses_software< %d, %d >::value || %d >= %d ) );\n' % (key, size, hw, size, hw, size, hw, hw, size)
        obl.append((key, 'white_list<%d> on a radio with %d hardware entries has room for %d addresses (%s)' % (size, hw, size, 'software implementation' if soft else 'either implementation')))
    run_witness(chk, 'implementation-selection', 'c26_select', src, obl)


def run(chk, facts, tier):
    chk.rule('membership-over-live-prefix', 'is_in_white_list(addr) is find(begin(addresses_), begin(addresses_) + (Size - free_size_), addr) != that end', floor=1)
    chk.rule('add-shape', 'add_to_white_list: `return false` only when the address is absent and free_size_ == 0; a member returns true without any store; otherwise addresses_[Size - free_size_] = addr and one --free_size_', floor=1)
    chk.rule('remove-shape', 'remove_from_white_list: finds in the live prefix, returns false exactly when not found, overwrites the found slot with the last live slot, one ++free_size_', floor=1)
    chk.rule('free-size-writers', 'free_size_ is written only by the constructor and clear_white_list (= Size), add (--) and remove (++)', floor=4)
    chk.rule('filter-shape', 'is_connection_request_in_filter / is_scan_request_in_filter return !own_filter_flag || is_in_white_list(addr); the setters store, the getters return, their own flag', floor=6)
    chk.rule('implementation-selection', 'white_list<Size>::impl<Radio, LinkLayer> is the radio-backed implementation only if the radio holds at least Size entries, else the software list: in both cases a set of at most Size addresses (static_assert witnesses over Size x hardware entries)', floor=8)
    selection_witness(chk)
    chk.rule('radio-delegation', 'the radio-backed white list forwards each operation to radio_<same name>(same arguments) and returns its result', floor=10)

    # --- membership
    soft, _ = soft_and_radio(facts, 'is_in_white_list')
    chk.require(len(soft) == 1, 'software is_in_white_list not found')
    for fn in soft:
        r = fn.returns()
        ok = False
        if not fn.body.calls('find'):
            chk.broke('is_in_white_list no longer uses std::find over the live prefix (hand written search?): idiom not recognised, membership not decided')
            continue
        if len(r) == 1:
            b = as_binop(ret_value(r[0]))
            if b and b[0] == '!=':
                f, e = strip_casts(b[1]), strip_casts(b[2])
                ok = f.is_call('find') and len(f.args()) == 3 and strip_casts(f.args()[0]).is_call('begin') and mentions(f.args()[0], 'addresses_') and is_live_end(fn, f.args()[1]) \
                    and is_name(f.args()[2], fn.params[0]['n']) and (same_expr(e, strip_casts(f.args()[1])) or is_live_end(fn, e))
        chk.instance('membership-over-live-prefix', fn, 'find over [begin, begin + (Size - free_size_))', ok, '' if ok else 'membership is not decided over exactly the live entries: removed or never added slots are matched, or live ones are missed', key='is_in_white_list')

    # --- add
    soft, _ = soft_and_radio(facts, 'add_to_white_list')
    chk.require(len(soft) == 1, 'software add_to_white_list not found')
    for fn in soft:
        a = fn.params[0]['n']

        def member_atom(ats, want):
            return any(op == want and cval(r) == 0 and not isinstance(l, int) and strip_casts(l).is_call('is_in_white_list') and is_name(strip_casts(l).args()[0], a) for l, op, r in ats)
        probs = []
        sts = [(tgt, op, val, st) for tgt, op, val, st in stores(fn.body)]
        slot = [(tgt, val, st) for tgt, op, val, st in sts if strip_casts(tgt).k == 'ArraySubscriptExpr' and is_name(strip_casts(tgt).c[0], 'addresses_')]
        dec = [st for tgt, op, val, st in sts if target_name(tgt) == 'free_size_']
        if len(slot) != 1 or len(dec) != 1 or len(sts) != 2:
            probs.append('expected exactly one slot store and one free_size_ update, found %d stores' % len(sts))
        else:
            tgt, val, st = slot[0]
            if lin(fn, strip_casts(tgt).c[1]) != Lin(0, {'Size': 1, 'free_size_': -1}):
                probs.append('the new address is stored at index %s, not at the end of the live prefix (Size - free_size_)' % strip_casts(tgt).c[1].text())
            if not is_name(val, a):
                probs.append('the stored value is not the given address')
            ats = guard_atoms(fn, st)
            if not has_atom(ats, lambda n: is_name(n, 'free_size_'), {'!=', '>'}, lambda o: cval(o) == 0):
                probs.append('the slot store is not guarded by free_size_ != 0: with a full list it writes behind addresses_')
            if not member_atom(ats, '=='):
                probs.append('the slot store is not guarded by !is_in_white_list(addr): a duplicate entry survives a later remove')
            d = dec[0]
            if not (d.k == 'UnaryOperator' and d.o == '--') or fn.block_of(d) != fn.block_of(st) or not precedes(fn, st, d):
                probs.append('free_size_ is not decremented once, right after the slot store')
        for r in fn.returns():
            v = cval(ret_value(r))
            ats = guard_atoms(fn, r)
            if v == 0:
                if not (has_atom(ats, lambda n: is_name(n, 'free_size_'), {'=='}, lambda o: cval(o) == 0) and member_atom(ats, '==')):
                    probs.append('`return false` at line %d is not restricted to (address absent && free_size_ == 0): adding an address that already is in a full list must succeed (idempotent)' % r.l)
            elif v != 1:
                probs.append('return value at line %d is computed' % r.l)
        chk.instance('add-shape', fn, 'add_to_white_list: member -> true; full -> false; else append', not probs, '; '.join(probs), key='add_to_white_list')

    # --- remove
    soft, _ = soft_and_radio(facts, 'remove_from_white_list')
    chk.require(len(soft) == 1, 'software remove_from_white_list not found')
    for fn in soft:
        a = fn.params[0]['n']
        probs = []
        pos = [n for n in fn.body.walk() if n.k == 'VarDecl' and n.c and strip_casts(n.c[0]).is_call('find')]
        if len(pos) != 1:
            probs.append('the position is not looked up by one std::find')
        else:
            f = strip_casts(pos[0].c[0])
            pn = pos[0].n
            if not (len(f.args()) == 3 and strip_casts(f.args()[0]).is_call('begin') and mentions(f.args()[0], 'addresses_') and is_live_end(fn, f.args()[1]) and is_name(f.args()[2], a)):
                probs.append('find does not search the live prefix for the given address')
            endn = strip_casts(f.args()[1])

            def notfound(ats, want):
                return any(op == want and not isinstance(r, int) and ((is_name(l, pn) and same_expr(strip_casts(r), endn)) or (is_name(r, pn) and same_expr(strip_casts(l), endn))) for l, op, r in ats)
            sts = [(tgt, op, val, st) for tgt, op, val, st in stores(fn.body)]
            mv = [(tgt, val, st) for tgt, op, val, st in sts if deref_of(tgt) is not None and is_name(deref_of(tgt), pn)]
            inc = [st for tgt, op, val, st in sts if target_name(tgt) == 'free_size_']
            if len(mv) != 1 or len(inc) != 1 or len(sts) != 2:
                probs.append('expected `*pos = *(end - 1)` and one ++free_size_, found %d stores' % len(sts))
            else:
                tgt, val, st = mv[0]
                vb = as_binop(deref_of(val)) if deref_of(val) is not None else None
                if not (vb and vb[0] == '-' and same_expr(strip_casts(vb[1]), endn) and cval(vb[2]) == 1):
                    probs.append('the freed slot is not refilled with the last live entry *(end - 1): an entry is lost or duplicated')
                if not notfound(guard_atoms(fn, st), '!='):
                    probs.append('the slot is overwritten although nothing was found')
                i = inc[0]
                if not (i.k == 'UnaryOperator' and i.o == '++') or not notfound(guard_atoms(fn, i), '!='):
                    probs.append('free_size_ is not incremented exactly once for a found entry')
            for r in fn.returns():
                v = cval(ret_value(r))
                ats = guard_atoms(fn, r)
                if v == 0 and not notfound(ats, '=='):
                    probs.append('`return false` at line %d although the address may have been found' % r.l)
                if v == 1 and not notfound(ats, '!='):
                    probs.append('`return true` at line %d although the address may not have been found' % r.l)
                if v == 1 and len(inc) == 1 and not precedes(fn, inc[0], r):
                    probs.append('`return true` at line %d without ++free_size_ on the way: the address is reported as removed but stays a member (and the free size is one too small)' % r.l)
                if v not in (0, 1):
                    probs.append('return value at line %d is computed' % r.l)
        chk.instance('remove-shape', fn, 'remove_from_white_list: swap-with-last removal of the found entry', not probs, '; '.join(probs), key='remove_from_white_list')

    # --- who writes free_size_
    for fn, tgt, op, val, st in field_stores(facts, 'free_size_', WL):
        if fn.kind not in ('pattern',):
            continue
        v = strip_casts(val.c[0]) if (op == 'init' and val is not None and val.k in ('ParenListExpr', 'InitListExpr') and val.c) else (strip_casts(val) if val is not None else None)
        if op == 'init' or fn.name in ('clear_white_list', 'white_list_implementation'):
            ok = v is not None and v.n == 'Size'
            why = 'the list does not start / restart empty (free_size_ = Size)'
        elif fn.name == 'add_to_white_list':
            ok, why = op == '--', 'add changes free_size_ by something else than -1'
        elif fn.name == 'remove_from_white_list':
            ok, why = op == '++', 'remove changes free_size_ by something else than +1'
        else:
            ok, why = False, '%s() changes the number of live entries' % fn.name
        chk.instance('free-size-writers', fn, 'free_size_ %s %s in %s' % (op, v.text() if v is not None else '', fn.name), ok, '' if ok else why, node=st, key='%s in %s' % (op, fn.name))

    # --- filters
    for kind in ('connection', 'scan'):
        flag = kind + '_filter_'
        soft, _ = soft_and_radio(facts, 'is_%s_request_in_filter' % kind)
        chk.require(len(soft) == 1, 'software is_%s_request_in_filter not found' % kind)
        for fn in soft:
            ok = filter_form_ok(fn, flag)
            chk.instance('filter-shape', fn, 'return !%s || is_in_white_list(addr)' % flag, ok, '' if ok else 'the %s filter does not accept exactly (filter off or address in the list): wrong flag or wrong test' % kind, key='is_%s_request_in_filter' % kind)
        soft, _ = soft_and_radio(facts, '%s_request_filter' % kind)
        chk.require(len(soft) == 2, 'software %s_request_filter setter/getter not found' % kind)
        for fn in soft:
            if fn.params:
                sts = [(tgt, val) for tgt, op, val, st in stores(fn.body)]
                ok = len(sts) == 1 and is_name(sts[0][0], flag) and is_name(sts[0][1], fn.params[0]['n'])
                chk.instance('filter-shape', fn, '%s_request_filter(b): %s = b' % (kind, flag), ok, '' if ok else 'the setter does not store its own flag', key='%s setter' % kind)
            else:
                r = fn.returns()
                ok = len(r) == 1 and is_name(ret_value(r[0]), flag) and not list(stores(fn.body))
                chk.instance('filter-shape', fn, '%s_request_filter(): return %s' % (kind, flag), ok, '' if ok else 'the getter does not return its own flag', key='%s getter' % kind)

    # --- radio-backed variant: pure forwarding
    n = 0
    seen_defs = set()
    for fn in [f for f in facts.functions if f.q.startswith(WL) and f.kind == 'pattern']:
        if (fn.file, fn.line) in seen_defs:
            continue
        seen_defs.add((fn.file, fn.line))
        rc = [c for c in fn.body.calls() if (c.cn or '').startswith('radio_')]
        if not rc:
            continue
        n += 1
        c = rc[0]
        ok = len(rc) == 1 and c.cn == 'radio_' + fn.name and len(c.args()) == len(fn.params) and all(is_name(x, p['n']) for x, p in zip(c.args(), fn.params)) and not list(stores(fn.body))
        if ok and fn.returns():
            ok = len(fn.returns()) == 1 and ret_value(fn.returns()[0]) is not None and strip_casts(ret_value(fn.returns()[0])).i == c.i
        chk.instance('radio-delegation', fn, '%s(%s) -> %s' % (fn.name, ', '.join(p['n'] for p in fn.params), c.cn), ok, '' if ok else 'the radio-backed white list does not forward this operation unchanged', key='radio %s/%d' % (fn.name, len(fn.params)))
