"""C30 The interrupt-safe ring is a lossless FIFO under any interleaving (pattern conformance)."""
from .lib.match import *

UNITS = lambda u: u in ('w_inst_ll',) or u.startswith('t_ring') or u.startswith('t_link_layer_connection_callbacks')
SELECT = r'^bluetoe::details::ring::'
META = {
    'level': 'conformance of details::ring::try_push/try_pop (template pattern and every instantiation) to Lamport\'s single-producer/single-consumer '
             'bounded queue, whose correctness for all interleavings under sequentially consistent (or release/acquire) index accesses is a standard result: '
             'atomic indices, data written before the write index is published, data read before the read index is published, each side stores only its own '
             'index, full/empty tests, capacity S+1 slots. Decides conformance to the pattern, not the proof of the pattern.',
    'technique': 'static pattern-conformance rule (ordering, who-writes, guards) over clang AST/CFG facts',
}


def check_side(chk, fn, own, other, data_dir):
    """own: index this side publishes; other: index it must not store."""
    side = fn.name
    key = side + ':'
    # 1. indices loaded atomically with default / acquire order
    loads = {}
    for nm in ('read_ptr_', 'write_ptr_'):
        cs = member_calls(fn.body, nm, 'load')
        ok = len(cs) >= 1 and all(not c.args() or all((a.n or '').replace('memory_order_', '') in ('seq_cst', 'acquire') or (a.v in (2, 5)) for a in c.args()) for c in cs)
        chk.instance('atomic-access', fn, '%s.load()' % nm, ok, '' if ok else 'index %s not read through an acquire/seq_cst atomic load' % nm, key=key + nm + '.load')
    # 2. no store to the other side's index
    bad = member_calls(fn.body, other, 'store') + [st for tgt, op, val, st in stores(fn.body) if target_name(tgt) == other]
    chk.instance('own-index-only', fn, 'no store to ' + other, not bad, '' if not bad else '%s stores the other side\'s index %s' % (side, other), key=key + 'no store ' + other)
    # 3. publish
    pubs = member_calls(fn.body, own, 'store')
    raw = [st for tgt, op, val, st in stores(fn.body) if target_name(tgt) == own]
    if len(pubs) != 1 or raw:
        chk.instance('publish', fn, own + '.store(next)', False, 'expected exactly one %s.store(..) and no plain assignment; found %d/%d' % (own, len(pubs), len(raw)), key=key + 'publish')
        return
    pub = pubs[0]
    relaxed = any((a.n or '').endswith('relaxed') or (a.n or '').endswith('consume') or a.v == 0 for a in pub.args()[1:])
    chk.instance('atomic-access', fn, own + '.store order', not relaxed, '' if not relaxed else 'index published with relaxed order: the data slot may be seen stale', node=pub, key=key + own + '.store order')
    arg = strip_casts(pub.args()[0])
    cur = 'write' if own == 'write_ptr_' else 'read'
    nxt_init = local_init(fn, arg.n) if arg.k in REF_KINDS else arg
    ok = False
    cur_var = None
    if nxt_init is not None and nxt_init.k == 'BinaryOperator' and nxt_init.o == '%' and is_name(nxt_init.c[1], 'length'):
        a = strip_casts(nxt_init.c[0])
        if a.k == 'BinaryOperator' and a.o == '+' and cval(a.c[0]) == 1 and cval(a.c[1]) != 1:
            a.c[0], a.c[1] = a.c[1], a.c[0]               # `1 + index` reads `index + 1`
        if a.k == 'BinaryOperator' and a.o == '+' and cval(a.c[1]) == 1 and strip_casts(a.c[0]).k in REF_KINDS:
            cur_var = strip_casts(a.c[0]).n
            ci = local_init(fn, cur_var)
            ok = ci is not None and ci.is_call('load') and is_name(base_object(ci), own)
    chk.instance('publish', fn, '%s.store(%s)' % (own, arg.text()), ok, '' if ok else 'published value is not (own index + 1) %% length of the atomically loaded own index', node=pub, key=key + 'publish')
    if not ok:
        return
    # 4. data access before publish, indexed by the loaded own index
    acc = None
    for tgt, op, val, st in stores(fn.body):
        t = strip_casts(tgt)
        v = strip_casts(val) if val is not None else None
        if data_dir == 'write' and t.k in ('ArraySubscriptExpr', 'CXXOperatorCallExpr') and target_name(t) == 'data_':
            acc, idx = st, strip_casts(t.c[1])
        if data_dir == 'read' and v is not None and v.k in ('ArraySubscriptExpr', 'CXXOperatorCallExpr') and target_name(v) == 'data_':
            acc, idx = st, strip_casts(v.c[1])
    ok = acc is not None and is_name(idx, cur_var) and precedes(fn, acc, pub)
    chk.instance('data-before-publish', fn, 'data_[%s] %s before %s.store' % (cur_var, data_dir, own), ok,
                 '' if ok else 'the slot is not accessed (at the loaded own index) before the index is published: the other side can observe the slot too early', node=acc or pub, key=key + 'data-before-publish')
    # 5. full / empty test
    oth_var = None
    for d in fn.body.find(lambda n: n.k == 'VarDecl'):
        ci = strip_casts(d.c[0]) if d.c else None
        if ci is not None and ci.is_call('load') and is_name(base_object(ci), other):
            oth_var = d.n
    subj = arg.n if own == 'write_ptr_' else cur_var       # push: next == read ; pop: read == write
    def is_fail_atom(l, op, r, want):
        return op == want and not isinstance(r, int) and ((is_name(l, subj) and is_name(r, oth_var)) or (is_name(r, subj) and is_name(l, oth_var)))
    rets = fn.returns()
    okf = okt = bool(rets)
    nf = nt = 0
    for r in rets:
        v = cval(ret_value(r))
        ats = guard_atoms(fn, r)
        if v == 0:
            nf += 1
            okf = okf and any(is_fail_atom(l, op, rr, '==') for l, op, rr in ats)
        elif v == 1:
            nt += 1
            okt = okt and any(is_fail_atom(l, op, rr, '!=') for l, op, rr in ats)
        else:
            okf = okt = False
    ats = guard_atoms(fn, pub)
    okp = any(is_fail_atom(l, op, rr, '!=') for l, op, rr in ats)
    what = 'full' if own == 'write_ptr_' else 'empty'
    ok = okf and okt and okp and nf == 1 and nt == 1
    chk.instance('full-empty-test', fn, 'fails exactly when %s == %s' % (subj, oth_var), ok,
                 '' if ok else '%s must fail exactly on the %s test (%s == %s) and publish only otherwise' % (side, what, subj, oth_var), key=key + 'full-empty')


def run(chk, facts, tier):
    chk.rule('atomic-fields', 'read_ptr_ and write_ptr_ are std::atomic integers; length == S + 1 slots', floor=2)
    chk.rule('atomic-access', 'indices are read with load() and published with store() using seq_cst/acquire/release order', floor=6)
    chk.rule('own-index-only', 'try_push never stores read_ptr_, try_pop never stores write_ptr_', floor=2)
    chk.rule('publish', 'each side publishes (own index + 1) % length of the index it loaded, exactly once', floor=2)
    chk.rule('data-before-publish', 'the slot is written (push) / read (pop) before the index is published', floor=2)
    chk.rule('full-empty-test', 'push fails exactly when next == read, pop fails exactly when read == write', floor=2)
    cls = facts.cls('bluetoe::details::ring')
    chk.require(any(c['kind'] == 'pattern' for c in cls), 'class bluetoe::details::ring not found')
    for c in cls:
        fl = {f['n']: f['t'] for f in c['fields']}
        for nm in ('read_ptr_', 'write_ptr_'):
            ok = 'atomic' in fl.get(nm, '')
            chk.obligation('atomic-fields', 'bluetoe::details::ring (%s)' % c['kind'], nm + ' : ' + fl.get(nm, '?'), ok, '' if ok else nm + ' is not an atomic type: index updates are not atomic/ordered', key='field ' + nm)
        if c['kind'] == 'pattern':
            init = {s['n']: s.get('init') for s in c['statics']}.get('length')
            ok = init is not None and init.replace(' ', '') in ('S+1', '1+S')
            chk.obligation('atomic-fields', 'bluetoe::details::ring (pattern)', 'length = %s' % init, ok, '' if ok else 'capacity S needs S+1 slots', key='length')
        if c['kind'] == 'inst':
            ln = {s['n']: s.get('v') for s in c['statics']}.get('length')
            import re
            m = re.match(r'<(\d+)', c['targs'])
            S = int(m.group(1)) if m else None
            if S is not None:
                ok = ln == S + 1
                chk.obligation('atomic-fields', 'bluetoe::details::ring<%d>' % S, 'length == %s' % ln, ok, '' if ok else 'capacity S needs S+1 slots', key='length')
    for side, own, other, d in (('try_push', 'write_ptr_', 'read_ptr_', 'write'), ('try_pop', 'read_ptr_', 'write_ptr_', 'read')):
        for fn in variants(facts, 'bluetoe::details::ring::' + side, chk):
            check_side(chk, fn, own, other, d)
