"""C37 Security toolbox functions compute the specified cryptography (composition and byte layout against the specification's formulas)."""
import json, os
from .lib.match import *
from .lib.facts import VERIF, AnalysisBroken

SELECT = r'^bluetoe::nrf52_details::|^bluetoe::details::security_manager_base::lesc_handle_pairing_public_key$|^uECC_valid_public_key$'
UNITS = lambda u: u in ('nrf_security_tool_box', 'nrf_nrf52', 'w_inst_sm', 'c_uecc')
NS = 'bluetoe::nrf52_details::'
TB = NS + 'security_tool_box::'
EXACT = ('formula',)   # verdicts computed from the meaning of the code (compiler / folding / symbolic terms): not gated by the golden structure
META = {
    'level': 'symbolic term extraction (no execution): each toolbox function is straight-line code over 16 byte blocks; the analysis interprets its statements abstractly - std::copy / element stores with constant '
             'offsets give every byte of a local buffer a symbolic origin (parameter byte, constant, address type), aes_le / xor_ / the CMAC sub-key generators are uninterpreted symbols, static helpers '
             '(f5_key, f5_cmac) are inlined - and the resulting term is compared with the term generated from the Core specification\'s definition frozen in spec/smp_crypto.json: '
             'c1 = e(k, e(k, r XOR p1) XOR p2), s1 = e(k, r1\' || r2\'), and f4, f5, f6, g2 as AES-CMAC (RFC 4493: block chaining, 10* padding, K1 for complete and K2 for padded last blocks) over the specified field '
             'sequence in the specified octet order, with the little-endian in-memory convention of the toolbox. The primitives are pinned by shape rules: aes_le reverses key and data into the ECB scratch area and '
             'reverses the result out of it, xor_ is a byte-wise xor, left_shift / the sub-key generators follow RFC 4493 in little-endian form, is_valid_public_key hands both coordinates byte-reversed to '
             'uECC_valid_public_key, and setup_encryption derives the session key as e(LTK, SKDm || SKDs). The security manager uses a received public key only behind is_valid_public_key. Decides that the compositions are the specified formulas for every input; the AES hardware block, '
             'uECC and the spec transcription are trusted.',
    'technique': 'static symbolic term / byte-layout extraction from the clang AST compared with specification formulas',
}

LEN = {'uint128_t': 16, 'array': 16, 'device_address': 6, 'io_capabilities_t': 3, 'ecdh_shared_secret_t': 32, 'ecdh_public_key_t': 64, 'ecdh_private_key_t': 32}
PRIMS = {'aes_le': 'E', 'xor_': 'X', 'aes_cmac_k1_subkey_generation': 'K1', 'aes_cmac_k2_subkey_generation': 'K2'}


class Unrecognised(Exception):
    pass


def tlen(t, tn=None):
    t = t or ''
    if tn in LEN:
        return LEN[tn]
    for k, v in LEN.items():
        if k in t:
            return v
    import re
    m = re.search(r'\[(\d+)\]', t)
    if m:
        return int(m.group(1))
    m = re.search(r'array<[^,]+,\s*(\d+)>', t)
    if m:
        return int(m.group(1))
    return None


# ---- values: ('bytes', [byte descriptors]) | ('ptr', name-or-bytes, offset) | ('term', T) | ('scalar', descriptor)
def X(*ops):
    flat = []
    for o in ops:
        if isinstance(o, tuple) and o and o[0] == 'X':
            flat += list(o[1])
        else:
            flat.append(o)
    return ('X', tuple(sorted(flat, key=repr)))


class Interp:
    def __init__(self, facts, fn, args=None):
        self.facts = facts
        self.fn = fn
        self.env = {}
        for i, p in enumerate(fn.params):
            if args is not None:
                self.env[p['n']] = args[i]
            else:
                n = tlen(p['t'], p.get('tn'))
                if '*' in p['t']:
                    self.env[p['n']] = ('ptr', p['n'], 0)
                elif n is not None:
                    self.env[p['n']] = ('bytes', [(p['n'], j) for j in range(n)])
                else:
                    self.env[p['n']] = ('scalar', ('val', p['n']))
        self.ret = None

    # -- byte sources
    def block(self, v, n=16):
        """16 byte block denoted by a value"""
        if v[0] == 'bytes':
            if len(v[1]) < n:
                raise Unrecognised('block of %d bytes taken from %d bytes' % (n, len(v[1])))
            return ('blk', tuple(v[1][:n]))
        if v[0] == 'ptr':
            base, off = v[1], v[2]
            if isinstance(base, str):
                return ('blk', tuple((base, off + j) for j in range(n)))
            if off + n > len(base):
                raise Unrecognised('block [%d, %d) outside a %d byte buffer' % (off, off + n, len(base)))
            return ('blk', tuple(base[off:off + n]))
        if v[0] == 'term':
            return v[1]
        raise Unrecognised('not a block: %r' % (v,))

    def ev(self, n):
        n = strip_casts(n)
        if n.k == 'CXXConstructExpr' and len(n.c) == 1:
            return self.ev(n.c[0])
        if n.k in ('MaterializeTemporaryExpr', 'CXXBindTemporaryExpr', 'ExprWithCleanups') and n.c:
            return self.ev(n.c[0])
        if n.v is not None and not n.c:
            return ('scalar', n.v)
        if n.k in REF_KINDS:
            if n.n in self.env:
                return self.env[n.n]
            raise Unrecognised('unknown name %s' % n.n)
        if n.k == 'UnaryOperator' and n.o == '&':
            s = strip_casts(n.c[0])
            if s.k == 'ArraySubscriptExpr' or (s.k == 'CXXOperatorCallExpr' and s.o == '[]'):
                base, idx = self.ev(s.c[-2] if s.k == 'CXXOperatorCallExpr' else s.c[0]), cval(s.c[-1])
                if idx is None:
                    raise Unrecognised('non-constant index %s' % s.text())
                return self.offset(base, idx)
        if n.k == 'BinaryOperator' and n.o == '+':
            base, idx = self.ev(n.c[0]), cval(n.c[1])
            if idx is not None and base[0] in ('ptr', 'bytes'):
                return self.offset(base, idx)
        if n.k == 'ArraySubscriptExpr' or (n.k == 'CXXOperatorCallExpr' and n.o == '[]'):
            base, idx = self.ev(n.c[-2] if n.k == 'CXXOperatorCallExpr' else n.c[0]), cval(n.c[-1])
            if idx is None:
                raise Unrecognised('non-constant index %s' % n.text())
            p = self.offset(base, idx)
            return ('scalar', p[1][p[2]] if not isinstance(p[1], str) else (p[1], p[2]))
        if n.k == 'ConditionalOperator':
            c = strip_casts(n.c[0])
            if c.is_call('is_random') and cval(n.c[1]) == 1 and cval(n.c[2]) == 0:
                o = base_object(c)
                return ('scalar', ('type', strip_casts(o).n))
        if (n.k in ('InitListExpr', 'CXXConstructExpr') or n.d.get('ctor')) and len(n.c) == 2 and 'pair' in (n.t or '') + (n.cn or ''):
            return ('pair', self.ev(n.c[0]), self.ev(n.c[1]))
        if n.d.get('call'):
            return self.call(n)
        raise Unrecognised('expression %s (%s)' % (n.text()[:50], n.k))

    def offset(self, base, idx):
        if base[0] == 'ptr':
            return ('ptr', base[1], base[2] + idx)
        if base[0] == 'bytes':
            return ('ptr', base[1], idx)
        raise Unrecognised('offset into %r' % (base[0],))

    def call(self, n):
        cn = n.cn
        args = n.args()
        if cn in PRIMS:
            if cn == 'aes_le':
                k, d = self.ev(args[0]), self.ev(args[1])
                return ('term', ('E', self.block(k), self.block(d)))
            if cn == 'xor_':
                a, b = self.ev(args[0]), self.ev(args[1])
                return ('term', X(self.block(a), self.block(b)))
            return ('term', (PRIMS[cn], self.block(self.ev(args[0]))))
        if cn in ('begin', 'data') and (n.k == 'CXXMemberCallExpr' or len(args) == 1):
            o = base_object(n) if n.k == 'CXXMemberCallExpr' else args[0]
            v = self.ev(o)
            if v[0] == 'bytes':
                return ('ptr', v[1], 0)
            if v[0] == 'term':
                return v
            return v
        if cn == 'end' and (n.k == 'CXXMemberCallExpr' or len(args) == 1):
            o = base_object(n) if n.k == 'CXXMemberCallExpr' else args[0]
            v = self.ev(o)
            if v[0] == 'bytes':
                return ('ptr', v[1], len(v[1]))
        if cn == 'read_32bit':
            v = self.ev(args[0])
            if v[0] == 'term':
                return ('term', ('lo32', v[1]))
        # static helper of the tool box: inline
        cands = [f for f in self.facts.functions if f.name == cn and f.q.startswith(NS) and f.kind in ('plain', 'pattern') and len(f.params) == len(args)]
        if cands:
            it = Interp(self.facts, cands[0], [self.ev(a) for a in args])
            return it.run()
        raise Unrecognised('call %s' % cn)

    def store_bytes(self, dst, src_bytes):
        if dst[0] != 'ptr' or isinstance(dst[1], str):
            raise Unrecognised('copy destination is not a local buffer')
        buf, off = dst[1], dst[2]
        if off + len(src_bytes) > len(buf):
            raise Unrecognised('copy of %d bytes at %d overruns a %d byte buffer' % (len(src_bytes), off, len(buf)))
        buf[off:off + len(src_bytes)] = src_bytes

    def rng(self, a, b):
        a, b = self.ev(a), self.ev(b)
        if a[0] == 'ptr' and b[0] == 'ptr' and (a[1] is b[1] or a[1] == b[1]):
            if isinstance(a[1], str):
                return [(a[1], j) for j in range(a[2], b[2])]
            return list(a[1][a[2]:b[2]])
        raise Unrecognised('copy source range')

    def stmt(self, s):
        if s.k == 'DeclStmt':
            for d in s.c:
                if d.k == 'VarDecl':
                    self.decl(d)
            return
        if s.k == 'ReturnStmt':
            self.ret = self.ev(s.c[0]) if s.c else None
            return
        e = strip_casts(s)
        if e.d.get('call') and e.cn == 'copy' and len(e.args()) == 3:
            a = e.args()
            self.store_bytes(self.ev(a[2]), self.rng(a[0], a[1]))
            return
        if e.k == 'BinaryOperator' and e.o == '=':
            t = strip_casts(e.c[0])
            if t.k == 'ArraySubscriptExpr' or (t.k == 'CXXOperatorCallExpr' and t.o == '[]'):
                base, idx = self.ev(t.c[-2] if t.k == 'CXXOperatorCallExpr' else t.c[0]), cval(t.c[-1])
                v = self.ev(e.c[1])
                if idx is None or v[0] != 'scalar' or base[0] != 'bytes':
                    raise Unrecognised('element store %s' % e.text()[:50])
                base[1][idx] = v[1]
                return
        if e.d.get('call') and e.cn in ('assert', '__assert_fail'):
            return
        if e.k in ('CXXStaticCastExpr', 'CStyleCastExpr', 'NullStmt', 'StaticAssertDecl'):
            return
        raise Unrecognised('statement %s (%s)' % (s.text()[:60], s.k))

    def decl(self, d):
        n = tlen(d.t, d.d.get('tn'))
        init = d.c[0] if d.c else None
        if init is not None and init.k == 'CXXConstructExpr' and not init.c:
            init = None
        init = strip_casts(init) if init is not None else None
        if init is None:
            if n is None:
                raise Unrecognised('declaration %s' % d.n)
            self.env[d.n] = ('bytes', [('undef', d.n, j) for j in range(n)])
            return
        il = init
        while il.k == 'InitListExpr' and len(il.c) == 1 and il.c[0].k == 'InitListExpr':
            il = il.c[0]
        if il.k == 'InitListExpr' and n is not None and not ('pair' in (d.t or '')):
            vals = []
            for e in il.c:
                v = self.ev(e)
                if v[0] != 'scalar':
                    raise Unrecognised('initialiser element %s' % e.text()[:30])
                vals.append(v[1])
            if len(vals) > n:
                raise Unrecognised('too many initialisers')
            self.env[d.n] = ('bytes', vals + [0] * (n - len(vals)))
            return
        self.env[d.n] = self.ev(init)

    def run(self):
        for s in self.fn.body.c:
            self.stmt(s)
        if self.ret is None:
            raise Unrecognised('no return value in %s' % self.fn.name)
        return self.ret


# ---------------- specification side
def field_bytes(f):
    """most significant octet first"""
    k = f[0]
    if k == 'le':          # a value of L octets held least significant octet first under `name`
        return [(f[1], j) for j in reversed(range(f[2]))]
    if k == 'le_part':     # octets [lo, hi) of a little endian value
        return [(f[1], j) for j in reversed(range(f[2], f[3]))]
    if k == 'const':       # octets as written in the specification (most significant first)
        return list(f[1])
    if k == 'val':
        return [('val', f[1])]
    if k == 'addr7':       # address type octet (most significant) followed by the 6 address octets
        return [('type', f[1])] + [(f[1], j) for j in reversed(range(6))]
    raise ValueError(f)


def cmac(key, fields):
    msg = []
    for f in fields:
        msg += field_bytes(f)
    complete = len(msg) > 0 and len(msg) % 16 == 0
    if not complete:
        msg = msg + [0x80] + [0] * ((16 - (len(msg) + 1) % 16) % 16)
    blocks = [msg[i:i + 16] for i in range(0, len(msg), 16)]
    le = [('blk', tuple(reversed(b))) for b in blocks]
    c = None
    for m in le[:-1]:
        c = ('E', key, m if c is None else X(c, m))
    sub = ('K1' if complete else 'K2', key)
    last = X(le[-1], sub) if c is None else X(c, le[-1], sub)
    return ('E', key, last)


def le_block(name, n=16, off=0):
    return ('blk', tuple((name, off + j) for j in range(n)))


def expected(name, spec):
    s = spec[name]
    if s['kind'] == 'cmac':
        key = le_block(s['key']) if isinstance(s['key'], str) else ('blk', tuple(reversed(s['key'])))
        t = cmac(key, [tuple(f) for f in s['message']])
        return ('lo32', t) if s.get('result') == 'lo32' else t
    if name == 'c1':
        k = le_block('temp_key')
        return ('E', k, X(('E', k, X(le_block('rand'), le_block('p1'))), le_block('p2')))
    if name == 's1':
        k = le_block('temp_key')
        # r' = r1' || r2': least significant 64 bit of r1 become the most significant half
        msb_first = field_bytes(('le_part', 'srand', 0, 8)) + field_bytes(('le_part', 'mrand', 0, 8))
        return ('E', k, ('blk', tuple(reversed(msb_first))))
    if name == 'f5':
        salt = ('blk', tuple(reversed(s['salt'])))
        t = cmac(salt, [('le', 'dh_key', 32)])
        out = []
        for counter in (0, 1):
            out.append(cmac(t, [('const', [counter])] + [tuple(f) for f in s['message']]))
        return ('pair', out[0], out[1])
    raise ValueError(name)


def show(t, depth=0):
    if isinstance(t, tuple) and t and t[0] == 'blk':
        bs = t[1]
        names = {b[0] for b in bs if isinstance(b, tuple)}
        if len(names) == 1 and all(isinstance(b, tuple) and len(b) == 2 and b[1] == bs[0][1] + i for i, b in enumerate(bs)):
            return '%s[%d..%d]' % (bs[0][0], bs[0][1], bs[-1][1])
        return '[' + ' '.join(('%02x' % b) if isinstance(b, int) else (':'.join(str(x) for x in b)) for b in bs) + ']'
    if isinstance(t, tuple) and t and t[0] == 'X':
        return '(' + ' ^ '.join(show(o) for o in t[1]) + ')'
    if isinstance(t, tuple) and t and t[0] in ('E', 'K1', 'K2', 'lo32', 'pair'):
        return '%s(%s)' % (t[0], ', '.join(show(o) for o in t[1:]))
    return repr(t)


def first_diff(a, b):
    if a == b:
        return None
    if isinstance(a, tuple) and isinstance(b, tuple) and a and b and a[0] == b[0] and len(a) == len(b) and a[0] in ('E', 'K1', 'K2', 'lo32', 'pair'):
        for x, y in zip(a[1:], b[1:]):
            d = first_diff(x, y)
            if d:
                return d
    if isinstance(a, tuple) and isinstance(b, tuple) and a and b and a[0] == 'X' and b[0] == 'X':
        sa, sb = set(a[1]), set(b[1])
        only_a, only_b = [x for x in a[1] if x not in sb], [x for x in b[1] if x not in sa]
        if len(only_a) == 1 and len(only_b) == 1:
            return first_diff(only_a[0], only_b[0])
        return 'code xors %s, specification %s' % (' , '.join(show(x)[:80] for x in only_a) or '-', ' , '.join(show(x)[:80] for x in only_b) or '-')
    if isinstance(a, tuple) and isinstance(b, tuple) and a and b and a[0] == 'blk' and b[0] == 'blk':
        for i, (x, y) in enumerate(zip(a[1], b[1])):
            if x != y:
                return 'octet %d of a block: code has %s, specification has %s (block in code %s, specified %s)' % (i, x, y, show(a), show(b))
    return 'code %s, specification %s' % (show(a)[:120], show(b)[:120])


def run(chk, facts, tier):
    spec = json.load(open(os.path.join(VERIF, 'spec', 'smp_crypto.json')))
    chk.rule('formula', 'c1, s1, f4, f5, f6, g2: the term computed by the tool box function (blocks, xor, e, CMAC sub-keys; helpers inlined; buffers resolved octet by octet) equals the term of the '
             'specification\'s definition (spec/smp_crypto.json)', floor=6)
    chk.rule('primitives', 'aes_le: key and data reversed into scratch[0..16) / [16..32), result reversed out of [32..48); xor_: byte-wise xor of both operands; left_shift / sub-key generation as RFC 4493 in '
             'little-endian form (carry from octet i to i+1, Rb = 0x87 into octet 0 when the top bit of octet 15 was set, K2 from K1); is_valid_public_key: both coordinates byte-reversed into uECC_valid_public_key; '
             'setup_encryption: session key = aes_le(key, SKDm at [0..8) || SKDs at [8..16))', floor=7)
    for name in ('c1', 's1', 'f4', 'f5', 'f6', 'g2'):
        fns = [f for f in facts.fns(TB + name) if f.kind in ('plain', 'pattern')]
        if not chk.require(len(fns) == 1, 'security_tool_box::%s not found' % name):
            continue
        fn = fns[0]
        want_params = spec[name]['params']
        if not chk.require([p['n'] for p in fn.params] == want_params, '%s: parameter names %s differ from the frozen ones %s (the specification table is written in terms of them)' % (name, [p['n'] for p in fn.params], want_params)):
            continue
        try:
            got = Interp(facts, fn).run()
        except Unrecognised as e:
            chk.broke('%s: cannot extract the computed term: %s' % (name, e))
            continue
        got = got[1] if got[0] == 'term' else (('pair',) + tuple(x[1] if x[0] == 'term' else x for x in got[1:]) if got[0] == 'pair' else got)
        exp = expected(name, spec)
        d = first_diff(got, exp)
        chk.instance('formula', fn, '%s = %s' % (name, show(exp)[:160]), d is None, '' if d is None else '%s does not compute the specified function: %s' % (name, d), key=name)
    primitives(chk, facts)
    chk.rule('public-key-validated', 'lesc_handle_pairing_public_key: the received public key &input[1] reaches public_key_exchanged() (and the local key is put into the answer) only behind is_valid_public_key(&input[1]) != 0', floor=1)
    for fn in [f for f in facts.fns('bluetoe::details::security_manager_base::lesc_handle_pairing_public_key') if f.kind == 'pattern']:
        inp = fn.params[0]['n']
        sites = fn.body.calls('public_key_exchanged') + fn.body.calls('generate_keys') + [c for c in fn.body.calls('copy') if mentions(c.args()[-1], 'output')]
        ok = len(sites) >= 3
        for c in sites:
            g = False
            for l, op, r in guard_atoms(fn, c):
                x = strip_casts(l) if not isinstance(l, int) else None
                if op == '!=' and cval(r) == 0 and x is not None and x.is_call('is_valid_public_key') and len(x.args()) == 1:
                    a = strip_casts(x.args()[0])
                    g = g or (elem_addr(a) is not None and is_name(elem_addr(a)[0], inp) and cval(elem_addr(a)[1]) == 1)
            ok = ok and g
        pk = fn.body.calls('public_key_exchanged')
        if ok and pk:
            a = strip_casts(pk[0].args()[2])
            ok = elem_addr(a) is not None and is_name(elem_addr(a)[0], inp) and cval(elem_addr(a)[1]) == 1
        chk.instance('public-key-validated', fn, 'public_key_exchanged(.., &input[1], ..) only after is_valid_public_key(&input[1])', ok, '' if ok else 'a public key that is not a point of P-256 is used for the key agreement (invalid curve attack)', key='public key handler')

    public_key_range(chk, facts)


def public_key_range(chk, facts):
    R = 'public-key-is-curve-point'
    chk.rule(R, 'security_tool_box::is_valid_public_key returns uECC_valid_public_key(both coordinates, byte-reversed); uECC_valid_public_key returns non-zero only for a point that is not (0, 0), '
             'whose coordinates are both field elements (curve_p > x and curve_p > y, strictly) and that satisfies y^2 == x^3 + ax + b', floor=2)
    for fn in [f for f in facts.fns(NS + 'security_tool_box::is_valid_public_key')]:
        rs = fn.returns()
        v = deep(ret_value(rs[0])) if len(rs) == 1 else None
        b = as_binop(v) if v is not None and not v.is_call() else None
        if b and b[0] == '!=' and cval(b[2]) == 0:
            v = deep(b[1])
        ok = v is not None and v.is_call('uECC_valid_public_key') and len(v.args()) == 1
        if ok:
            a = strip_casts(v.args()[0])
            key = strip_casts(base_object(a)).n if a.is_call('data') and base_object(a) is not None else a.n
            rc = fn.body.calls('reverse_copy')
            srcs = sorted((cval(elem_addr(c.args()[0])[1]), cval(elem_addr(c.args()[1])[1])) for c in rc if elem_addr(c.args()[0]) is not None and elem_addr(c.args()[1]) is not None and is_name(elem_addr(c.args()[0])[0], fn.params[0]['n']))
            ok = key is not None and srcs == [(0, 32), (32, 64)] and all(mentions(c.args()[2], key) for c in rc)
        chk.instance(R, fn, 'is_valid_public_key = uECC_valid_public_key(x reversed | y reversed)', ok, '' if ok else 'the received key is not handed to the validation completely', key='toolbox')
    for fn in [f for f in facts.fns('uECC_valid_public_key')]:
        pts = [d.n for d in fn.body.find(lambda n: n.k == 'VarDecl') if 'EccPoint' in (d.t or '')]
        if not chk.require(len(pts) == 1, 'uECC_valid_public_key: local point not found'):
            continue
        pt = pts[0]
        def coord(n, c):
            n = strip_casts(n)
            return n is not None and n.k == 'MemberExpr' and n.n == c and is_name(base_object(n), pt)
        def below_p(ats, c):
            for l, op, r in ats:
                if isinstance(l, int):
                    continue
                x = strip_casts(l)
                if not x.is_call('vli_cmp') or len(x.args()) != 2:
                    continue
                k = r if isinstance(r, int) else cval(r)
                a0, a1 = x.args()
                if is_name(a0, 'curve_p') and coord(a1, c) and ((op == '==' and k == 1) or (op == '>' and k == 0) or (op == '>=' and k == 1)):
                    return True
                if coord(a0, c) and is_name(a1, 'curve_p') and ((op == '==' and k == -1) or (op == '<' and k == 0) or (op == '<=' and k == -1)):
                    return True
            return False
        pos = [r for r in fn.returns() if cval(ret_value(r)) != 0]
        ok, why = len(pos) >= 1, 'no accepting return found'
        for r in pos:
            ats = guard_atoms(fn, r)
            nz = any(not isinstance(l, int) and strip_casts(l).is_call('EccPoint_isZero') and op == '==' and (r2 == 0 or cval(r2) == 0) for l, op, r2 in ats)
            if not nz:
                ok, why = False, 'the point (0, 0) is not excluded'
            for c in ('x', 'y'):
                if not below_p(ats, c):
                    ok, why = False, 'coordinate %s is accepted without curve_p > %s (strictly): a coordinate >= p is no field element, and p itself is taken for 0 by the curve equation' % (c, c)
            v = ret_value(r)
            b = as_binop(v)
            eqn = False
            if b and b[0] == '==' and cval(b[2]) == 0 and strip_casts(b[1]).is_call('vli_cmp'):
                t1, t2 = [strip_casts(a).n for a in strip_casts(b[1]).args()]
                sq = [c2 for c2 in fn.body.calls('vli_modSquare_fast') if strip_casts(c2.args()[0]).n in (t1, t2) and coord(c2.args()[1], 'y')]
                xs = [c2 for c2 in fn.body.calls('curve_x_side') if strip_casts(c2.args()[0]).n in (t1, t2) and coord(c2.args()[1], 'x')]
                eqn = len(sq) == 1 and len(xs) == 1 and strip_casts(sq[0].args()[0]).n != strip_casts(xs[0].args()[0]).n
            elif cval(v) == 1:
                eqn = any(not isinstance(l, int) and strip_casts(l).is_call('vli_cmp') and op == '==' and (r2 == 0 or cval(r2) == 0) for l, op, r2 in ats)
            if not eqn:
                ok, why = False, 'the accepting return is not the comparison y^2 == x^3 + ax + b of the received coordinates'
        chk.instance(R, fn, 'uECC_valid_public_key accepts only (x, y) != 0 with p > x, p > y on the curve', ok, '' if ok else why, key='uecc')


def primitives(chk, facts):
    R = 'primitives'
    # aes_le (pointer overload)
    for fn in [f for f in facts.fns(NS + 'aes_le') if f.kind in ('plain', 'pattern') and f.params and '*' in f.params[1]['t']]:
        probs = []
        key, data = fn.params[0]['n'], fn.params[1]['n']
        cps = fn.body.calls('copy') + fn.body.calls('reverse_copy')

        def dst_off(c):
            d = strip_casts(c.args()[2])
            ea = elem_addr(d)
            if ea is not None and not (d.k in REF_KINDS) and not d.is_call():
                return cval(ea[1])
            return None
        kin = [c for c in cps if c.cn == 'copy' and strip_casts(c.args()[0]).is_call('rbegin') and is_name(base_object(strip_casts(c.args()[0])), key) and strip_casts(c.args()[1]).is_call('rend') and dst_off(c) == 0]
        din = [c for c in cps if c.cn == 'reverse_copy' and is_name(c.args()[0], data) and as_binop(c.args()[1]) is not None and cval(as_binop(c.args()[1])[2]) == 16 and dst_off(c) == 16]
        out = [c for c in cps if c.cn == 'copy' and dst_off(c) is None and strip_casts(c.args()[2]).is_call('rbegin')]
        if len(kin) != 1:
            probs.append('the key is not copied byte-reversed to scratch[0..16)')
        if len(din) != 1:
            probs.append('the data block is not copied byte-reversed to scratch[16..32)')
        ok_out = False
        if len(out) == 1:
            a0, a1 = strip_casts(out[0].args()[0]), strip_casts(out[0].args()[1])
            ok_out = elem_addr(a0) is not None and cval(elem_addr(a0)[1]) == 32 and elem_addr(a1) is not None and cval(elem_addr(a1)[1]) == 48
            res = base_object(strip_casts(out[0].args()[2]))
            r = fn.returns()
            ok_out = ok_out and len(r) == 1 and res is not None and is_name(ret_value(r[0]), strip_casts(res).n)
        if not ok_out:
            probs.append('the result is not scratch[32..48) byte-reversed')
        if len(cps) != 3:
            probs.append('%d copies instead of 3' % len(cps))
        ptr = [val for tgt, op, val, st in stores(fn.body) if strip_casts(tgt).n == 'ECBDATAPTR']
        if not (len(ptr) == 1 and mentions(ptr[0], 'ecb_scratch_data')):
            probs.append('ECBDATAPTR is not set to the scratch area')
        chk.instance(R, fn, 'aes_le: little endian wrapper of the ECB block', not probs, '; '.join(probs), key='aes_le')
    for fn in [f for f in facts.fns(NS + 'aes_le') if f.kind in ('plain', 'pattern') and f.params and '*' not in f.params[1]['t']]:
        r = fn.returns()
        v = ret_value(r[0]) if len(r) == 1 else None
        ok = v is not None and v.is_call('aes_le') and is_name(v.args()[0], fn.params[0]['n']) and strip_casts(v.args()[1]).is_call('data') and is_name(base_object(strip_casts(v.args()[1])), fn.params[1]['n'])
        chk.instance(R, fn, 'aes_le(key, block) forwards block.data()', ok, '' if ok else 'array overload does not forward its operands', key='aes_le/array')
    # xor_
    for fn in [f for f in facts.fns(NS + 'xor_') if f.kind in ('plain', 'pattern')]:
        a, b = fn.params[0]['n'], fn.params[1]['n']
        if '*' in fn.params[1]['t']:
            t = fn.body.calls('transform')
            ok = len(t) == 1 and len(t[0].args()) == 5
            if ok:
                ar = t[0].args()
                ok = strip_casts(ar[0]).is_call('begin') and is_name(base_object(strip_casts(ar[0])), a) and strip_casts(ar[1]).is_call('end') and is_name(ar[2], b) and strip_casts(ar[3]).is_call('begin') and is_name(base_object(strip_casts(ar[3])), a)
                lam = [x for x in fn.body.walk() if x.k == 'BinaryOperator' and x.o == '^']
                ok = ok and len(lam) == 1 and {strip_casts(lam[0].c[0]).k, strip_casts(lam[0].c[1]).k} <= set(REF_KINDS) and strip_casts(lam[0].c[0]).n != strip_casts(lam[0].c[1]).n
                r = fn.returns()
                ok = ok and any(is_name(ret_value(x), a) for x in r if ret_value(x) is not None)
            chk.instance(R, fn, 'xor_: a[i] ^= b[i] for the 16 octets, returns a', ok, '' if ok else 'xor_ is not the byte-wise exclusive or of its operands', key='xor_/ptr')
        else:
            r = fn.returns()
            v = ret_value(r[0]) if len(r) == 1 else None
            ok = v is not None and v.is_call('xor_') and strip_casts(v.args()[1]).is_call('data') and is_name(base_object(strip_casts(v.args()[1])), b)
            chk.instance(R, fn, 'xor_(a, block) forwards block.data()', ok, '' if ok else 'array overload does not forward its operands', key='xor_/array')
    # left_shift
    for fn in [f for f in facts.fns(NS + 'left_shift') if f.kind in ('plain', 'pattern')]:
        inp = fn.params[0]['n']
        loops = fn.body.find(lambda n: n.k == 'ForStmt')
        probs = []
        if len(loops) != 1:
            probs.append('no single loop')
        else:
            lp = loops[0]
            iv = [d for d in lp.child('init').find(lambda n: n.k == 'VarDecl')] if lp.child('init') is not None else []
            asc = bool(iv) and cval(iv[0].c[0]) == 0 and any(op == '++' for tgt, op, val, st in stores(lp.child('inc')))
            if not asc:
                probs.append('octets are not processed from the least significant (index 0) upward')
            sts = [(tgt, op, val, st) for tgt, op, val, st in stores(lp.child('body'))]
            outs = [(tgt, val) for tgt, op, val, st in sts if op == '=' and strip_casts(tgt).k in ('ArraySubscriptExpr', 'CXXOperatorCallExpr') and val is not None and as_binop(val) is not None and as_binop(val)[0] == '|']
            carry = [(tgt, val, st) for tgt, op, val, st in sts if op == '=' and strip_casts(tgt).k in REF_KINDS]
            if len(outs) != 1 or len(carry) != 1:
                probs.append('expected output[i] = (input[i] << 1) | carry and one carry update')
            else:
                b = as_binop(outs[0][1])
                sh = as_binop(b[1])
                if not (sh and sh[0] == '<<' and cval(sh[2]) == 1 and mentions(sh[1], inp) and is_name(b[2], strip_casts(carry[0][0]).n)):
                    probs.append('octet is not (input[i] << 1) | carry')
                cv = strip_casts(carry[0][1])
                cb = as_binop(cv.c[0]) if cv.k == 'ConditionalOperator' else None
                if not (cb and cb[0] == '&' and cval(cb[2]) == 0x80 and mentions(cb[1], inp) and cval(cv.c[1]) == 1 and cval(cv.c[2]) == 0):
                    probs.append('carry is not the top bit of input[i]')
                if not (outs[0][0].l <= carry[0][2].l):
                    probs.append('carry is updated before it is used')
            c0 = [d for d in fn.body.find(lambda n: n.k == 'VarDecl') if carry and d.n == strip_casts(carry[0][0]).n] if len(loops) == 1 and 'carry' in dir() else []
            if c0 and cval(c0[0].c[0]) != 0:
                probs.append('initial carry is not 0')
        chk.instance(R, fn, 'left_shift: 128 bit shift by one in little endian octet order', not probs, '; '.join(probs), key='left_shift')
    # sub keys
    for nm, src in (('aes_cmac_k1_subkey_generation', None), ('aes_cmac_k2_subkey_generation', 'aes_cmac_k1_subkey_generation')):
        for fn in [f for f in facts.fns(NS + nm) if f.kind in ('plain', 'pattern')]:
            key = fn.params[0]['n']
            probs = []
            C = local_init(fn, 'C', optional=True)
            cvals = [cval(x) for x in C.walk() if x.k == 'IntegerLiteral'] if C is not None else []
            if cvals[:1] != [0x87] or any(cvals[1:]):
                probs.append('Rb is not 0x87 in the least significant octet')
            r = fn.returns()
            res = strip_casts(ret_value(r[0])) if len(r) == 1 else None
            rinit = local_init(fn, res.n, optional=True) if res is not None and res.k in REF_KINDS else None
            if rinit is None or rinit.k != 'ConditionalOperator':
                probs.append('result is not `msb == 0 ? L << 1 : (L << 1) ^ Rb`')
            else:
                c = as_binop(rinit.c[0])
                cm = as_binop(c[1]) if c else None
                basev = strip_casts(base_object(strip_casts(cm[1]))) if cm and strip_casts(cm[1]).is_call('back') else None
                if not (c and c[0] == '==' and cval(c[2]) == 0 and cm and cm[0] == '&' and cval(cm[2]) == 0x80 and basev is not None):
                    probs.append('the test is not on the top bit of the most significant octet (back() & 0x80)')
                else:
                    L = basev.n
                    t, e = strip_casts(rinit.c[1]), strip_casts(rinit.c[2])
                    if not (t.is_call('left_shift') and is_name(t.args()[0], L)):
                        probs.append('without carry the sub key is not L << 1')
                    if not (e.is_call('xor_') and strip_casts(e.args()[0]).is_call('left_shift') and is_name(strip_casts(e.args()[0]).args()[0], L) and is_name(e.args()[1], 'C')):
                        probs.append('with carry the sub key is not (L << 1) ^ Rb')
                    li = local_init(fn, L, optional=True)
                    if src is None:
                        z = local_init(fn, 'zero', optional=True)
                        if not (li is not None and li.is_call('aes_le') and is_name(li.args()[0], key) and z is not None and all((cval(x) or 0) == 0 for x in z.walk() if x.k == 'IntegerLiteral')):
                            probs.append('L is not e(K, 0)')
                    else:
                        if not (li is not None and li.is_call(src) and is_name(li.args()[0], key)):
                            probs.append('K2 is not derived from K1 of the same key')
            chk.instance(R, fn, '%s (RFC 4493 sub key)' % nm, not probs, '; '.join(probs), key=nm)
    # public key validation
    for fn in [f for f in facts.fns(TB + 'is_valid_public_key') if f.kind in ('plain', 'pattern')]:
        p = fn.params[0]['n']
        rc = fn.body.calls('reverse_copy')
        probs = []

        def rng(c):
            a0, a1, a2 = [strip_casts(x) for x in c.args()]
            lo = 0 if is_name(a0, p) else (cval(as_binop(a0)[2]) if as_binop(a0) and is_name(as_binop(a0)[1], p) else None)
            hi = cval(as_binop(a1)[2]) if as_binop(a1) and is_name(as_binop(a1)[1], p) else None
            d = 0 if a2.is_call('begin') else (cval(as_binop(a2)[2]) if as_binop(a2) and strip_casts(as_binop(a2)[1]).is_call('begin') else None)
            return (lo, hi, d)
        got = sorted(rng(c) for c in rc)
        if got != [(0, 32, 0), (32, 64, 32)]:
            probs.append('coordinates are not byte-reversed separately: %s' % got)
        r = fn.returns()
        v = ret_value(r[0]) if len(r) == 1 else None
        if not (v is not None and v.is_call('uECC_valid_public_key') and strip_casts(v.args()[0]).is_call('data')):
            probs.append('the result is not uECC_valid_public_key(key)')
        chk.instance(R, fn, 'is_valid_public_key: X and Y reversed, uECC_valid_public_key', not probs, '; '.join(probs), key='is_valid_public_key')
    # session key
    for fn in [f for f in facts.functions if f.name == 'setup_encryption' and f.kind in ('plain', 'pattern') and f.body.calls('aes_le')]:
        probs = []
        w = fn.body.calls('write_64bit')
        offs = {}
        for c in w:
            d = strip_casts(c.args()[0])
            ea = elem_addr(d)
            if ea is not None:
                offs[cval(ea[1])] = strip_casts(c.args()[1]).n
        skdm = fn.params[1]['n']
        skds = [n for n in fn.body.walk() if n.k == 'VarDecl' and n.c and strip_casts(n.c[0]).is_call('random_number64')]
        if not (offs.get(0) == skdm and skds and offs.get(8) == skds[0].n):
            probs.append('SKD is not SKDm (octets 0..7) || SKDs (octets 8..15, fresh random): %s' % offs)
        a = fn.body.calls('aes_le')
        if not (len(a) == 1 and is_name(a[0].args()[0], fn.params[0]['n']) and w and is_name(a[0].args()[1], strip_casts(base_object_of_subscript(w[0].args()[0])).n if base_object_of_subscript(w[0].args()[0]) is not None else '')):
            probs.append('the session key is not e(LTK, SKD)')
        chk.instance(R, fn, 'setup_encryption: session key = e(LTK, SKDm || SKDs)', not probs, '; '.join(probs), key='setup_encryption')


def base_object_of_subscript(n):
    ea = elem_addr(n)
    return ea[0] if ea is not None else None
