"""C06 Reads and writes follow the attribute value semantics (permission structure + bounded copies)."""
from .lib.match import *
from .lib.linear import Lin, lin

SELECT = (r'characteristic_value_access$|characteristic_value_read_access$|characteristic_value_write_access$|^bluetoe::details::attribute_value_read_access$|^bluetoe::details::attribute_value_read_only_access$'
          r'|^bluetoe::details::generate_attribute::(char_declaration_access|access)$|^bluetoe::service::\w*access$|^bluetoe::server::l2cap_output$')
UNITS = lambda u: u in ('w_inst_att',) or u.startswith('t_char') or u.startswith('t_att_read') or u.startswith('t_att_write') or u.startswith('t_read_write')
ALSO = [('C07', ('execute-writes-own-attribute',))]   # a queued write stores its bytes in the attribute it was prepared for: decided by C07's rule, run here as well
META = {
    'level': 'sibling agreement over the value implementations (bound variable, fixed value, constant string/blob, handler based): the code that produces value bytes is selected by the same constant '
             '(has_read_access) that builds the Read bit of the declared properties, the code that stores bytes by has_write_access; writes to a bound variable are preceded by offset and offset+size tests against '
             'sizeof(T) and copy exactly the written size, reads test the offset and clamp the length; the properties byte pairs each constant with its own property bit; and the notification path must not be '
             'blocked by the client read permission. Byte-exact results over request histories are not decided.',
    'technique': 'static sibling-agreement / guarded-by / bounded-copy rules over clang AST/CFG facts',
}
READ_PRODUCERS = ('attribute_value_read_access', 'call_read_handler', 'characteristic_value_read_access')


def has_const_guard(fn, node, const, truth=True):
    return has_atom(guard_atoms(fn, node), lambda n: is_name(n, const), {'!='} if truth else {'=='}, lambda o: cval(o) == 0)


def offset_rule(chk, facts):
    """Invalid Offset exactly past the end: offset == size is a valid (empty) read, the last step of every Read Long"""
    n_sites = 0
    for fn in facts.functions:
        if fn.kind not in ('pattern', 'plain') or '/tests/' in (fn.file or '') or '/witness/' in (fn.file or ''):
            continue
        for r in fn.returns():
            v = ret_value(r)
            if v is None or strip_casts(v).n != 'invalid_offset':
                continue
            ats = [(l, op, rr) for l, op, rr in guard_atoms(fn, r) if (not isinstance(l, int) and 'buffer_offset' in strip_casts(l).text()) or (not isinstance(rr, int) and 'buffer_offset' in strip_casts(rr).text())]
            chk.require(bool(ats), '%s line %d: invalid_offset is returned under a condition on the offset that is not a conjunction of comparisons (idiom not recognised)' % (fn.q, r.l))
            if not ats:
                continue
            n_sites += 1
            norm = []
            for l, op, rr in ats:
                if not isinstance(l, int) and strip_casts(l).text().endswith('buffer_offset'):
                    norm.append((op, rr))
                elif not isinstance(rr, int) and strip_casts(rr).text().endswith('buffer_offset'):
                    norm.append((SWAP[op], l))
                else:
                    norm.append(('?', l))
            ok = len(norm) == 1 and norm[0][0] == '>'
            size = norm[0][1] if ok else None
            stxt = (size.text() if not isinstance(size, int) else str(size)) if size is not None else '?'
            chk.instance('invalid-offset-only-past-end', fn, '%s::%s line %d: invalid_offset iff buffer_offset > %s' % (fn.q.split('::')[-2], fn.name, r.l, stxt[:40]), ok,
                         '' if ok else 'Invalid Offset is returned under (%s): an offset equal to the value length must give an empty response (it ends every Read Long of a value whose length is a multiple of MTU-1), and smaller offsets must be served'
                         % ' && '.join('offset %s %s' % (o, x.text()[:30] if not isinstance(x, int) else x) for o, x in norm), node=r, key='%s::%s@%s' % (fn.q.split('::')[-2], fn.name, stxt[:30]))
    return n_sites


def run(chk, facts, tier):
    chk.rule('read-selected-by-has-read-access', 'in every characteristic_value_access the value bytes are produced only where has_read_access selects it (tag dispatch on has_read_access, or behind a has_read_access test)', floor=4)
    chk.rule('write-selected-by-has-write-access', 'values are stored only where has_write_access (or the presence of a write handler) selects it; implementations without write access refuse', floor=4)
    chk.rule('properties-byte', 'char_declaration_access sets each property bit from its own constant: read<-has_read_access, write<-has_write_access && !only_wwr, wwr<-(only_)write_without_response, notify, indicate', floor=1)
    chk.rule('bounded-write', 'bind_characteristic_value write: offset > sizeof(T) -> invalid_offset, offset + size > sizeof(T) -> invalid_attribute_value_length, then copy(buffer, buffer + size, ptr + offset)', floor=1)
    chk.rule('bounded-read', 'reads test buffer_offset against the value size (invalid_offset) and clamp buffer_size to size - offset before copying; fixed_value produces byte i as (Value >> 8 i) & 0xff from the constant in its own type', floor=4)
    chk.rule('write-success-only-from-write-path', 'in the dispatching characteristic_value_access of every value implementation a literal `success` is returned only on the read edge (args.type == read); '
             'a write is answered by the write function selected through has_write_access / the write handler - never by a shortcut in front of that selection', floor=2)
    for fn in facts.functions:
        if fn.name != 'characteristic_value_access' or fn.kind != 'pattern' or '/tests/' in (fn.file or ''):
            continue
        n = 0
        for r in fn.returns():
            v = ret_value(r)
            if v is None or strip_casts(v).n != 'success':
                continue
            n += 1
            ats = guard_atoms(fn, r)
            is_read = any(op == '==' and not isinstance(rr, int) and 'type' in strip_casts(l).text() and strip_casts(rr).n == 'read' for l, op, rr in ats if not isinstance(l, int))
            chk.instance('write-success-only-from-write-path', fn, '%s line %d: return success on the read edge' % (fn.cls.split('::')[-2], r.l), is_read,
                         '' if is_read else 'success is returned without passing the write permission selection (has_write_access): a write to a no_write_access / const value is accepted (e.g. the empty-buffer probe of Prepare Write)', node=r,
                         key='%s@success' % fn.cls.split('::')[-2])
        if n == 0:
            chk.instance('write-success-only-from-write-path', fn, '%s: no literal success in the dispatcher' % fn.cls.split('::')[-2], True, key='%s@none' % fn.cls.split('::')[-2])
    chk.rule('invalid-offset-only-past-end', 'every value/declaration/descriptor access returns invalid_offset exactly under buffer_offset > <value size> (one comparison, strict): offset == size is served with an empty value', floor=7)
    offset_rule(chk, facts)
    chk.rule('notification-not-blocked-by-read-permission', 'a value implementation that can notify/indicate does not refuse the access l2cap_output uses for the notification because of no_read_access', floor=2)
    impls = [f for f in facts.functions if f.name == 'characteristic_value_access' and f.kind == 'pattern']
    chk.require(len(impls) >= 4, 'expected at least 4 characteristic_value_access patterns')
    out_access_is_read = False
    for fn in variants(facts, 'bluetoe::server::l2cap_output', chk):
        rd = [c for c in fn.body.calls('read') if 'attribute_access_arguments' in ((c.callee().d.get('qual') or '') + (c.cq or '') if c.callee() is not None else (c.cq or ''))]
        out_access_is_read = out_access_is_read or bool(rd)
    for fn in impls:
        cls = fn.cls.replace('bluetoe::', '')
        short = fn.cls.split('::')[-2]
        consts = {}
        for c in facts.cls(fn.cls, kind='pattern'):
            for s in c['statics']:
                consts[s['n']] = s.get('init')
        # --- read path
        prods = [c for c in fn.body.calls() if c.cn in READ_PRODUCERS]
        loops = [s for tgt, op, val, s in stores(fn.body) if strip_casts(tgt).k == 'UnaryOperator' and is_name(strip_casts(tgt).c[0], 'output')]
        copies = [c for c in fn.body.calls('copy') if mentions(c.args()[-1], 'buffer') and not mentions(c.args()[0], 'buffer')]
        sites = prods + loops + copies
        ok = bool(sites)
        why = 'no read path found'
        for s in sites:
            tag = s.d.get('call') and any(mentions(a, 'has_read_access') or 'has_read_access' in a.text() for a in s.args())
            via_handler = s.cn == 'call_read_handler'
            g = has_const_guard(fn, s, 'has_read_access', True)
            const_true = (consts.get('has_read_access') or '').strip() == 'true'
            if not (tag or g or const_true):
                ok = False
                why = ('%s calls the read handler for every read access: with no_read_access the properties byte says "not readable" but a Read Request is answered (the read permission is not enforced on this access path)' % short
                       if via_handler else 'value bytes are produced without consulting has_read_access')
        chk.instance('read-selected-by-has-read-access', fn, '%s: %d read site(s)' % (cls, len(sites)), ok, '' if ok else why, node=sites[0] if sites else None, key=short)
        # --- write path
        wsites = [c for c in fn.body.calls() if c.cn in ('characteristic_value_write_access', 'call_write_handler')]
        has_w = (consts.get('has_write_access') or '').strip()
        if wsites:
            okw = all(any(mentions(a, 'has_write_access') or 'has_write_access' in a.text() for a in c.args()) or has_const_guard(fn, c, 'has_write_access') or c.cn == 'call_write_handler' for c in wsites)
            whyw = 'the write path is not selected by has_write_access'
            if any(c.cn == 'call_write_handler' for c in wsites):
                okw = okw and 'write_handler_type' in (consts.get('has_write_access') or '') and any('write_handler_type' in (c.callee().d.get('qual') or c.callee().text()) for c in wsites if c.callee() is not None)
        else:
            okw = has_w == 'false' and not [1 for tgt, op, val, s in stores(fn.body) if mentions(tgt, 'Ptr')]
            whyw = 'an implementation without write path must declare has_write_access = false'
        chk.instance('write-selected-by-has-write-access', fn, '%s: %d write site(s), has_write_access = %s' % (cls, len(wsites), has_w[:50]), okw, '' if okw else whyw, key=short)
        # --- notification path
        can_notify = 'has_option' in (consts.get('has_notification') or '') or 'has_option' in (consts.get('has_indication') or '')
        if can_notify and out_access_is_read:
            gated = any((s.d.get('call') and any(mentions(a, 'has_read_access') or 'has_read_access' in a.text() for a in s.args())) or has_const_guard(fn, s, 'has_read_access', True) for s in sites) or \
                any(has_atom(guard_atoms(fn, r), lambda n: is_name(n, 'has_read_access'), {'=='}, lambda o: cval(o) == 0) for r in fn.returns())
            ok = not gated
            chk.instance('notification-not-blocked-by-read-permission', fn, '%s: notify/indicate possible, read gated by has_read_access: %s' % (cls, gated), ok,
                         '' if ok else 'server::l2cap_output fetches the value with the same access type as a client read: with no_read_access + notify the notification is silently dropped', key=short)
    # properties byte
    for fn in variants(facts, 'bluetoe::details::generate_attribute::char_declaration_access', chk):
        pairs = {}
        for n in fn.body.walk():
            if n.k == 'ConditionalOperator' and cval(n.c[2]) == 0:
                bit = [x.n for x in n.c[1].walk() if x.k in REF_KINDS and x.n in ('read', 'write', 'write_without_response', 'notify', 'indicate')]
                if bit:
                    pairs[bit[0]] = n.c[0]
        ok = set(pairs) == {'read', 'write', 'write_without_response', 'notify', 'indicate'}
        if ok and fn.kind == 'pattern':
            ok = mentions(pairs['read'], 'has_read_access') and mentions(pairs['notify'], 'has_notification') and mentions(pairs['indicate'], 'has_indication')
            w = local_init(fn, 'has_write_attribute_')
            ww = local_init(fn, 'has_write_without_response_attribute')
            ok = ok and is_name(pairs['write'], 'has_write_attribute_') and w is not None and mentions(w, 'has_write_access') and mentions(w, 'has_only_write_without_response')
            ok = ok and is_name(pairs['write_without_response'], 'has_write_without_response_attribute') and ww is not None and mentions(ww, 'has_write_without_response') and mentions(ww, 'has_only_write_without_response')
        chk.instance('properties-byte', fn, 'properties bits: %s' % sorted(pairs), ok, '' if ok else 'declared properties do not follow the permission constants', key='properties')
    # bounded write
    for fn in facts.fns_matching(r'^bluetoe::bind_characteristic_value::value_impl::characteristic_value_write_access$'):
        cp = fn.body.calls('copy')
        if not cp:
            rets = fn.returns()
            ok = len(rets) == 1 and strip_casts(ret_value(rets[0])).n == 'write_not_permitted'
            chk.instance('bounded-write', fn, 'no write access -> write_not_permitted', ok, '' if ok else 'a value without write access is written', key='refuse')
            continue
        c = cp[0]
        ats = guard_atoms(fn, c)
        off = any(op == '<=' and 'buffer_offset' in strip_casts(l).text() and 'buffer_size' not in strip_casts(l).text() and not isinstance(r, int) and strip_casts(r).k == 'UnaryExprOrTypeTraitExpr' for l, op, r in ats)
        tot = any(op == '<=' and 'buffer_size' in strip_casts(l).text() and 'buffer_offset' in strip_casts(l).text() and not isinstance(r, int) and strip_casts(r).k == 'UnaryExprOrTypeTraitExpr' for l, op, r in ats)
        a = c.args()
        shape = 'buffer' in a[0].text() and 'buffer_size' in a[1].text() and 'buffer_offset' in a[2].text() and 'ptr' in a[2].text()
        errs = {strip_casts(ret_value(r)).n for r in fn.returns()}
        ok = off and tot and shape and {'invalid_offset', 'invalid_attribute_value_length', 'success'} <= errs
        chk.instance('bounded-write', fn, 'copy(buffer, buffer + size, ptr + offset) behind offset and offset+size tests', ok, '' if ok else 'guards: offset<=sizeof %s, offset+size<=sizeof %s, copy shape %s' % (off, tot, shape), node=c, key='copy')
    # bounded reads
    for q in ('bluetoe::details::attribute_value_read_access',):
        for fn in variants(facts, q, chk):
            cp = fn.body.calls('copy')
            ok = len(cp) == 1
            if ok:
                ats = guard_atoms(fn, cp[0])
                ok = any(op == '<=' and 'buffer_offset' in strip_casts(l).text() and is_name(r, 'size') for l, op, r in ats if not isinstance(r, int))
                clamp = [val for tgt, op, val, s in stores(fn.body) if 'buffer_size' in strip_casts(tgt).text() and val is not None and strip_casts(val).is_call('min')]
                ok = ok and len(clamp) == 1 and 'size - args.buffer_offset' in clamp[0].text().replace('(', '').replace(')', '') and 'buffer_size' in cp[0].args()[1].text()
            chk.instance('bounded-read', fn, 'attribute_value_read_access: offset test + clamp + copy', ok, '' if ok else 'read copies beyond the value or the buffer', key='attribute_value_read_access')
    for fn in impls:
        short = fn.cls.split('::')[-2]
        if short in ('fixed_value', 'cstring_wrapper'):
            clamp = [val for tgt, op, val, s in stores(fn.body) if 'buffer_size' in strip_casts(tgt).text() and val is not None and strip_casts(val).is_call('min')]
            inv = [r for r in fn.returns() if strip_casts(ret_value(r)).n == 'invalid_offset']
            ok = len(clamp) == 1 and len(inv) == 1 and 'buffer_offset' in clamp[0].text()
            chk.instance('bounded-read', fn, '%s: invalid_offset test + clamp' % short, ok, '' if ok else 'read is not clamped to the value size', key=short)
            # the clamp comes before every write into the caller's buffer, and the amount written is the clamped size
            clamp_st = [s for tgt, op, val, s in stores(fn.body) if 'buffer_size' in strip_casts(tgt).text() and val is not None and strip_casts(val).is_call('min')]
            arg = fn.params[0]['n']
            def is_arg_field(n, f):
                n = strip_casts(n)
                return n is not None and n.k == 'MemberExpr' and n.n == f and is_name(base_object(n), arg)
            writes = []
            okw, whyw = True, ''
            for c in fn.body.calls('copy'):
                if len(c.args()) == 3 and is_arg_field(c.args()[2], 'buffer'):
                    writes.append(c)
                    a0, a1 = lin(fn, c.args()[0]), lin(fn, c.args()[1])
                    d = (a1 - a0) if a0 is not None and a1 is not None else None
                    if d is None or d.c != 0 or set(d.t.items()) != {('buffer_size', 1)}:
                        okw, whyw = False, 'copy into args.buffer of %s bytes instead of the clamped args.buffer_size' % (d,)
            for loop in fn.body.find(lambda n: n.k == 'ForStmt'):
                sts = [st for tgt, op, val, st in stores(loop) if op == '=' and strip_casts(tgt).k == 'UnaryOperator' and strip_casts(tgt).o == '*']
                if not sts:
                    continue
                writes.append(loop)
                cond = as_binop(loop.child('cond'))
                iv = [d for d in loop.child('init').find(lambda n: n.k == 'VarDecl' and n.c)] if loop.child('init') is not None else []
                start = lin(fn, iv[0].c[0]) if iv else None
                end = lin(fn, cond[2]) if cond and cond[0] in ('!=', '<') else None
                d = (end - start) if start is not None and end is not None else None
                if d is None or d.c != 0 or set(d.t.items()) != {('buffer_size', 1)}:
                    okw, whyw = False, 'the loop writes %s bytes into args.buffer instead of the clamped args.buffer_size' % (d,)
            if clamp_st and writes:
                for w in writes:
                    if not precedes(fn, clamp_st[0], w if w.k != 'ForStmt' else (w.child('cond') or w)):
                        okw, whyw = False, 'args.buffer is written before args.buffer_size was clamped to the rest of the value'
            else:
                okw, whyw = False, 'clamp or buffer write not found'
            chk.instance('bounded-read', fn, '%s: writes min(buffer_size, size - offset) bytes, after the clamp' % short, okw, '' if okw else whyw + ': a value read into the tail of an almost full list response writes behind the output buffer', key=short + ' amount')
        if short == 'fixed_value':
            # byte i of the value is (Value >> 8 i) & 0xff, taken from the full width constant
            outs = [(val, st) for tgt, op, val, st in stores(fn.body) if op == '=' and strip_casts(tgt).k == 'UnaryOperator' and strip_casts(tgt).o == '*' and is_name(strip_casts(tgt).c[0], 'output')]
            okb = len(outs) == 1
            whyb = 'byte store not found'
            if okb:
                b = as_binop(outs[0][0])
                sh = as_binop(b[1]) if b and b[0] == '&' and cval(b[2]) == 0xff else None
                okb = bool(sh) and sh[0] == '>>'
                whyb = 'bytes are not (Value >> 8 * i) & 0xff'
                if okb:
                    x = strip_casts(sh[1])
                    full = x.n == 'Value' and not x.d.get('local')
                    if not full and x.k in REF_KINDS and x.d.get('local'):
                        ds = fn.body.find(lambda n: n.k == 'VarDecl' and n.n == x.n)
                        full = len(ds) == 1 and (ds[0].t or '').replace('const ', '').strip() == 'T' and ds[0].c and strip_casts(ds[0].c[0]).n == 'Value'
                    amt = as_binop(sh[2])
                    okb = full and bool(amt) and amt[0] == '*' and {cval(amt[1]), cval(amt[2])} & {8} != set()
                    whyb = 'the value bytes are taken from `%s` (%s), not from the constant Value in its own type T: for a T wider than that, the upper bytes of Read / Read Blob are wrong' % (x.text(), x.t)
            chk.instance('bounded-read', fn, 'fixed_value: byte i = (Value >> 8 i) & 0xff from the full width constant', okb, '' if okb else whyb, key='fixed_value bytes')
