"""C19 L2CAP fragmentation and reassembly are exact and memory safe (bounds and state)."""
from .lib.match import *
from .lib.linear import Lin, lin

SELECT = r'^bluetoe::link_layer::ll_l2cap_sdu_buffer::'
UNITS = lambda u: u in ('w_inst_ll', 'w_inst_l2cap') or u.startswith('t_link_layer_ll_l2cap_sdu')
SB = 'bluetoe::link_layer::ll_l2cap_sdu_buffer::'
META = {
    'level': 'bounded-copy and state rules on the reassembly/fragmentation buffer: the copy into the reassembly area has the clamped length min(remaining, fragment size) and the remaining size is only '
             'ever set under l2cap_size <= MTUSize (so used + copy <= sizeof(receive_buffer_)); a start fragment resets the fill level together with the announced size; an SDU is delivered only when '
             'used != 0 and remaining == 0; outgoing fragments are allocated with min(remaining + overhead, max_tx_size()), copied with the clamp min(buffer, remaining) and typed start/continuation by '
             'first_fragment. Byte-exact concatenation over fragment sequences is not decided.',
    'technique': 'static bounded-copy / co-update / guarded-by rules over clang AST/CFG facts',
}


def run(chk, facts, tier):
    chk.rule('reassembly-copy-clamped', 'add_to_receive_buffer copies exactly copy_size = min(receive_size_, end - begin) bytes to receive_buffer_[receive_buffer_used_] and advances used/remaining by copy_size', floor=1)
    chk.rule('announced-size-bounded', 'receive_size_ is set to l2cap_size + overall_overhead only under l2cap_size <= MTUSize', floor=1)
    chk.rule('start-resets-fill', 'a start fragment that sets receive_size_ also resets receive_buffer_used_ (a repeated start fragment restarts the reassembly)', floor=1)
    chk.rule('deliver-complete-only', 'the reassembled SDU is returned only when receive_buffer_used_ != 0 && receive_size_ == 0', floor=1)
    chk.rule('free-matches-delivery', 'free_ll_l2cap_received releases the reassembly buffer exactly under the condition under which next_ll_l2cap_received hands it out (used != 0 && remaining == 0), otherwise the link layer PDU', floor=1)
    chk.rule('sdu-buffer-single-owner', 'allocate_l2cap_transmit_buffer (MTU > 23) hands the SDU buffer out only while no byte of a committed SDU is waiting to be fragmented (transmit_size_ == 0 and transmit_buffer_used_ == 0): '
             'a committed SDU is not overwritten before all its fragments were written to the link layer', floor=1)
    chk.rule('fragment-alloc-and-type', 'try_send_pdus allocates min(transmit_size_ + overhead, max_tx_size()), copies min(buffer, transmit_size_) bytes and types the fragment start/continuation by first_fragment', floor=3)
    for fn in variants(facts, SB + 'add_to_receive_buffer', chk):
        b, e = fn.params[0]['n'], fn.params[1]['n']
        cands = [d for d in fn.body.find(lambda n: n.k == 'VarDecl' and n.c) if strip_casts(d.c[0]).is_call('min') and any(is_name(a, 'receive_size_') for a in strip_casts(d.c[0]).args())]
        CS = cands[0].n if len(cands) == 1 else 'copy_size'
        cs = strip_casts(cands[0].c[0]) if len(cands) == 1 else None
        clamp = cs is not None and cs.is_call('min') and any(is_name(a, 'receive_size_') for a in cs.args()) and any(as_binop(a) is not None and as_binop(a)[0] == '-' and is_name(as_binop(a)[1], e) and is_name(as_binop(a)[2], b) for a in cs.args())
        copies = fn.body.calls(('copy', 'copy_n', 'memcpy'))
        ok = clamp and len(copies) == 1
        why = 'clamp variable missing' if not clamp else ''
        if ok:
            c = copies[0]
            a = c.args()
            if c.cn == 'copy':
                x = as_binop(a[1])
                ok = is_name(a[0], b) and x is not None and x[0] == '+' and is_name(x[1], b) and is_name(x[2], CS)
                why = 'std::copy copies [begin, %s): the fragment length, not the clamped length, is written into the reassembly buffer' % a[1].text()
            else:
                ok = is_name(a[0], b) and is_name(a[1] if c.cn == 'copy_n' else a[2], CS)
                why = 'copy length is not the clamp variable'
            dst = a[-1] if c.cn != 'memcpy' else a[0]
            ea = elem_addr(dst)
            ok = ok and ea is not None and is_name(ea[0], 'receive_buffer_') and is_name(ea[1], 'receive_buffer_used_')
        upd = {target_name(tgt): (op, val) for tgt, op, val, s in stores(fn.body)}
        ok = ok and upd.get('receive_buffer_used_', (None, None))[0] == '+=' and is_name(upd['receive_buffer_used_'][1], CS) and upd.get('receive_size_', (None, None))[0] == '-=' and is_name(upd['receive_size_'][1], CS)
        chk.instance('reassembly-copy-clamped', fn, 'copy(begin, begin + copy_size, &receive_buffer_[used])', ok, '' if ok else (why or 'fill level / remaining size not advanced by the clamp'), key='copy')
    for fn in variants(facts, SB + 'next_ll_l2cap_received', chk):
        if not fn.body.calls('add_to_receive_buffer'):
            continue
        st = [(val, s) for tgt, op, val, s in stores(fn.body) if is_name(tgt, 'receive_size_') and cval(val) != 0]
        ok = len(st) == 1
        if ok:
            ats = guard_atoms(fn, st[0][1])
            ok = any(op == '<=' and is_name(l, 'l2cap_size') and not isinstance(r, int) and is_name(r, 'MTUSize') or (op == '<=' and is_name(l, 'l2cap_size') and cval(r) is not None) for l, op, r in ats)
            b = as_binop(st[0][0])
            ok = ok and b is not None and b[0] == '+' and is_name(b[1], 'l2cap_size') and (is_name(b[2], 'overall_overhead') or b[2].v is not None)
        chk.instance('announced-size-bounded', fn, 'receive_size_ = l2cap_size + overall_overhead under l2cap_size <= MTUSize', ok, '' if ok else 'the announced SDU size is accepted without the MTU bound', key='announce')
        ok = len(st) == 1
        if ok:
            # a reset of the fill level must be executed on every path from the start-fragment test to the store / the add call
            def in_start(node):
                return any(op == '==' and is_name(l, 'type') and not isinstance(r, int) and strip_casts(r).n == 'pdu_type_start' for l, op, r in guard_atoms(fn, node))
            rs = [s for tgt, op, val, s in stores(fn.body) if is_name(tgt, 'receive_buffer_used_') and cval(val) == 0 and in_start(s)]
            add = [c for c in fn.body.calls('add_to_receive_buffer') if fn.block_of(c) == fn.block_of(st[0][1])]
            ok = len(rs) >= 1 and len(add) == 1 and any(precedes(fn, r, add[0]) for r in rs)
            # and no early `return pdu` of the start branch may leave a stale fill level
            for r in fn.returns():
                if in_start(r) and is_name(ret_value(r), 'pdu'):
                    ok = ok and any(precedes(fn, x, r) for x in rs)
        chk.instance('start-resets-fill', fn, 'start fragment: receive_buffer_used_ = 0 before the new announced size is stored', ok,
                     '' if ok else 'a second start fragment is appended behind the first one: the delivered SDU is not "one start fragment followed by its continuations"', key='restart')
        ok = True
        n = 0
        for r in fn.returns():
            v = ret_value(r)
            if v is not None and mentions(v, 'receive_buffer_'):
                n += 1
                ats = guard_atoms(fn, r)
                ok = ok and has_atom(ats, lambda x: is_name(x, 'receive_buffer_used_'), {'!='}, lambda o: cval(o) == 0) and has_atom(ats, lambda x: is_name(x, 'receive_size_'), {'=='}, lambda o: cval(o) == 0)
        chk.instance('deliver-complete-only', fn, '%d returns of the reassembly buffer' % n, ok and n >= 1, '' if ok and n >= 1 else 'an incomplete SDU can be delivered', key='deliver')
        # the unfragmented shortcut hands the received PDU itself out: only if it holds exactly the announced SDU
        for r in fn.returns():
            v = ret_value(r)
            if v is None or not is_name(v, 'pdu') or not any(op == '==' and not isinstance(rr, int) and not isinstance(l, int) and 'pdu_type_start' in (strip_casts(rr).n, strip_casts(l).n) for l, op, rr in guard_atoms(fn, r)):
                continue
            exact = False
            for l, op, rr in guard_atoms(fn, r):
                if op != '==' or isinstance(l, int) or isinstance(rr, int):
                    continue
                for a, b in ((l, rr), (rr, l)):
                    la = lin(fn, a)
                    if is_name(b, 'body_size') and la is not None and la.t.get('l2cap_size') == 1 and set(la.t) <= {'l2cap_size', 'l2cap_header_size'} and (la.c + 4 * la.t.get('l2cap_header_size', 0)) == 4:
                        exact = True
            chk.instance('deliver-complete-only', fn, 'start fragment delivered directly only if l2cap_size + 4 == body_size', exact,
                         '' if exact else 'a start fragment that is longer (or shorter) than the SDU it announces is delivered as it is: the SDU has not the length its header announces', node=r, key='unfragmented')
    for fn in variants(facts, SB + 'free_ll_l2cap_received', chk):
        rs = [st for tgt, op, val, st in stores(fn.body) if is_name(tgt, 'receive_buffer_used_') and cval(val) == 0]
        fr = fn.body.calls('free_received')
        if not rs:
            continue   # MTU 23 specialisation: no reassembly buffer
        ats = guard_atoms(fn, rs[0])
        g = has_atom(ats, lambda x: is_name(x, 'receive_buffer_used_'), {'!='}, lambda o: cval(o) == 0) and has_atom(ats, lambda x: is_name(x, 'receive_size_'), {'=='}, lambda o: cval(o) == 0)
        ok = len(rs) == 1 and len(fr) == 1 and g and not any(a is b for a in [fn.block_of(rs[0])] for b in [fn.block_of(fr[0])])
        chk.instance('free-matches-delivery', fn, 'reset of the reassembly only if used != 0 && remaining == 0, else free_received()', ok,
                     '' if ok else 'a link layer PDU handed out while a reassembly is in progress (LL control PDU between fragments) is not freed: it is delivered twice and the partial SDU is dropped', key='free')
    for fn in variants(facts, SB + 'try_send_pdus', chk):
        al = fn.body.calls('allocate_transmit_buffer')
        ok = len(al) == 1 and strip_casts(al[0].args()[0]).is_call('min')
        if ok:
            a = strip_casts(al[0].args()[0]).args()
            ok = any(mentions(x, 'transmit_size_') and mentions(x, 'overhead') for x in a) and any(strip_casts(x).is_call('max_tx_size') for x in a)
        chk.instance('fragment-alloc-and-type', fn, 'allocate(min(transmit_size_ + overhead, max_tx_size()))', ok, '' if ok else 'fragment allocation is not bounded by the maximum PDU size', key='alloc')
        cps = fn.body.calls('copy')
        ok = len(cps) == 2
        for c in cps:
            a1 = as_binop(c.args()[1].c[0] if c.args()[1].k == 'UnaryOperator' else c.args()[1])
            ok = ok and 'copy_size' in c.args()[1].text()
        inits = [d for d in fn.body.find(lambda n: n.k == 'VarDecl' and n.n == 'copy_size')]
        ok = ok and len(inits) == 2 and all(strip_casts(d.c[0]).is_call('min') and any(is_name(x, 'transmit_size_') for x in strip_casts(d.c[0]).args()) for d in inits)
        chk.instance('fragment-alloc-and-type', fn, 'copy length = min(buffer, transmit_size_) in both branches', ok, '' if ok else 'fragment copy is not clamped', key='copy')
        hs = fn.body.calls('header')
        ok = len(hs) == 2
        for h in hs:
            first = any(op == '!=' and is_name(l, 'first_fragment') for l, op, r in guard_atoms(fn, h))
            txt = h.args()[1].text()
            ok = ok and (('pdu_type_start' in txt) if first else ('pdu_type_continuation' in txt))
        chk.instance('fragment-alloc-and-type', fn, 'first fragment typed start, others continuation', ok, '' if ok else 'fragment type does not follow first_fragment', key='type')
    for fn in [f for f in variants(facts, SB + 'allocate_l2cap_transmit_buffer', chk) if f.body.find(lambda n: n.k in REF_KINDS and n.n == 'transmit_buffer_')]:
        rets = [r for r in fn.returns() if mentions(r, 'transmit_buffer_')]
        ok = len(rets) == 1
        if ok:
            ats = guard_atoms(fn, rets[0])
            ok = has_atom(ats, lambda n: is_name(n, 'transmit_size_'), {'=='}, lambda o: cval(o) == 0) and has_atom(ats, lambda n: is_name(n, 'transmit_buffer_used_'), {'=='}, lambda o: cval(o) == 0)
        chk.instance('sdu-buffer-single-owner', fn, 'transmit_buffer_ handed out only under transmit_size_ == 0 && transmit_buffer_used_ == 0', ok,
                     '' if ok else 'the SDU buffer is handed out again while fragments of the committed SDU are still to be sent (right after commit: used == 0, size != 0): the SDU is overwritten and never sent completely', key='alloc sdu')

