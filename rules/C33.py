"""C33 Keys are offered only after successful pairing or from the bond database."""
from .lib.match import *
from .sm_common import *

SELECT = SELECT_SM
UNITS = UNITS_SM
ALSO = [('C32', ('errors-reset',))]   # clauses of this property that another module's rules decide: run here as well
META = {
    'level': 'guarded-by / who-writes / who-calls rules on the three connection-data classes and the bonding layer: a key is returned with first == true only under '
             'state() == pairing_completed, ediv == 0 and rand == 0, it is the field written by *_pairing_completed, those completion functions are called only from the '
             'verified protocol sites, and the bonding layer consults the data base with the peer address only when the connection has no own key.',
    'technique': 'static guarded-by / who-writes / who-calls rules over clang AST/CFG facts',
}
CLASSES = ('legacy_security_connection_data', 'lesc_security_connection_data', 'security_connection_data')
KEYFIELDS = {'short_term_key', 'long_term_key_'}


def find_key_guard(chk, facts, rule='find-key-guard'):
    for cls in CLASSES:
        for fn in variants(facts, 'bluetoe::details::%s::find_key' % cls, chk):
            pos = neg = 0
            ok = True
            why = ''
            for r in fn.returns():
                v = ret_value(r)
                il = None
                for x in (v.walk() if v is not None else []):
                    if x.k == 'InitListExpr' or (x.d.get('ctor') and x.cn == 'pair'):
                        il = x
                        break
                elems = il.c if il is not None else []
                first = cval(elems[0]) if elems else None
                if first == 1:
                    pos += 1
                    ats = guard_atoms(fn, r)
                    eq, _ = state_eq_atoms(ats)
                    g = 'pairing_completed' in eq and has_atom(ats, lambda n: is_name(n, 'ediv'), {'=='}, lambda o: cval(o) == 0) and has_atom(ats, lambda n: is_name(n, 'rand'), {'=='}, lambda o: cval(o) == 0)
                    kf = len(elems) == 2 and (strip_casts(elems[1]).n in KEYFIELDS)
                    if not (g and kf):
                        ok, why = False, 'key offered without (pairing completed && ediv == 0 && rand == 0) or not the stored pairing key'
                else:
                    neg += 1
                    if elems and first not in (None, 0):
                        ok, why = False, 'unexpected return'
            ok = ok and pos == 1 and neg >= 1
            chk.instance(rule, fn, cls + '::find_key', ok, why or ('' if ok else 'expected one guarded positive return and a negative default'), key=cls)


def run(chk, facts, tier):
    chk.rule('find-key-guard', 'find_key returns {true, key} only under state() == pairing_completed && ediv == 0 && rand == 0, and an empty pair otherwise', floor=3)
    chk.rule('key-writers', 'the key fields are stored only by legacy_pairing_completed / lesc_pairing_completed from their argument, together with the pairing_completed state', floor=3)
    chk.rule('completion-callers', 'legacy_pairing_completed is called only behind the confirm-value check, lesc_pairing_completed and store_lesc_key_in_bond_db only behind the DHKey (Ea) check', floor=3)
    chk.rule('bond-db-fallback', 'bonding_db_data_t::find_key returns the connection\'s own key first and otherwise obj.find_key(ediv, rand, remote_address())', floor=1)
    find_key_guard(chk, facts)
    # writers of key fields
    for fld in KEYFIELDS:
        for fn, tgt, op, val, st in field_stores(facts, fld, 'bluetoe::details::'):
            if op == 'init':
                continue
            okn = fn.name in ('legacy_pairing_completed', 'lesc_pairing_completed') and op == '=' and is_name(val, fn.params[0]['n'])
            sts = [c for c in fn.body.calls('state') if c.args() and strip_casts(c.args()[0]).n == 'pairing_completed']
            ok = okn and len(sts) == 1
            chk.instance('key-writers', fn, '%s = %s in %s::%s' % (fld, val.text() if val is not None else '', fn.cls.split('::')[-1], fn.name), ok, '' if ok else 'pairing key written outside the completion function', node=st, key='%s in %s::%s' % (fld, fn.cls.split('::')[-1], fn.name))
    # callers
    from .C32 import run as _unused  # noqa (shares spec)
    for fn in facts.functions:
        if not fn.q.startswith('bluetoe::details::security_manager'):
            continue
        for c in fn.body.calls('legacy_pairing_completed'):
            ok = fn.name == 'legacy_handle_pairing_random' and any(op == '==' and not isinstance(r, int) and (strip_casts(l).is_call('mconfirm') or strip_casts(r).is_call('mconfirm')) for l, op, r in guard_atoms(fn, c))
            chk.instance('completion-callers', fn, 'legacy_pairing_completed() in ' + fn.name, ok, '' if ok else 'STK accepted without the confirm check', node=c, key='legacy in ' + fn.name)
        for c in fn.body.calls('store_lesc_key_in_bond_db'):
            ok = ea_verified(facts, fn, c)
            chk.instance('completion-callers', fn, 'store_lesc_key_in_bond_db() in ' + fn.name, ok, '' if ok else 'the LTK of a pairing whose DHKey check was not (yet) verified is written to the bond data base: after a failed pairing find_key offers it', node=c, key='bond store in ' + fn.name)
        for c in fn.body.calls('lesc_pairing_completed'):
            ok = ea_verified(facts, fn, c)
            chk.instance('completion-callers', fn, 'lesc_pairing_completed() in ' + fn.name, ok, '' if ok else 'LTK accepted although the central\'s DHKey check was never compared', node=c, key='lesc in ' + fn.name)
    for fn in variants(facts, 'bluetoe::bonding_data_base::bonding_db_data_t::find_key', chk):
        rets = fn.returns()
        ok = len(rets) == 2
        if ok:
            own = [d for d in fn.body.find(lambda n: n.k == 'VarDecl' and n.c) if strip_casts(d.c[0]).is_call('find_key') and len(strip_casts(d.c[0]).args()) == 2]
            ok = len(own) == 1
            lk = own[0].n if own else '?'
            r0 = [r for r in rets if is_name(ret_value(r), lk)]
            ok = ok and len(r0) == 1 and any(op == '!=' and cval(o) == 0 and not isinstance(s, int) and strip_casts(s).n == 'first' for s, op, o in guard_atoms(fn, r0[0]))
            r1 = [r for r in rets if ret_value(r) is not None and ret_value(r).is_call('find_key')]
            ok = ok and len(r1) == 1 and len(ret_value(r1[0]).args()) == 3 and is_name(ret_value(r1[0]).args()[0], 'ediv') and is_name(ret_value(r1[0]).args()[1], 'rand') and strip_casts(ret_value(r1[0]).args()[2]).is_call('remote_address')
        chk.instance('bond-db-fallback', fn, 'bonding_db_data_t::find_key', ok, '' if ok else 'bond data base is not consulted with (ediv, rand, peer address) as fallback', key='bond find_key')
