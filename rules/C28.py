"""C28 A link is encrypted only with a key supplied for it."""
from .lib.match import *

SELECT = r'^bluetoe::link_layer::details::link_layer_security_impl::impl::|^bluetoe::link_layer::link_layer::(disconnect|force_disconnect)$|^bluetoe::details::link_state::|^bluetoe::details::(legacy_security_connection_data|lesc_security_connection_data|security_connection_data)::find_key$'
UNITS = lambda u: u in ('w_inst_ll', 'w_inst_sm') or u.startswith('t_link_layer_ll_enc')
SI = 'bluetoe::link_layer::details::link_layer_security_impl::impl::'
LL = 'bluetoe::link_layer::link_layer::'
META = {
    'level': 'guarded-by / who-writes rules on the link layer security part: is_encrypted(true) and start_transmit_encrypted() are reachable only on an edge that tests a member which is set true '
             'only in the has_key_ branch of transmit_pending_security_pdus (where LL_START_ENC_REQ is sent and reception switches to encrypted); has_key_ comes only from connection_data_.find_key(ediv, rand) '
             'with ediv/rand read from the LL_ENC_REQ body; the no-key branch rejects; pause request/response store is_encrypted(false); disconnect and force_disconnect pass through reset_encryption(), '
             'which stores false and stops both directions. Holds for every order of LL encryption PDUs because it is a property of all CFG paths.',
    'technique': 'static guarded-by / who-writes / must-pass rules over clang AST/CFG facts',
}


def run(chk, facts, tier):
    chk.rule('encrypted-needs-start-enc-req', 'every is_encrypted(true) / start_transmit_encrypted() is control dependent on a flag that only the has_key_ branch (LL_START_ENC_REQ sent) sets', floor=1)
    chk.rule('key-from-find-key', 'has_key_ is written only by std::tie(has_key_, key) = connection_data_.find_key(ediv, rand) with ediv/rand read from the request body (and false initially)', floor=1)
    chk.rule('start-enc-req-only-with-key', 'transmit_pending_security_pdus: LL_START_ENC_REQ + start_receive_encrypted() only under has_key_, otherwise reject(LL_ENC_REQ, pin_or_key_missing)', floor=1)
    chk.rule('key-only-for-its-request', 'the connection data classes the link layer asks (find_key(ediv, rand)) supply the pairing key only under state() == pairing_completed && ediv == 0 && rand == 0 (the same rule as C33\'s find-key-guard: a key is supplied only for the EDIV/Rand it belongs to)', floor=3)
    from .C33 import find_key_guard
    find_key_guard(chk, facts, 'key-only-for-its-request')
    chk.rule('pause-and-reset-unencrypt', 'LL_PAUSE_ENC_REQ / LL_PAUSE_ENC_RSP store is_encrypted(false); reset_encryption() stores false and stops both directions; disconnect() and force_disconnect() call reset_encryption()', floor=4)
    tp = variants(facts, SI + 'transmit_pending_security_pdus', chk)
    # flags that are set true only in the has_key_ branch next to the START_ENC_REQ
    good_flags = None
    for fn in tp:
        flags = set()
        for tgt, op, val, st in stores(fn.body):
            if op == '=' and cval(val) == 1 and has_atom(guard_atoms(fn, st), lambda n: is_name(n, 'has_key_'), {'!='}, lambda o: cval(o) == 0):
                nm = target_name(tgt)
                same = [c for c in fn.body.calls('start_receive_encrypted') if fn.block_of(c) == fn.block_of(st)]
                if nm and same:
                    flags.add(nm)
        good_flags = flags if good_flags is None else good_flags & flags
        sr = fn.body.calls('start_receive_encrypted')
        rj = fn.body.calls('reject')
        ok = len(sr) == 1 and has_atom(guard_atoms(fn, sr[0]), lambda n: is_name(n, 'has_key_'), {'!='}, lambda o: cval(o) == 0)
        ok = ok and len(rj) == 1 and has_atom(guard_atoms(fn, rj[0]), lambda n: is_name(n, 'has_key_'), {'=='}, lambda o: cval(o) == 0) and mentions(rj[0], 'LL_ENC_REQ') and mentions(rj[0], 'err_pin_or_key_missing')
        fl = [c for c in fn.body.calls('fill') if mentions(c, 'LL_START_ENC_REQ')]
        ok = ok and len(fl) == 1 and fn.block_of(fl[0]) == fn.block_of(sr[0])
        chk.instance('start-enc-req-only-with-key', fn, 'has_key_ ? LL_START_ENC_REQ + start_receive_encrypted : reject', ok, '' if ok else 'encryption is started without a key (or the no-key case is not rejected)', key='start enc req')
    good_flags = good_flags or set()
    # other writers of those flags must only clear them
    for fl in sorted(good_flags):
        for fn, tgt, op, val, st in field_stores(facts, fl, SI[:-2]):
            if op != 'init' and cval(val) == 1 and fn.name != 'transmit_pending_security_pdus':
                good_flags = good_flags - {fl}
    for fn in variants(facts, SI + 'handle_encryption_pdus', chk):
        sites = [c for c in fn.body.calls('is_encrypted') if c.args() and cval(c.args()[0]) == 1] + fn.body.calls('start_transmit_encrypted')
        if not sites:
            chk.instance('encrypted-needs-start-enc-req', fn, 'is_encrypted(true)', False, 'no site sets the link encrypted', key='none')
        for c in sites:
            ats = guard_atoms(fn, c)
            g = any(op == '!=' and cval(r) == 0 and not isinstance(l, int) and strip_casts(l).k in REF_KINDS and strip_casts(l).n in good_flags for l, op, r in ats)
            rsp = any(op == '==' and is_name(l, 'opcode') and not isinstance(r, int) and strip_casts(r).n == 'LL_START_ENC_RSP' for l, op, r in ats)
            ok = g and rsp
            # one LL_START_ENC_REQ allows one LL_START_ENC_RSP: the flag is consumed on the very path that marks the link encrypted
            clr = [st for tgt, op, val, st in stores(fn.body) if target_name(tgt) in good_flags and op == '=' and cval(val) == 0]
            gs = lambda n: sorted((cnd.i, str(o)) for cnd, o in fn.guards(n))
            consumed = any(gs(st) == gs(c) for st in clr)
            chk.instance('encrypted-needs-start-enc-req', fn, '%s(%s): request flag cleared on the same path' % (c.cn, 'true' if c.args() else ''), consumed,
                         '' if consumed else 'the "LL_START_ENC_REQ was sent" flag is not cleared on every path that accepts the LL_START_ENC_RSP: a later, unsolicited LL_START_ENC_RSP (after a pause) switches encryption on again although no key was requested',
                         node=c, key=str(c.cn) + ' consumes')
            chk.instance('encrypted-needs-start-enc-req', fn, '%s(%s)' % (c.cn, 'true' if c.args() else ''), ok,
                         '' if ok else 'LL_START_ENC_RSP is accepted although the peripheral never sent LL_START_ENC_REQ with a key (flags set with the key: %s): an unsolicited LL_START_ENC_RSP makes the link count as encrypted' % sorted(good_flags),
                         node=c, key=c.cn)
        # a new LL_ENC_REQ starts the procedure over: what an earlier request had reached (LL_START_ENC_REQ sent for ITS key) does not carry over
        clr = [st for tgt, op, val, st in stores(fn.body) if target_name(tgt) in good_flags and op == '=' and cval(val) == 0
               and any(op2 == '==' and is_name(l, 'opcode') and not isinstance(r, int) and strip_casts(r).n == 'LL_ENC_REQ' for l, op2, r in guard_atoms(fn, st))]
        req_sites = [c for c in fn.body.calls('find_key')]
        okn = len(req_sites) == 1 and any(sorted((cnd.i, str(o)) for cnd, o in fn.guards(st)) == sorted((cnd.i, str(o)) for cnd, o in fn.guards(req_sites[0])) for st in clr)
        chk.instance('key-only-for-its-request', fn, 'LL_ENC_REQ clears the "LL_START_ENC_REQ was sent" flag of an earlier request', okn,
                     '' if okn else 'LL_ENC_REQ (known key) .. LL_ENC_REQ (unknown key, rejected) .. LL_START_ENC_RSP: the flag set for the first request is still set, the response is accepted and the link counts as encrypted '
                     'although the request in force was rejected (and the cipher was set up with the all zero key)', node=req_sites[0] if req_sites else None, key='enc_req restarts')
        for name in ('LL_PAUSE_ENC_REQ', 'LL_PAUSE_ENC_RSP'):
            cs = [c for c in fn.body.calls('is_encrypted') if c.args() and cval(c.args()[0]) == 0 and any(op == '==' and is_name(l, 'opcode') and not isinstance(r, int) and strip_casts(r).n == name for l, op, r in guard_atoms(fn, c))]
            chk.instance('pause-and-reset-unencrypt', fn, name + ' -> is_encrypted(false)', len(cs) == 1, '' if len(cs) == 1 else 'pausing encryption leaves the link reported as encrypted', key=name)
        # has_key_
        ties = [c for c in fn.body.calls('tie') if any(is_name(a, 'has_key_') for a in c.args())]
        ok = len(ties) == 1
        if ok:
            asg = ties[0].parent
            fk = [c for c in asg.calls('find_key')] if asg is not None else []
            ok = len(fk) == 1 and [a.text() for a in fk[0].args()] == ['ediv', 'rand']
            e, r = local_init(fn, 'ediv'), local_init(fn, 'rand')
            ok = ok and e is not None and r is not None and mentions(e, 'pdu_body') and mentions(r, 'pdu_body')
        others = [st for tgt, op, val, st in stores(fn.body) if target_name(tgt) == 'has_key_']
        chk.instance('key-from-find-key', fn, 'std::tie(has_key_, key) = find_key(ediv, rand)', ok and not others, '' if ok and not others else 'has_key_ does not come from the key lookup for the requested EDIV/Rand', key='has_key_')
    for fn in variants(facts, SI + 'reset_encryption', chk):
        ok = any(c.args() and cval(c.args()[0]) == 0 for c in fn.body.calls('is_encrypted')) and bool(fn.body.calls('stop_receive_encrypted')) and bool(fn.body.calls('stop_transmit_encrypted'))
        chk.instance('pause-and-reset-unencrypt', fn, 'reset_encryption', ok, '' if ok else 'reset does not return the link to unencrypted', key='reset')
        flag = [st for tgt, op, val, st in stores(fn.body) if target_name(tgt) == 'start_encryption_requested_' and cval(val) == 0 and not fn.guards(st)]
        chk.instance('pause-and-reset-unencrypt', fn, 'reset_encryption clears start_encryption_requested_', bool(flag), '' if flag else 'the "LL_START_ENC_REQ sent, response outstanding" flag survives the connection: on the next connection a bare LL_START_ENC_RSP is accepted and the link reported encrypted without a key having been supplied for it', key='reset flag')
    for name in ('disconnect', 'force_disconnect'):
        for fn in facts.fns(LL + name):
            cs = fn.body.calls('reset_encryption')
            if name == 'force_disconnect' and fn.params:
                continue
            if name == 'disconnect' and not fn.params:
                continue
            ok = len(cs) == 1 and not fn.guards(cs[0])
            chk.instance('pause-and-reset-unencrypt', fn, name + ' -> reset_encryption()', ok, '' if ok else 'the link stays encrypted across a disconnect', key=name)
