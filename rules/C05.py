"""C05 Encryption-protected values are never exposed on an unencrypted link."""
import re, itertools
from .lib.match import *
from .lib.witness import PRELUDE, run_witness

SELECT = (r'characteristic_value_access$|^bluetoe::details::generate_attribute::access$|^bluetoe::details::encryption_requirements::check$'
          r'|^bluetoe::server::(l2cap_output|handle_\w+|read_multiple\w*)$|^bluetoe::details::\w+::(operator\(\)|each|\w*collect\w*|\w*filter\w*)$|^bluetoe::link_layer::link_layer::\w*$')
UNITS = lambda u: u in ('w_inst_att', 'w_inst_enc') or u.startswith('t_att') or u.startswith('t_encryption') or u.startswith('t_server') or u.startswith('t_char')
EXACT = ('enc-truth-table', 'enc-wiring')   # verdicts computed from the meaning of the code (compiler / folding / symbolic terms): not gated by the golden structure
ALSO = [('C28', ('pause-and-reset-unencrypt', 'encrypted-needs-start-enc-req'))]   # the security attribute the checks read is the link's encrypted flag: its writers are decided by C28's rules, run here as well
META = {
    'level': 'three static layers: (T) the compiler evaluates characteristic_requires_encryption<> for all 64 placements of {none, requires, no, may} at '
             'server/service/characteristic level against the documented rule; (R) every characteristic value access implementation and the CCCD access begin with '
             'encryption_requirements<RequiresEncryption>::check(args.connection_security) and nothing of the value or client configuration is touched unless it '
             'returned success; the check function maps (encrypted, key) to the three results; the RequiresEncryption argument really instantiated for a family of '
             'declarations equals the rule; every access-argument object built in a request handler or the notification path carries that connection\'s '
             'security attributes. Does not cover what user-supplied handlers do with the data.',
    'technique': 'static_assert truth table evaluated by clang + must-pass/guarded-by/argument-provenance rules over AST/CFG facts',
}

OPTS = {'none': None, 'req': 'bluetoe::requires_encryption', 'no': 'bluetoe::no_encryption_required', 'may': 'bluetoe::may_require_encryption'}


def expected(srv, svc, chr_):
    v = False
    for lvl in (srv, svc, chr_):
        if lvl == 'req':
            v = True
        elif lvl == 'no':
            v = False
    return v


def truth_table(chk):
    src = PRELUDE + '''#include <bluetoe/server.hpp>
#include <bluetoe/service.hpp>
#include <bluetoe/characteristic.hpp>
#include <bluetoe/encryption.hpp>
namespace b = bluetoe;
std::uint8_t v;
template < class... O > using C = b::characteristic< b::characteristic_uuid16< 0x1001 >, b::bind_characteristic_value< std::uint8_t, &v >, O... >;
template < class Chr, class... O > using S = b::service< b::service_uuid16< 0x1000 >, Chr, O... >;
template < class Svc, class... O > using V = b::server< Svc, b::no_gap_service_for_gatt_servers, O... >;
'''
    obl = []
    for srv, svc, ch in itertools.product(OPTS, OPTS, OPTS):
        c = 'C< %s >' % (OPTS[ch] or '')
        s = 'S< %s%s >' % (c, (', ' + OPTS[svc]) if OPTS[svc] else '')
        v = 'V< %s%s >' % (s, (', ' + OPTS[srv]) if OPTS[srv] else '')
        key = 'enc:%s/%s/%s' % (srv, svc, ch)
        exp = expected(srv, svc, ch)
        src += 'VERIF_ASSERT( "%s", b::details::characteristic_requires_encryption< %s, %s, %s >::value == %s );\n' % (key, c, s, v, 'true' if exp else 'false')
        obl.append((key, 'server=%s service=%s characteristic=%s => requires encryption == %s' % (srv, svc, ch, exp)))
    run_witness(chk, 'enc-truth-table', 'c05_truth', src, obl)


def check_access_fn(chk, fn, what):
    """security check first; everything touching the value / client configuration only on its success edge"""
    key = what
    decls = [d for d in fn.body.find(lambda n: n.k == 'VarDecl') if d.c and strip_casts(d.c[0]).is_call('check')]
    decl = None
    for d in decls:
        c = strip_casts(d.c[0])
        a = c.args()
        arg_ok = len(a) == 1 and strip_casts(a[0]).n == 'connection_security' and is_name(base_object(strip_casts(a[0])), 'args')
        cal = c.callee()
        qual = (cal.d.get('qual') or '') if cal is not None else ''
        cq = c.cq or ''
        tmpl_ok = ('encryption_requirements' in qual and re.search(r'[Rr]equires_?[Ee]ncryption', qual)) or cq == 'bluetoe::details::encryption_requirements::check'
        if arg_ok and tmpl_ok:
            decl = d
    if decl is None:
        anyc = [c for c in fn.body.calls('check') if c.args() and strip_casts(c.args()[0]).n == 'connection_security']
        if anyc:
            # a security check is made, but through a name the rule cannot tie to encryption_requirements<RequiresEncryption> (alias, helper): no verdict
            chk.broke('%s: check(args.connection_security) is called through `%s`, which the rule cannot identify as encryption_requirements<RequiresEncryption> (idiom not recognised)' % (what, (anyc[0].callee().text() if anyc[0].callee() is not None else '?')[:60]))
            return
        chk.instance('enc-check-first', fn, what, False, 'access function does not start with encryption_requirements<RequiresEncryption>::check(args.connection_security)', key=key)
        return
    var = decl.n
    bad = None
    for n in fn.body.walk():
        if n.k in ('MemberExpr', 'CXXDependentScopeMemberExpr') and n.n in ('buffer', 'buffer_size', 'buffer_offset', 'client_config', 'server', 'type') and is_name(base_object(n), 'args'):
            ats = guard_atoms(fn, n)
            if not has_atom(ats, lambda s: is_name(s, var), {'=='}, lambda o: (not isinstance(o, int)) and strip_casts(o).n == 'success'):
                bad = n
                break
        elif n.is_call() and n.cn and (n.cn.startswith('characteristic_value_') or n.cn.startswith('call_') or n.cn in ('attribute_value_read_access',)):
            ats = guard_atoms(fn, n)
            if not has_atom(ats, lambda s: is_name(s, var), {'=='}, lambda o: (not isinstance(o, int)) and strip_casts(o).n == 'success'):
                bad = n
                break
    # the failure must be returned unchanged
    ret_ok = any(is_name(ret_value(r), var) and has_atom(guard_atoms(fn, r), lambda s: is_name(s, var), {'!='}, lambda o: (not isinstance(o, int)) and strip_casts(o).n == 'success') for r in fn.returns() if ret_value(r) is not None)
    ok = bad is None and ret_ok
    chk.instance('enc-check-first', fn, what, ok,
                 '' if ok else ('args.%s / %s reached at line %d without a successful security check' % (bad.n, bad.cn, bad.l) if bad is not None else 'security failure is not returned to the caller'),
                 node=bad or decl, key=key)


def run(chk, facts, tier):
    chk.rule('enc-truth-table', 'characteristic_requires_encryption<C,S,Srv>::value equals "innermost explicit requires/no_encryption_required wins, default off" for all 4x4x4 option placements (evaluated by the compiler)', floor=64)
    chk.rule('enc-check-first', 'every characteristic_value_access implementation and the CCCD access call encryption_requirements<RequiresEncryption>::check(args.connection_security) first, '
             'return its failure and touch args.buffer/client_config/handlers only on the success edge', floor=5)
    chk.rule('enc-check-table', 'encryption_requirements<true>::check: encrypted -> success; else no_key -> insufficient_authentication, otherwise insufficient_encryption; <false> -> success', floor=2)
    chk.rule('enc-wiring', 'for the witness declarations the RequiresEncryption argument instantiated for each characteristic value / CCCD access equals the documented rule', floor=15)
    chk.rule('security-arg', 'every 6-argument attribute_access_arguments::read/write built in a server request handler or l2cap_output passes <connection>.client_configurations() and '
             '<connection>.security_attributes() of the handler\'s own connection parameter', floor=6)

    truth_table(chk)

    # --- sibling set: value access implementations
    impls = [f for f in facts.functions if f.name == 'characteristic_value_access']
    pat_classes = sorted({f.cls for f in impls if f.kind == 'pattern'})
    chk.require(len(pat_classes) >= 4, 'fewer than 4 characteristic_value_access implementations found: %s' % pat_classes)
    for fn in impls:
        check_access_fn(chk, fn, fn.cls.replace('bluetoe::', '') + '::characteristic_value_access')
    for fn in facts.fns('bluetoe::details::generate_attribute::access'):
        if fn.body.find(lambda n: n.n == 'client_config'):
            check_access_fn(chk, fn, 'CCCD generate_attribute::access')

    # --- decision table of the check function
    checks = facts.fns('bluetoe::details::encryption_requirements::check')
    chk.require(len(checks) >= 2, 'encryption_requirements<true/false>::check not found')
    for fn in checks:
        is_true = '<true>' in fn.targs
        if not is_true:
            rets = fn.returns()
            ok = len(rets) == 1 and strip_casts(ret_value(rets[0])).n == 'success'
            chk.instance('enc-check-table', fn, 'encryption_requirements<false>::check', ok, '' if ok else 'must return success', key='check<false>')
            continue
        # every way a value is returned (ternaries unfolded), with what is known there about is_encrypted and pairing_status == no_key
        def outcomes(v, ats):
            v = strip_casts(v)
            if v.k == 'ConditionalOperator':
                return outcomes(v.c[1], ats + atoms(v.c[0], True)) + outcomes(v.c[2], ats + atoms(v.c[0], False))
            return [(deep(v), ats)]
        rows = set()
        shape_ok = True
        for r in fn.returns():
            for v, ats in outcomes(ret_value(r), guard_atoms(fn, r)):
                enc = None
                nokey = None
                for l, op, r2 in ats:
                    for a, b in ((l, r2), (r2, l)):
                        if isinstance(a, int):
                            continue
                        a = strip_casts(a)
                        if a.n == 'is_encrypted' and (isinstance(b, int) or cval(b) is not None) and op in ('==', '!='):
                            enc = (op == '!=') == (cval(b) == 0)
                        if a.n == 'pairing_status' and not isinstance(b, int) and strip_casts(b).n == 'no_key' and op in ('==', '!='):
                            nokey = op == '=='
                if v is None or v.k not in REF_KINDS:
                    shape_ok = False
                    continue
                rows.add((enc, nokey if enc is False else None, v.n))
        want = {(True, None, 'success'), (False, True, 'insufficient_authentication'), (False, False, 'insufficient_encryption')}
        if not chk.require(shape_ok, 'encryption_requirements<true>::check returns a computed value: idiom not recognised'):
            continue
        ok = rows == want
        chk.instance('enc-check-table', fn, 'encryption_requirements<true>::check', ok, '' if ok else 'decision table (encrypted, no key, result) is %s, expected %s' % (sorted(rows, key=str), sorted(want, key=str)), key='check<true>')

    # --- wiring on the witness family (uuid low bit == expected)
    def uuid_of(targs):
        m = re.search(r'characteristic_uuid16<(\d+)>', targs)
        return int(m.group(1)) if m else None
    by_hash = {}
    for fn in impls:
        if fn.kind == 'inst' and fn.unit == 'w_inst_enc':
            by_hash[fn.hdr.get('h')] = fn
            u = uuid_of(fn.targs)
            nta = fn.hdr.get('nta') or []
            if u is not None and (u >> 12) == 0xE and nta:
                ok = nta[-1] == (u & 1)
                chk.instance('enc-wiring', fn, 'characteristic 0x%04x value access RequiresEncryption=%s' % (u, nta[-1]), ok, '' if ok else 'declared rule says %d' % (u & 1), key='value 0x%04x' % u)
    for h in facts.dup_headers:
        if h['n'] == 'characteristic_value_access' and h['unit'] == 'w_inst_enc':
            u = uuid_of(h['targs'])
            nta = h.get('nta') or []
            if u is not None and (u >> 12) == 0xE and nta:
                ok = nta[-1] == (u & 1)
                chk.obligation('enc-wiring', 'witness:inst_enc', 'characteristic 0x%04x value access RequiresEncryption=%s' % (u, nta[-1]), ok, '' if ok else 'declared rule says %d' % (u & 1), key='value 0x%04x' % u)
    # CCCD: identified by (service uuid, ClientCharacteristicIndex) of the generate_attribute specialisation
    CCCD_EXPECT = {(0xE000, 0): 0, (0xE000, 1): 1, (0xE100, 2): 1, (0xE100, 3): 0,
                   (0xE201, 0): 1, (0xE201, 1): 0, (0xE300, 2): 0, (0xE300, 3): 1, (0xE401, 4): 1}
    def cccd_key(targs):
        m = re.search(r'(\d+)UL, bluetoe::service<bluetoe::service_uuid16<(\d+)>', targs)
        return (int(m.group(2)), int(m.group(1))) if m else None
    cccd = {}
    seen_keys = set()
    def cccd_obl(fn, targs, v):
        k = cccd_key(targs)
        if k in CCCD_EXPECT:
            seen_keys.add(k)
            ok = v == CCCD_EXPECT[k]
            text = 'service 0x%04x CCCD #%d access requires_encryption=%s' % (k[0], k[1], v)
            if fn is not None:
                chk.instance('enc-wiring', fn, text, ok, '' if ok else 'declared rule says %d' % CCCD_EXPECT[k], key='cccd %04x/%d' % k)
            else:
                chk.obligation('enc-wiring', 'witness:inst_enc', text, ok, '' if ok else 'declared rule says %d' % CCCD_EXPECT[k], key='cccd %04x/%d' % k)
    for fn in facts.fns('bluetoe::details::generate_attribute::access'):
        if fn.kind == 'inst' and fn.unit == 'w_inst_enc' and fn.body.find(lambda n: n.n == 'client_config'):
            calls = [c for c in fn.body.calls('check') if c.cq == 'bluetoe::details::encryption_requirements::check']
            if calls:
                cccd[fn.hdr.get('h')] = (calls[0].d.get('cnta') or [None])[0]
                cccd_obl(fn, fn.targs, cccd[fn.hdr.get('h')])
    for h in facts.dup_headers:
        if h['n'] == 'access' and h['unit'] == 'w_inst_enc' and h.get('same_as') in cccd:
            cccd_obl(None, h['targs'], cccd[h['same_as']])
    if 'w_inst_enc' in facts.units:
        chk.require(seen_keys == set(CCCD_EXPECT), 'CCCD wiring witness: instantiations not found for %s' % sorted(set(CCCD_EXPECT) - seen_keys))

    # --- security attributes argument provenance
    for fn in facts.functions:
        if not (fn.q.startswith('bluetoe::server::') or fn.q.startswith('bluetoe::details::')):
            continue
        for c in fn.body.calls(('read', 'write')):
            cal = c.callee()
            qual = ((cal.d.get('qual') or '') + (c.cq or '')) if cal is not None else (c.cq or '')
            if 'attribute_access_arguments' not in qual or len(c.args()) != 6:
                continue
            a = [strip_casts(x) for x in c.args()]
            cc, cs = a[3], a[4]
            if cc.k in REF_KINDS and cs.k in REF_KINDS and cc.n.endswith('_') and cs.n.endswith('_') and fn.cls:
                # functor members: follow them to the constructor arguments at every construction site
                ic, isx = field_ctor_param(facts, fn.cls, cc.n), field_ctor_param(facts, fn.cls, cs.n)
                sites = list(ctor_sites(facts, fn.cls.split('::')[-1]))
                okf = ic is not None and isx is not None and bool(sites)
                whyf = 'cannot trace %s/%s to constructor arguments' % (cc.n, cs.n)
                for sfn, d, a2 in sites:
                    if not okf:
                        break
                    if max(ic, isx) >= len(a2):
                        okf, whyf = False, 'construction site in %s has too few arguments' % sfn.name
                        break
                    x, y = a2[ic], a2[isx]
                    g = x.is_call('client_configurations') and y.is_call('security_attributes') and same_expr(base_object(x), base_object(y)) and strip_casts(base_object(x)).n in {p['n'] for p in sfn.params}
                    if not g:
                        okf, whyf = False, 'construction site in %s (line %d) does not pass <connection>.client_configurations()/<connection>.security_attributes()' % (sfn.name, d.l)
                chk.instance('security-arg', fn, '%s(..., %s, %s, ...) via %d construction site(s)' % (c.cn, cc.text(), cs.text(), len(sites)), okf, '' if okf else whyf, node=c, key='%s in %s' % (c.cn, fn.name))
                continue
            ok = cc.is_call('client_configurations') and cs.is_call('security_attributes')
            why = 'arguments 4/5 are not <conn>.client_configurations() / <conn>.security_attributes()'
            if ok:
                o1, o2 = base_object(cc), base_object(cs)
                ok = o1 is not None and o2 is not None and same_expr(o1, o2)
                why = 'client configuration and security attributes come from different objects'
                if ok:
                    # the object must be a parameter / member standing for the handler's connection
                    nm = strip_casts(o1).n
                    params = {p['n'] for p in fn.params}
                    ok = nm in params or nm.endswith('_') or nm in ('cc', 'client', 'connection')
                    why = 'security attributes are not taken from the connection the request arrived on (%s)' % nm
            chk.instance('security-arg', fn, '%s(..., %s, %s, ...)' % (c.cn, cc.text(), cs.text()), ok, '' if ok else why, node=c, key='%s in %s' % (c.cn, fn.name))
