"""C38 Generated passkeys are six-digit values."""
from .lib.match import *
from .lib.paths import explore

SELECT = r'^bluetoe::nrf52_details::security_tool_box::(create_passkey|create_srand)$|^bluetoe::nrf52_details::random_number\w*$|::random_number\w*$'
UNITS = lambda u: u in ('nrf_security_tool_box',)
META = {
    'level': 'range rule on the only passkey generator (nRF52 security tool box, parsed against a declaration-only nrf.h stub): the value returned by create_passkey() is a variable that, on every path to the '
             'return, was last assigned inside a rejection loop whose exit edge is `passkey <= 999999` (so 0..999999 holds for every RNG byte stream), the candidate is built from RNG calls only by masking/shifting to a '
             'power-of-two range (uniform), no modulo reduction of a non-multiple range (which would be biased), and the three result bytes are the little-endian bytes of that variable. Quality of the hardware RNG is assumed.',
    'technique': 'static range / store-shape rule with path-sensitive typestate over clang AST/CFG facts',
}


def run(chk, facts, tier):
    chk.rule('passkey-range', 'create_passkey: the encoded value is bounded by a rejection loop exiting only on value <= 999999; candidates come from RNG calls through masks/shifts; no biased modulo; result bytes are value, value >> 8, value >> 16', floor=1)
    fns = [f for f in facts.functions if f.name == 'create_passkey' and 'security_tool_box' in (f.cls or '')]
    chk.require(bool(fns), 'security_tool_box::create_passkey not found (does the nRF52 unit still parse with stubs/nrf.h?)')
    for fn in fns:
        rets = fn.returns()
        ok = len(rets) == 1
        why = 'unexpected shape'
        var = None
        if ok:
            res = ret_value(rets[0])
            init = local_init(fn, res.n) if res.k in REF_KINDS else res
            elems = [strip_casts(x) for x in init.walk() if x.k == 'InitListExpr'][:1] if init is not None else []
            els = elems[0].c if elems else []
            while len(els) == 1 and els[0].k == 'InitListExpr':
                els = els[0].c
            names = set()
            shifts = []
            for e in els:
                e = strip_casts(e)
                refs = [x for x in e.walk() if x.k in REF_KINDS and x.d.get('local')]
                calls = [x for x in e.walk() if x.d.get('call')]
                if calls:
                    ok, why = False, 'a result byte is taken directly from the random number generator (%s): 3 raw bytes give 0..16777215' % calls[0].cn
                names |= {r.n for r in refs}
                sh = [cval(x.c[1]) for x in e.walk() if x.k == 'BinaryOperator' and x.o == '>>']
                shifts.append(sh[0] if sh else 0)
            if ok:
                ok = len(names) == 1 and shifts[:3] == [0, 8, 16] and len(els) >= 3
                why = 'result bytes are not the little-endian bytes of one bounded value'
                var = next(iter(names)) if names else None
        if ok:
            # typestate: var bounded at the return
            def on_node(ts, node):
                for tgt, op, val, st in stores(node):
                    if st is node and is_name(tgt, var):
                        return 'unbounded'
                return ts
            def on_edge(ts, cond, outcome, ats):
                ub = upper_bound(ats, lambda n: is_name(n, var))
                if ub is None:
                    for l, op, r in ats:
                        if is_name(l, var) and op in ('<=',) and not isinstance(r, int) and local_init(fn, strip_casts(r).n) is not None and local_init(fn, strip_casts(r).n).v is not None:
                            ub = local_init(fn, strip_casts(r).n).v
                        if is_name(l, var) and op in ('<=',) and not isinstance(r, int) and strip_casts(r).v is not None:
                            ub = strip_casts(r).v
                if ub is not None and ub <= 999999:
                    return 'bounded'
                return ts
            res = explore(fn, 'unbounded', on_node, on_edge)
            ok = bool(res) and all(ts == 'bounded' for ts, tr in res)
            why = 'a path reaches the return with a value that was not compared against 999999 after its last assignment'
        if ok:
            for tgt, op, val, st in stores(fn.body):
                if is_name(tgt, var) and val is not None:
                    if any(x.k == 'BinaryOperator' and x.o == '%' for x in val.walk()):
                        ok, why = False, 'modulo reduction of a power-of-two range is biased'
                    if mentions(val, var):
                        ok, why = False, 'a rejected candidate is only partly redrawn (the new candidate depends on the old one): accepted values are not uniformly distributed'
                    if not any(x.d.get('call') and 'random' in (x.cn or '') for x in val.walk()):
                        ok, why = False, 'candidate is not drawn from the random number generator'
        chk.instance('passkey-range', fn, 'create_passkey value %s' % var, ok, '' if ok else why, key='create_passkey')
        if ok and var is not None:
            # uniform over 0..999999: a candidate is rejected exactly when it exceeds 999999 - any further rejection removes values from the range
            loops = [n for n in fn.body.walk() if n.k in ('DoStmt', 'WhileStmt', 'ForStmt') and n.child('cond') is not None and mentions(n.child('cond'), var)]
            if len(loops) == 1:
                c = strip_casts(loops[0].child('cond'))
                rej = atoms(c, True)
                single = len(rej) >= 1 and all(((is_name(l, var) and op == '>') or (not isinstance(r, int) and is_name(r, var) and op == '<')) for l, op, r in rej if not (not isinstance(l, int) and resolve_local(l) is not None))
                disj = c.k == 'BinaryOperator' and c.o == '||'
                oku = single and not disj
                chk.instance('passkey-range', fn, 'rejection condition of the sampling loop: %s' % c.text()[:60], oku, '' if oku else 'candidates are also rejected for another reason than exceeding 999999 (%s): some six digit values are never generated, the passkey is not uniform over 000000..999999' % c.text()[:60], node=loops[0], key='create_passkey rejection')
        # uniformity of the candidate: every one of the k low bits comes from exactly one RNG draw, 2^k > 999999
        if var is not None and ok:
            import re as _re
            for tgt, op, val, st in stores(fn.body):
                if not (is_name(tgt, var) and val is not None):
                    continue

                def bits(n):
                    """-> list of bit positions fed by RNG draws, or None when the expression is not an OR of masked/shifted draws"""
                    n = strip_casts(n)
                    b = as_binop(n)
                    if b and b[0] == '|':
                        l, r = bits(b[1]), bits(b[2])
                        return None if l is None or r is None else l + r
                    if b and b[0] == '<<' and cval(b[2]) is not None:
                        l = bits(b[1])
                        return None if l is None else [x + cval(b[2]) for x in l]
                    if b and b[0] == '&' and (cval(b[2]) is not None or cval(b[1]) is not None):
                        m = cval(b[2]) if cval(b[2]) is not None else cval(b[1])
                        l = bits(b[1] if cval(b[2]) is not None else b[2])
                        return None if l is None else [x for x in l if (m >> x) & 1]
                    if n.d.get('call'):
                        m2 = _re.match(r'random_number(\d+)$', n.cn or '')
                        return list(range(int(m2.group(1)))) if m2 else None
                    return None
                bs = bits(val)
                if bs is None:
                    chk.broke('create_passkey: candidate expression %s is not an OR of masked / shifted random_number<N>() draws: idiom not recognised' % val.text()[:60])
                    continue
                k = len(set(bs))
                oku = len(bs) == k and sorted(bs) == list(range(k)) and (1 << k) > 999999
                chk.instance('passkey-range', fn, 'candidate %s: bits %s from the RNG' % (var, ('0..%d' % (k - 1)) if sorted(set(bs)) == list(range(k)) else sorted(set(bs))), oku,
                             '' if oku else ('two draws feed the same bit (OR of two random bits is 1 with probability 3/4)' if len(bs) != k else
                                             'the candidate covers only %d bit(s) (0..%d): values above are never generated, the accepted values are not uniform over 000000..999999' % (k, (1 << k) - 1) if sorted(bs) == list(range(k)) else
                                             'bits %s are never random' % sorted(set(range(max(bs) + 1)) - set(bs))), node=st, key='create_passkey candidate bits')
