"""C10 Notifications carry the requested characteristic to subscribed clients only (structure)."""
import re
from .lib.match import *
from .lib.witness import PRELUDE, run_witness

SELECT = r'^bluetoe::server::(l2cap_output|notify|indicate|find_notification_data|find_notification_data_by_index)$|^bluetoe::details::find_notification_data_in_list::|^bluetoe::details::find_notification_by_uuid::|^bluetoe::details::impl::attribute_at::'
UNITS = lambda u: u in ('w_inst_att',) or u.startswith('t_att_notification') or u.startswith('t_att_indication') or u.startswith('t_att_outgoing') or u.startswith('t_att_find_notification')
FN = 'bluetoe::details::find_notification_data_in_list::'
EXACT = ('order-witness',)   # verdicts computed from the meaning of the code (compiler / folding / symbolic terms): not gated by the golden structure
ALSO = [('C09', ('packing-shape',)), ('C12', ('priority-chaining', 'entry-addressing'))]   # 'sent only to a subscribed connection' needs the stored subscription bits of one CCCD not to leak into its neighbours: decided by C09's rule, run here as well
META = {
    'level': 'index-space agreement: the three producers of notification_data (lookup by bound value, by CCCD index and by characteristic UUID) iterate lists of one order class - the priority-sorted list '
             'and the list derived from it - which is also the order of cccd_indices used by the CCCD attributes; compiler-evaluated witness for declarations with priorities: the i-th entry of the list the '
             'lookups iterate has cccd position cccd_indices[i] and the by-UUID lookup yields that same i; server::l2cap_output sends only on the edge flags(that index) & required_flag with required_flag '
             'selected by the dequeued kind, writes the handle of and reads the value at the same attribute_table_index(), and notify/indicate forward the looked-up data with their own kind. '
             '"Single PDU for repeated requests" is the queue\'s newly-queued rule (C12).',
    'technique': 'static sibling-agreement / guarded-by / argument rules over clang AST/CFG facts + static_assert witness evaluated by clang',
}
ORDER_CLASS = {'characteristics_sorted_by_priority', 'characteristics_with_cccd_handle'}


def run(chk, facts, tier):
    chk.rule('producers-same-order', 'find_notification_data(value), find_notification_data_by_index(i) and find_notification_by_uuid::data() all use the priority-sorted characteristic list (or the list derived from it)', floor=3)
    chk.rule('order-witness', 'for witness servers with priorities (one with the same characteristic UUID in two services): sorted list entry i has cccd_position == cccd_indices[i] and find_notification_by_uuid yields cccd index i for that characteristic (evaluated by the compiler)', floor=4)
    chk.rule('send-only-if-subscribed', 'l2cap_output: the PDU is produced only under flags(data.client_characteristic_configuration_index()) & required_flag, required_flag chosen by the dequeued kind, opcode by the same kind', floor=1)
    chk.rule('same-attribute', 'l2cap_output writes handle_by_index(data.attribute_table_index()) and reads attribute_at(data.attribute_table_index()) with that index', floor=1)
    chk.rule('request-kind-forwarded', 'notify() forwards notification_type::notification and indicate() notification_type::indication together with the looked-up data', floor=4)
    for name in ('find_notification_data', 'find_notification_data_by_index'):
        for fn in variants(facts, FN + name, chk):
            lists = []
            for c in fn.body.calls('each'):
                cal = c.callee()
                q = (cal.d.get('qual') or '') + (c.cq or '') + (cal.text() if cal is not None else '')
                m = re.findall(r'characteristics_\w+', q)
                lists += m
            if fn.kind != 'pattern' and not lists:
                continue
            ok = bool(lists) and all(l in ORDER_CLASS for l in lists)
            chk.instance('producers-same-order', fn, '%s iterates %s' % (name, lists), ok,
                         '' if ok else 'lookup iterates a list in declaration order while CCCD indices are assigned in priority order: with outgoing priorities the wrong characteristic is notified and the wrong subscription consulted', key=name)
    # the visitors that walk that list: the CCCD index they report is the position in the walked (sorted) list
    chk.rule('visitor-counts-sorted-position', 'find_notification_data(value): attribute_value::each reports notification_data(first_attribute_index + 1, index) with index initialised to 0 and incremented '
             'exactly once per visited element, unconditionally (or the element\'s cccd_handle, its position in the sorted list) - never cccd_position, which is the position in declaration order; '
             'find_notification_data_by_index: attribute_at::each counts the requested index down once per element and takes first_attribute_index at zero', floor=2)
    for fn in [f for f in facts.fns(FN + 'attribute_value::each') if f.kind == 'pattern']:
        ctors = [c for c in fn.body.walk() if c.k in ('CXXUnresolvedConstructExpr', 'CXXTemporaryObjectExpr', 'CXXConstructExpr') and (c.t or '').endswith('notification_data') and len(c.c) == 2]
        ctor = [f for f in facts.fns(FN + 'attribute_value::attribute_value') if f.kind == 'pattern']
        chk.require(len(ctors) == 1 and len(ctor) == 1, 'attribute_value::each: notification_data(index, cccd) construction or the visitor constructor not found')
        if len(ctors) != 1 or len(ctor) != 1:
            continue
        a0, a1 = [strip_casts(a) for a in ctors[0].c]
        b0 = as_binop(a0)
        ok0 = b0 is not None and b0[0] == '+' and strip_casts(b0[1]).n == 'first_attribute_index' and cval(b0[2]) == 1
        if a1.n == 'cccd_handle' and a1.k != 'MemberExpr':
            ok1, how = True, 'element cccd_handle'
        else:
            init = [i for i in (ctor[0].hdr.get('inits') or []) if i['n'] == a1.n]
            incs = [n for n in fn.body.walk() if n.k == 'UnaryOperator' and n.o == '++' and is_name(n.c[0], a1.n)]
            other = [st for tgt, op, val, st in stores(fn.body) if is_name(tgt, a1.n) and st not in incs]
            ok1 = a1.k == 'MemberExpr' or (a1.k in REF_KINDS and not a1.d.get('local'))
            ok1 = ok1 and len(init) == 1 and init[0]['init'].get('v') == 0 and len(incs) == 1 and not fn.guards(incs[0]) and not other
            how = 'running counter %s (0, ++ once per element)' % a1.n
        chk.instance('visitor-counts-sorted-position', fn, 'notification_data(%s, %s): %s' % (a0.text(), a1.text(), how), bool(ok0 and ok1),
                     '' if ok0 and ok1 else 'the CCCD index reported for a bound value is %s, not the position of the characteristic in the priority-sorted list: with outgoing priorities the wrong subscription is consulted and the wrong queue entry used' % a1.text(),
                     node=ctors[0], key='attribute_value::each')
    for fn in [f for f in facts.fns('bluetoe::details::impl::attribute_at::each') if f.kind == 'pattern']:
        st = [(tgt, val, s) for tgt, op, val, s in stores(fn.body) if is_name(tgt, 'result') and op == '=']
        decs = [n for n in fn.body.walk() if n.k == 'UnaryOperator' and n.o == '--' and is_name(n.c[0], 'index')]
        ok = len(st) == 1 and strip_casts(st[0][1]).n == 'first_attribute_index' and len(decs) == 1 and not fn.guards(decs[0])
        ok = ok and has_atom(guard_atoms(fn, st[0][2]), lambda n: is_name(n, 'index'), {'=='}, lambda o: cval(o) == 0)
        chk.instance('visitor-counts-sorted-position', fn, 'attribute_at::each: result = first_attribute_index at index == 0, --index once per element', ok, '' if ok else 'lookup by CCCD index does not select the element at that position of the walked list', key='attribute_at::each')
    for fn in variants(facts, 'bluetoe::details::find_notification_by_uuid::data', chk):
        ok = mentions(fn.body, 'cccd_handle') and mentions(fn.body, 'first_attribute_index')
        chk.instance('producers-same-order', fn, 'find_notification_by_uuid::data uses char_infos::cccd_handle (list derived from the sorted list)', ok, '' if ok else 'by-UUID lookup does not use the position in the sorted list', key='by uuid')
    # witness
    src = PRELUDE + '''#include "inst_att_decls.hpp"
namespace wit {
    template < class Server, std::size_t I >
    struct order_check
    {
        using find   = b::details::find_notification_data_in_list< typename Server::notification_priority, typename Server::services >;
        using entry  = typename std::tuple_element< I, typename find::characteristics_sorted_by_priority >::type;
        using by_uuid = b::details::find_notification_by_uuid< typename Server::notification_priority, typename Server::services, typename entry::characteristic_t >;
        static constexpr bool value =
               entry::cccd_position == std::tuple_element< I, typename Server::cccd_indices >::type::value
            && by_uuid::char_infos::cccd_handle == I
            && by_uuid::char_infos::first_attribute_index == entry::first_attribute_index;
    };
}
'''
    obl = []
    for name, n in (('srv_prio', 5), ('srv_nine', 9), ('srv_layout', 3), ('srv_dup_uuid', 3)):
        for i in range(n):
            src += 'VERIF_ASSERT( "order:%s:%d", wit::order_check< wit::%s, %d >::value );\n' % (name, i, name, i)
            obl.append(('order:%s:%d' % (name, i), '%s: sorted entry %d agrees with cccd_indices[%d] and the by-UUID lookup' % (name, i, i)))
    # ground truth for the attribute index a queue entry is resolved to: the index of the characteristic declaration in the attribute table, counted by hand from the
    # witness declarations (service declaration + include declarations + 2..4 attributes per preceding characteristic), in priority order
    expected = {'srv_layout': (2, 5, 12), 'srv_includes': (3, 10, 20), 'srv_dup_uuid': (8, 1, 4)}
    for name, idxs in sorted(expected.items()):
        for i, want in enumerate(idxs):
            src += 'VERIF_ASSERT( "attr-index:%s:%d", wit::order_check< wit::%s, %d >::entry::first_attribute_index == %d );\n' % (name, i, name, i, want)
            obl.append(('attr-index:%s:%d' % (name, i), '%s: queue entry %d is resolved to attribute index %d (its characteristic declaration; services with include declarations)' % (name, i, want)))
    run_witness(chk, 'order-witness', 'c10_order', src, obl)
    # l2cap_output
    for fn in variants(facts, 'bluetoe::server::l2cap_output', chk):
        outs = [st for tgt, op, val, st in stores(fn.body) if (strip_casts(tgt).k == 'UnaryOperator' and is_name(strip_casts(tgt).c[0], 'output'))]
        ok = len(outs) == 1
        why = 'opcode store not found'
        if ok:
            ats = guard_atoms(fn, outs[0])
            flag = None
            rf_node = None
            for l, op, r in ats:
                if op == '!=' and cval(r) == 0 and not isinstance(l, int):
                    b = as_binop(l)
                    if b and b[0] == '&' and b[1].is_call('flags'):
                        flag = b[1]
                        rf_node = b[2]
            ok = flag is not None and strip_casts(flag.args()[0]).is_call('client_characteristic_configuration_index')
            why = 'the PDU is built without testing the subscription bit of that characteristic'
            rf = deep(rf_node) if rf_node is not None else None
            if ok:
                ok = rf is not None and rf.k == 'ConditionalOperator' and mentions(rf.c[0], 'notification') and 'notification_enabled' in rf.c[1].text() and 'indication_enabled' in rf.c[2].text()
                why = 'required flag does not follow the dequeued kind'
            if ok:
                v = strip_casts([val for tgt, op, val, st in stores(fn.body) if st is outs[0]][0])
                ok = v.k == 'ConditionalOperator' and mentions(v.c[0], 'notification') and mentions(v.c[1], 'notification') and mentions(v.c[2], 'indication')
                why = 'opcode does not follow the dequeued kind'
            dcl = [d for d in fn.body.find(lambda n: n.k == 'VarDecl' and n.c) if strip_casts(d.c[0]).is_call('find_notification_data_by_index')]
            data = strip_casts(dcl[0].c[0]) if len(dcl) == 1 else None
            if ok:
                ok = data is not None and data.is_call('find_notification_data_by_index') and mentions(data, 'pending') and is_name(base_object(strip_casts(flag.args()[0])), dcl[0].n)
                why = 'notification data is not looked up by the dequeued CCCD index'
        chk.instance('send-only-if-subscribed', fn, 'flags(data.client_characteristic_configuration_index()) & required_flag', ok, '' if ok else why, key='subscribed')
        wh = fn.body.calls('write_handle')
        at = fn.body.calls('attribute_at')
        ac = fn.body.calls('access')
        idx = lambda n: n.is_call('attribute_table_index') and is_name(base_object(n), 'data')
        ok = len(wh) == 1 and len(at) == 1 and len(ac) == 1 and idx(strip_casts(at[0].args()[0])) and idx(strip_casts(ac[0].args()[1])) and any(c.cn == 'handle_by_index' and idx(strip_casts(c.args()[0])) for c in wh[0].calls())
        chk.instance('same-attribute', fn, 'handle_by_index(i), attribute_at(i).access(.., i) with i = data.attribute_table_index()', ok, '' if ok else 'handle and value of a notification come from different attributes', key='same attribute')
    for name, kind in (('notify', 'notification'), ('indicate', 'indication')):
        for fn in variants(facts, 'bluetoe::server::' + name, chk):
            cb = [c for c in fn.body.calls() if c.cn == 'l2cap_cb_' or (c.callee() is not None and c.callee().n == 'l2cap_cb_')]
            ok = len(cb) == 1 and is_name(cb[0].args()[0], 'data') and strip_casts(cb[0].args()[2]).n == kind
            d = local_init(fn, 'data')
            ok = ok and d is not None and (d.is_call('find_notification_data') or d.is_call('data'))
            chk.instance('request-kind-forwarded', fn, '%s -> l2cap_cb_(data, .., %s)' % (name, kind), ok, '' if ok else 'request forwarded with the wrong kind or data', key='%s/%d' % (name, len(fn.params)))
