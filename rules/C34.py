"""C34 Distributed keys are only sent over an encrypted link."""
from .lib.match import *
from .sm_common import *

SELECT = SELECT_SM
UNITS = UNITS_SM
META = {
    'level': 'guarded-by / who-writes / who-calls rules: in bonding_db_data_t::distribute_keys every write to the output PDU and every non-zero out_size is control dependent on '
             'connection.security_attributes().is_encrypted and on one pending flag which is cleared on that path; the pending flags are set only by arm_key_distribution; '
             'arm_key_distribution is called only after the legacy confirm check. Holds for every interleaving of SMP traffic, encryption changes and output polling because '
             'the guards are on every CFG path.',
    'technique': 'static guarded-by / who-writes / who-calls rules over clang AST/CFG facts',
}
BD = 'bluetoe::bonding_data_base::bonding_db_data_t::'
FLAGS = ('pending_encryption_information', 'pending_central_identification')


def run(chk, facts, tier):
    chk.rule('reply-size-defined', 'distribute_keys and the l2cap_output functions of the security managers assign the in/out PDU size on every path: nothing is sent that was not written', floor=5)
    reply_size_defined(chk, facts, 'reply-size-defined', lambda fn: fn.name == 'distribute_keys' or fn.name.endswith('l2cap_output'))
    chk.rule('send-only-encrypted', 'distribute_keys: every output write / non-zero out_size depends on connection.security_attributes().is_encrypted', floor=4)
    chk.rule('send-once', 'each item is sent on the true edge of its pending flag and that flag is cleared on the same path; out_size starts at 0', floor=3)
    chk.rule('flag-writers', 'pending flags are set true only in arm_key_distribution and cleared only in distribute_keys', floor=4)
    chk.rule('arm-after-pairing', 'arm_key_distribution is called only in legacy_handle_pairing_random behind the confirm-value comparison, after legacy_pairing_completed', floor=1)
    for fn in variants(facts, BD + 'distribute_keys', chk):
        conn = fn.params[2]['n']
        def enc(node):
            for l, op, r in guard_atoms(fn, node):
                if op == '!=' and cval(r) == 0 and not isinstance(l, int):
                    x = strip_casts(l)
                    if x.n == 'is_encrypted' and x.c and strip_casts(x.c[0]).is_call('security_attributes') and is_name(base_object(strip_casts(x.c[0])), conn):
                        return True
            return False
        outs = []
        for tgt, op, val, st in stores(fn.body):
            t = strip_casts(tgt)
            if t.k == 'ArraySubscriptExpr' and is_name(t.c[0], 'output'):
                outs.append(('output[%s]' % t.c[1].text(), st))
            elif is_name(t, 'out_size') and cval(val) != 0:
                outs.append(('out_size = %s' % val.text(), st))
        for c in fn.body.calls():
            if c.cn in ('copy', 'write_16bit', 'write_64bit') and any(mentions(a, 'output') for a in c.args()):
                outs.append((c.cn + ' -> output', c))
        for what, node in outs:
            ok = enc(node)
            chk.instance('send-only-encrypted', fn, what, ok, '' if ok else 'key material can be written to the PDU on an unencrypted link', node=node, key=what)
        z = [st for tgt, op, val, st in stores(fn.body) if is_name(tgt, 'out_size') and cval(val) == 0]
        ok = bool(z) and not fn.guards(z[0])
        chk.instance('send-once', fn, 'out_size = 0 first', ok, '' if ok else 'nothing-to-send default missing', key='default')
        for fl in FLAGS:
            clr = [st for tgt, op, val, st in stores(fn.body) if target_name(tgt) == fl and cval(val) == 0]
            ok = len(clr) == 1 and has_atom(guard_atoms(fn, clr[0]), lambda n: is_name(n, fl), {'!='}, lambda o: cval(o) == 0)
            # the opcode written in the same branch
            chk.instance('send-once', fn, fl + ' cleared on the sending path', ok, '' if ok else 'item can be sent again on the next poll', key=fl)
    for fl in FLAGS:
        for fn, tgt, op, val, st in field_stores(facts, fl, 'bluetoe::bonding_data_base'):
            if op == 'init':
                continue
            v = cval(val)
            ok = (v == 1 and fn.name == 'arm_key_distribution') or (v == 0 and fn.name == 'distribute_keys')
            chk.instance('flag-writers', fn, '%s = %s in %s' % (fl, v, fn.name), ok, '' if ok else 'key distribution armed/cleared outside the protocol', node=st, key='%s=%s in %s' % (fl, v, fn.name))
    n = 0
    for fn in facts.functions:
        if fn.q.startswith('bluetoe::details::'):
            for c in fn.body.calls('arm_key_distribution'):
                n += 1
                comp = fn.body.calls('legacy_pairing_completed')
                ok = fn.name == 'legacy_handle_pairing_random' and len(comp) == 1 and precedes(fn, comp[0], c) and \
                    any(op == '==' and not isinstance(r, int) and (strip_casts(l).is_call('mconfirm') or strip_casts(r).is_call('mconfirm')) for l, op, r in guard_atoms(fn, c))
                chk.instance('arm-after-pairing', fn, 'arm_key_distribution() in ' + fn.name, ok, '' if ok else 'keys armed for distribution before pairing was verified', node=c, key='arm in ' + fn.name)
