"""C31 L2CAP channel multiplexing and signaling are well behaved (structure)."""
from .lib.match import *

SELECT = r'^bluetoe::details::l2cap::|^bluetoe::l2cap::signaling_channel::'
UNITS = lambda u: u in ('w_inst_ll', 'w_inst_l2cap') or u.startswith('t_l2cap') or u.startswith('t_link_layer_signaling')
L2 = 'bluetoe::details::l2cap::'
SC = 'bluetoe::l2cap::signaling_channel::'
META = {
    'level': 'guarded-by / argument / typestate-shape rules: an L2CAP frame reaches a channel only behind in_size >= 4, in_size == length field + 4 and channel_id == Channel::channel_id; the reply '
             'is written behind handled && out_size with the received channel id and the handler\'s size, inside the allocated buffer; the signaling channel accepts a Connection Parameter Update Response '
             'only while a request is transmitted AND its identifier equals the identifier of that request, moves queued -> transmitted exactly when it emits the request, advances the identifier skipping 0, '
             'and rejects other commands echoing a non-zero identifier. Frame contents beyond these fields are not decided.',
    'technique': 'static guarded-by / argument-provenance rules over clang AST/CFG facts',
}


def run(chk, facts, tier):
    chk.rule('frame-checks', 'handle_l2cap_input delivers only behind in_size >= l2cap_layer_header_size and in_size == size + l2cap_layer_header_size, with size/channel read from input and input+2', floor=1)
    chk.rule('cid-not-narrowed', 'every variable, field and parameter the received channel id passes through (local channel_id read with read_16bit(input + 2), the handler constructors\' parameters, the '
             'channel_id fields compared with Channel::channel_id and written back into replies) holds at least 16 bits', floor=4)
    import re as _re

    def width(t):
        t = (t or '').replace('const ', '').replace('std::', '').strip()
        m = _re.match(r'u?int(\d+)_t', t)
        if m:
            return int(m.group(1))
        return {'size_t': 64, 'unsigned int': 32, 'int': 32, 'unsigned short': 16, 'short': 16, 'unsigned char': 8, 'char': 8, 'bool': 1, 'unsigned long': 64, 'long': 64}.get(t)
    for c in facts.classes:
        if c['kind'] == 'pattern' and c['q'] in ('bluetoe::details::l2cap::l2cap_input_handler', 'bluetoe::details::l2cap::l2cap_output_handler'):
            for f in c['fields']:
                if f['n'] == 'channel_id':
                    w = width(f['t'])
                    chk.obligation('cid-not-narrowed', c['q'], 'field channel_id : %s' % f['t'], w is not None and w >= 16,
                                   'the channel id is kept in %s bits: frames whose CID only agrees in the low octet (e.g. 0x0104) are delivered to the ATT channel and answered instead of being dropped' % w, key=c['q'].split('::')[-1] + '.channel_id')
    for fn in facts.functions:
        if fn.kind != 'pattern' or not fn.q.startswith('bluetoe::details::l2cap::'):
            continue
        for ini in (fn.hdr.get('inits') or []):
            if ini['n'] == 'channel_id' and ini['init'].get('k') == 'DeclRefExpr':
                p = next((p for p in fn.params if p['n'] == ini['init'].get('n')), None)
                if p is not None:
                    w = width(p['t'])
                    chk.instance('cid-not-narrowed', fn, 'constructor parameter %s : %s' % (p['n'], p['t']), w is not None and w >= 16, 'the channel id is passed through %s bits' % w, key=fn.q.split('::')[-1] + ' ctor')
        for d in fn.body.find(lambda n: n.k == 'VarDecl' and n.n == 'channel_id'):
            w = width(d.t)
            chk.instance('cid-not-narrowed', fn, 'local channel_id : %s in %s' % (d.t, fn.name), w is not None and w >= 16 and d.c and strip_casts(d.c[0]).is_call('read_16bit'), 'the channel id is read into %s bits' % w, node=d, key='local in ' + fn.name)
    chk.rule('channel-dispatch', 'l2cap_input_handler::each calls Channel::l2cap_input only when channel_id == Channel::channel_id and passes the payload window', floor=1)
    chk.rule('reply-framing', 'the reply header carries handler.out_size and the received channel_id, is committed with out_size + header and only when handled && out_size; handler output window starts after the header', floor=1)
    chk.rule('response-needs-matching-identifier', 'signaling_channel::l2cap_input completes the pending request only for code 0x13 while transmitted and input[1] == identifier_ (with in_size covering it)', floor=1)
    chk.rule('reply-size-defined', 'signaling_channel::l2cap_input and reject_command assign the reply size (in/out parameter, buffer capacity on entry) on every path to their exit, directly or by handing it to reject_command', floor=2)
    chk.rule('output-window', 'transmit_single_pending_l2cap_output offers the channels the allocated buffer behind the 4 byte L2CAP header and exactly the room that is left there (buffer + H, size - H with one H), '
             'and commits out_size + H', floor=1)
    chk.rule('request-sent-once', 'l2cap_output emits the request only in state queued and stores transmitted on that path; output[1] = identifier_', floor=1)
    chk.rule('identifier-nonzero', 'identifier_ starts non-zero, is advanced only on completion and skips invalid_identifier', floor=2)
    chk.rule('reject-echo', 'reject_command answers only for in_size >= 2 and a non-zero identifier, echoing input[1]', floor=1)
    for fn in variants(facts, L2 + 'handle_l2cap_input', chk):
        hs = fn.body.find(lambda n: n.k == 'VarDecl' and n.d.get('tn') == 'l2cap_input_handler')
        ok = len(hs) == 1
        if ok:
            ats = guard_atoms(fn, hs[0].c[0] if hs[0].c and hs[0].c[0].i >= 0 else hs[0].parent)
            lb = any(op == '>=' and is_name(l, 'in_size') and not isinstance(r, int) and mentions(r, 'l2cap_layer_header_size') for l, op, r in ats)
            eq = any(op == '==' and is_name(l, 'in_size') and not isinstance(r, int) and mentions(r, 'size') and mentions(r, 'l2cap_layer_header_size') for l, op, r in ats)
            s0, s1 = local_init(fn, 'size'), local_init(fn, 'channel_id')
            prov = s0 is not None and s0.is_call('read_16bit') and is_name(s0.args()[0], 'input') and s1 is not None and s1.is_call('read_16bit') and 'input + 2' in s1.args()[0].text()
            ok = lb and eq and prov
        chk.instance('frame-checks', fn, 'in_size >= 4 && in_size == size + 4 before dispatch', ok, '' if ok else 'a frame with a wrong length field reaches a channel', key='frame')
        ok = len(hs) == 1
        if ok:
            init = hs[0].c[0]
            a = [x for x in (init.c if init.k in ('ParenListExpr', 'InitListExpr') else init.args())]
            ok = len(a) == 7 and is_name(a[1], 'channel_id') and 'input + l2cap_layer_header_size' in a[2].text() and 'in_size - l2cap_layer_header_size' in a[3].text() and 'second + l2cap_layer_header_size' in a[4].text()
            w = [c for c in fn.body.calls('write_16bit')]
            cm = fn.body.calls('commit_l2cap_output_buffer')
            ok = ok and len(w) == 2 and len(cm) == 1
            if ok:
                ats = guard_atoms(fn, cm[0])
                ok = any(strip_casts(l).n == 'handled' for l, op, r in ats if not isinstance(l, int) and op == '!=') and any(strip_casts(l).n == 'out_size' for l, op, r in ats if not isinstance(l, int) and op == '!=')
                ok = ok and 'out_size' in w[0].args()[1].text() and is_name(w[1].args()[1], 'channel_id') and 'second + 2' in w[1].args()[0].text()
                ok = ok and 'out_size + l2cap_layer_header_size' in cm[0].text()
        chk.instance('reply-framing', fn, 'reply: [out_size][channel_id] + payload, committed with out_size + 4', ok, '' if ok else 'reply is not framed with the handler size and the received channel id', key='reply')
    for fn in variants(facts, L2 + 'l2cap_input_handler::each', chk):
        cs = fn.body.calls('l2cap_input')
        ok = len(cs) == 1 and any(op == '==' and is_name(l, 'channel_id') and not isinstance(r, int) and strip_casts(r).n == 'channel_id' for l, op, r in guard_atoms(fn, cs[0]))
        ok = ok and [a.text() for a in cs[0].args()][:4] == ['input', 'in_size', 'output', 'out_size']
        st = [s for tgt, op, val, s in stores(fn.body) if is_name(tgt, 'handled') and cval(val) == 1 and fn.block_of(s) == fn.block_of(cs[0])] if cs else []
        ok = ok and len(st) == 1
        chk.instance('channel-dispatch', fn, 'channel_id == Channel::channel_id -> Channel::l2cap_input(payload)', ok, '' if ok else 'a frame can be delivered to a channel other than the one its CID names', key='dispatch')
    for fn in variants(facts, SC + 'l2cap_input', chk):
        st = [s for tgt, op, val, s in stores(fn.body) if is_name(tgt, 'pending_status_') and strip_casts(val).n == 'idle']
        ok = len(st) == 1
        why = 'completion store not found'
        if ok:
            ats = guard_atoms(fn, st[0])
            code = any(op == '==' and is_name(l, 'code') and not isinstance(r, int) and strip_casts(r).n == 'connection_parameter_update_response_code' for l, op, r in ats)
            tr = any(op == '==' and is_name(l, 'pending_status_') and not isinstance(r, int) and strip_casts(r).n == 'transmitted' for l, op, r in ats)
            ident = False
            for l, op, r in ats:
                if op == '==' and not isinstance(r, int):
                    for x, y in ((strip_casts(l), strip_casts(r)), (strip_casts(r), strip_casts(l))):
                        if is_name(y, 'identifier_'):
                            src = x
                            if x.k in REF_KINDS:
                                src = local_init(fn, x.n) or x
                            if 'input[1]' in src.text():
                                ident = True
            lb = lower_bound(ats, lambda n: is_name(n, 'in_size'))
            ok = code and tr and ident
            why = 'guards: code==0x13 %s, transmitted %s, identifier matches %s' % (code, tr, ident)
            if ok and not ((lb is not None and lb >= 2) or any('in_size' in (local_init(fn, n.n).text() if local_init(fn, n.n) is not None else '') for n in fn.body.find(lambda n: n.k in REF_KINDS and n.d.get('local')))):
                ok, why = False, 'identifier read without a length test'
        chk.instance('response-needs-matching-identifier', fn, 'pending request completed only by a matching response', ok,
                     '' if ok else 'any Connection Parameter Update Response (or one from an earlier request) completes the pending procedure: ' + why, key='response')
        adv = [(val, s) for tgt, op, val, s in stores(fn.body) if is_name(tgt, 'identifier_')]
        ok = len(adv) == 2 and all(fn.block_of(s) == fn.block_of(st[0]) or any(is_name(l, 'identifier_') and op == '==' for l, op, r in guard_atoms(fn, s)) for v, s in adv) if st else False
        skip = [s for v, s in adv if has_atom(guard_atoms(fn, s), lambda n: is_name(n, 'identifier_'), {'=='}, lambda o: (not isinstance(o, int) and strip_casts(o).n == 'invalid_identifier') or cval(o) == 0)]
        ok = ok and len(skip) == 1
        chk.instance('identifier-nonzero', fn, 'identifier_ advanced on completion, 0 skipped', ok, '' if ok else 'identifier may become 0 or advance without a completed request', key='advance')
    # out_size is an in/out parameter (capacity of the reply buffer on entry, size of the reply on return): a path that leaves it untouched replies with a buffer full of garbage
    for name in ('l2cap_input', 'reject_command'):
        for fn in variants(facts, SC + name, chk):
            os_ = [p_['n'] for p_ in fn.params if p_['n'] == 'out_size' or ('size_t &' in (p_.get('t') or '') and 'const' not in (p_.get('t') or ''))]
            if not chk.require(len(os_) == 1, '%s: reply size parameter not found' % name):
                continue
            o = os_[0]
            defs = set()
            for tgt, op, val, st in stores(fn.body):
                if is_name(tgt, o) and op == '=':
                    defs.add(fn.block_of(st))
            for c in fn.body.calls('reject_command'):
                if any(is_name(a, o) for a in c.args()):
                    defs.add(fn.block_of(c))
            ok = bool(defs) and not fn.paths_avoiding([fn.entry], fn.exit, defs)
            chk.instance('reply-size-defined', fn, '%s: %s written on every path (%d writing blocks)' % (name, o, len(defs)), ok,
                         '' if ok else 'there is a path through %s that returns without setting %s: the caller takes the capacity of the output buffer as the size of a reply and sends a frame nobody wrote' % (name, o), key=name)
    for fn in variants(facts, L2 + 'transmit_single_pending_l2cap_output', chk):
        hs = fn.body.find(lambda n: n.k == 'VarDecl' and n.d.get('tn') == 'l2cap_output_handler')
        ok, why = len(hs) == 1, 'output handler construction not found'
        if ok:
            init = hs[0].c[0]
            a = [x for x in (init.c if init.k in ('ParenListExpr', 'InitListExpr') else init.args())]
            ok = len(a) == 4
            if ok:
                ea = elem_addr(a[1])
                sz = as_binop(a[2])
                ok = ea is not None and strip_casts(ea[0]).n == 'second' and sz is not None and sz[0] == '-' and strip_casts(sz[1]).n == 'first' and same_expr(ea[1], sz[2]) and strip_casts(sz[2]).n == 'l2cap_layer_header_size'
                why = 'the channels are offered (%s, %s): the room is not the allocated size minus the header the window starts behind - a channel that fills its room writes behind the link layer buffer' % (a[1].text()[:40], a[2].text()[:40])
        chk.instance('output-window', fn, 'handler( this, output.second + H, output.first - H, connection )', ok, '' if ok else why, key='window')
    for fn in variants(facts, SC + 'signaling_channel', chk):
        init = [i for n, i in fn.inits if n == 'identifier_']
        v = cval(init[0].c[0]) if init and init[0].c else (cval(init[0]) if init else None)
        chk.instance('identifier-nonzero', fn, 'identifier_ initialised to %s' % v, v not in (None, 0), '' if v else 'initial identifier must be non-zero', key='init')
    for fn in variants(facts, SC + 'l2cap_output', chk):
        st = [s for tgt, op, val, s in stores(fn.body) if is_name(tgt, 'pending_status_')]
        ok = len(st) == 1 and strip_casts([val for tgt, op, val, s in stores(fn.body) if is_name(tgt, 'pending_status_')][0]).n == 'transmitted'
        if ok:
            ats = guard_atoms(fn, st[0])
            ok = any(op == '==' and is_name(l, 'pending_status_') and not isinstance(r, int) and strip_casts(r).n == 'queued' for l, op, r in ats)
            outs = {strip_casts(tgt).c[1].v: val for tgt, op, val, s in stores(fn.body) if strip_casts(tgt).k == 'ArraySubscriptExpr' and is_name(strip_casts(tgt).c[0], 'output')}
            ok = ok and is_name(outs.get(1), 'identifier_') and strip_casts(outs.get(0)).n == 'connection_parameter_update_request_code'
            z = [s for tgt, op, val, s in stores(fn.body) if is_name(tgt, 'out_size') and cval(val) == 0]
            ok = ok and len(z) == 1 and any(op == '!=' and is_name(l, 'pending_status_') for l, op, r in guard_atoms(fn, z[0]))
        chk.instance('request-sent-once', fn, 'queued -> transmitted with the request', ok, '' if ok else 'the request can be emitted repeatedly or without the current identifier', key='send')
    for fn in variants(facts, SC + 'reject_command', chk):
        outs = [(strip_casts(tgt).c[1].v, val, s) for tgt, op, val, s in stores(fn.body) if strip_casts(tgt).k == 'ArraySubscriptExpr' and is_name(strip_casts(tgt).c[0], 'output')]
        ok = bool(outs)
        for idx, val, s in outs:
            ats = guard_atoms(fn, s)
            lb = lower_bound(ats, lambda n: is_name(n, 'in_size'))
            nz = any(op == '!=' and is_name(l, 'identifier') and ((not isinstance(r, int) and strip_casts(r).n == 'invalid_identifier') or cval(r) == 0) for l, op, r in ats)
            ok = ok and lb is not None and lb >= 2 and nz
            if idx == 1:
                init = local_init(fn, 'identifier')
                ok = ok and is_name(val, 'identifier') and init is not None and 'input[1]' in init.text()
        chk.instance('reject-echo', fn, 'Command Reject echoes input[1] (non-zero, in_size >= 2)', ok, '' if ok else 'reject may read beyond the frame or echo identifier 0', key='reject')
