"""C32 Pairing messages are only accepted in protocol order."""
import json, os
from .lib.match import *
from .lib.facts import VERIF
from .sm_common import *

SELECT = SELECT_SM
UNITS = UNITS_SM
META = {
    'level': 'state-table extraction + guarded-by rules on the template patterns and instantiations of the three security managers: opcode -> handler dispatch, the length and sm_pairing_state every '
             'protocol effect of a handler is control dependent on (against spec/smp.json), every early exit through error_response(.., state) which resets to idle, the peripheral random is copied out only '
             'behind the confirm-value comparison, and the DHKey check Eb / completion of LESC pairing only behind the comparison of the received Ea. Asynchronous user confirmation timing is covered '
             'because the rule is over all CFG paths of lesc_l2cap_output as well.',
    'technique': 'static decision-table extraction and guarded-by rules over clang AST/CFG facts',
}


def run(chk, facts, tier):
    spec = json.load(open(os.path.join(VERIF, 'spec', 'smp.json')))
    chk.rule('dispatch-table', 'l2cap_input of each security manager dispatches exactly the specified opcodes to the specified handlers; empty PDU and unknown opcodes answer Pairing Failed', floor=12)
    chk.rule('handler-preconditions', 'every protocol effect (state mutation, output write) of a pairing handler is control dependent on in_size == specified length and state() == specified state', floor=8)
    chk.rule('request-validation', 'each of the three Pairing Request handlers answers Invalid Parameters when the IO capability exceeds the last defined value, the OOB flag has other bits than bit 0, the maximum key size is outside 7..16, or reserved bits (0xf0) are set in either key distribution field - each field tested on its own', floor=3)
    chk.rule('errors-reset', 'every value return of a handler, and every error_response call in any security manager function that holds the connection state, is the member error_response(code, output, out_size, state); that member resets the pairing state to idle', floor=9)
    chk.rule('stored-ea-is-of-this-pairing', 'the "central\'s DHKey check was received and stored" flag (remote_dhkey_check_received_, consulted when the user answers a numeric comparison) is cleared without condition in the function that '
             'enters lesc_pairing_random_exchanged, the only state in which it can be set: an Ea stored in an aborted pairing is never taken for the DHKey check of the next one', floor=2)
    chk.rule('reply-size-defined', 'every pairing handler, dispatcher and error_response assigns the in/out reply size on every path (so that "anything else" is really answered with Pairing Failed or nothing, never with the unwritten buffer)', floor=14)
    reply_size_defined(chk, facts, 'reply-size-defined', lambda fn: fn.q.startswith('bluetoe::details::') and 'security_manager' in fn.q and fn.name != 'l2cap_output' and not fn.name.endswith('l2cap_output'))
    chk.rule('srand-after-confirm', 'legacy_handle_pairing_random copies srand to the output and completes pairing only if c1(tk, mrand, p1, p2) == stored mconfirm', floor=1)
    chk.rule('dhkey-after-ea', 'the DHKey check Eb is written and lesc_pairing_completed() is called only behind the comparison of the computed Ea with the received one', floor=2)
    smo = facts.enum('bluetoe::details::sm_opcodes')
    chk.require(smo is not None, 'enum sm_opcodes not found')

    # ---- dispatch
    for mgr, table in spec['dispatch'].items():
        for fn in variants(facts, 'bluetoe::details::%s::l2cap_input' % mgr, chk):
            sw = fn.body.find(lambda n: n.k == 'SwitchStmt')
            if not chk.require(len(sw) == 1, mgr + '::l2cap_input left switch form'):
                continue
            got = {}
            default_ok = False
            for case in sw[0].find(lambda n: n.k in ('CaseStmt', 'DefaultStmt')):
                body_calls = []
                # statements belonging to this label: the sub statement and following siblings until break
                sib = case.parent.c
                i = sib.index(case)
                stmts = [case.child('body')] + sib[i + 1:]
                for s in stmts:
                    if s is None:
                        continue
                    if s.k in ('CaseStmt', 'DefaultStmt'):
                        break
                    body_calls += [c.cn for c in s.calls() if c.cn and ('handle_' in c.cn or c.cn == 'error_response')]
                    if s.k == 'BreakStmt':
                        break
                if case.k == 'CaseStmt':
                    lab = strip_casts(case.child('label'))
                    got[lab.n] = sorted(set(body_calls))
                else:
                    default_ok = body_calls == ['error_response']
            for op, h in table.items():
                want = sorted(h if isinstance(h, list) else [h])
                ok = got.get(op) == want
                chk.instance('dispatch-table', fn, '%s: %s -> %s' % (mgr, op, got.get(op)), ok, '' if ok else 'expected ' + str(want), key='%s/%s' % (mgr, op))
            extra = sorted(set(got) - set(table))
            chk.instance('dispatch-table', fn, '%s: no other opcode handled (%s)' % (mgr, extra), not extra and default_ok, '' if (not extra and default_ok) else 'unexpected opcodes or default does not answer Pairing Failed', key=mgr + '/default')
            # empty PDU
            errs = [c for c in fn.body.calls('error_response') if has_atom(guard_atoms(fn, c), lambda n: is_name(n, 'in_size'), {'=='}, lambda o: cval(o) == 0)]
            swg = has_atom(guard_atoms(fn, sw[0].child('cond')), lambda n: is_name(n, 'in_size'), {'!='}, lambda o: cval(o) == 0)
            chk.instance('dispatch-table', fn, mgr + ': empty PDU rejected before reading the opcode', bool(errs) and swg, '' if errs and swg else 'input[0] read without a length test', key=mgr + '/empty')

    # ---- handler preconditions
    states = facts.enum('bluetoe::details::sm_pairing_state') or {}
    for h, req in spec['handlers'].items():
        cls = 'security_manager_impl' if h == 'handle_pairing_request' else 'security_manager_base'
        for fn in variants(facts, 'bluetoe::details::%s::%s' % (cls, h), chk):
            effs = effects(fn, facts)
            if not effs:
                chk.instance('handler-preconditions', fn, h, False, 'no protocol effects found', key=h)
                continue
            bad = None
            exp_init = None
            for what, node in effs:
                ats = guard_atoms(fn, node)
                sv, sname = size_eq(ats)
                size_ok = sv == req['size'] or (sv is None and sname is not None and sname.endswith('_size'))
                if sv is None and sname is not None:
                    # symbolic constant in the pattern: resolve through class statics / local constants
                    init = local_init(fn, sname, optional=True)
                    if init is not None and init.v is not None:
                        size_ok = init.v == req['size']
                    else:
                        for c in facts.cls('bluetoe::details::security_manager_base'):
                            for s in c['statics']:
                                if s['n'] == sname and (s.get('v') is not None or s.get('init')):
                                    size_ok = (s.get('v') if s.get('v') is not None else int(s['init'])) == req['size']
                eq, ne = state_eq_atoms(ats)
                if len(req['states']) == 1:
                    st_ok = req['states'][0] in eq
                else:
                    # membership test through std::find over a constant list
                    mem = [a for a in ats if not isinstance(a[2], int) and a[1] == '!=' and strip_casts(a[0]).is_call('find') and strip_casts(a[2]).is_call('end')]
                    st_ok = bool(mem)
                    if st_ok:
                        decl = fn.body.find(lambda n: n.k == 'VarDecl' and n.n == 'expected_states')
                        listed = sorted({x.n for x in decl[0].walk() if x.k in REF_KINDS and x.n in states}) if decl else []
                        st_ok = listed == sorted(req['states'])
                if not (size_ok and st_ok):
                    bad = (what, node, size_ok, st_ok, sv, sorted(eq))
                    break
            ok = bad is None
            chk.instance('handler-preconditions', fn, '%s: %d effects need in_size == %d and state in %s' % (h, len(effs), req['size'], req['states']), ok,
                         '' if ok else '%s at line %d reachable with size check=%s (%s) state check=%s (%s)' % (bad[0], bad[1].l, bad[2], bad[4], bad[3], bad[5]), node=bad[1] if bad else None, key=h)
            # returns
            for i, r in enumerate(fn.returns()):
                v = ret_value(r)
                if v is None:
                    continue
                okr = v.is_call('error_response') and len(v.args()) == 4 and is_name(v.args()[3], fn.params[-1]['n'])
                chk.instance('errors-reset', fn, '%s: return %s' % (h, v.text()[:60]), okr, '' if okr else 'early exit does not reset the pairing state', node=r, key='%s/ret%d' % (h, i))
    # Pairing Request parameter validation: the three copies (legacy, LESC, combined manager) reject the same malformed requests
    def flatten_or(n):
        n = strip_casts(n)
        if n.k == 'BinaryOperator' and n.o == '||':
            return flatten_or(n.c[0]) + flatten_or(n.c[1])
        return [n]

    def input_local(fn, n):
        """index i when n is a local initialised from input[i] (optionally masked)"""
        n = strip_casts(n)
        if n.k in REF_KINDS and n.d.get('local'):
            i = local_init(fn, n.n, optional=True)
            while i is not None and as_binop(i) is not None and as_binop(i)[0] == '&':
                i = strip_casts(as_binop(i)[1])
            if i is not None and i.k == 'ArraySubscriptExpr' and is_name(i.c[0], fn.params[0]['n']):
                return cval(i.c[1])
        return None
    for q in (SB + 'legacy_handle_pairing_request', SB + 'lesc_handle_pairing_request', 'bluetoe::details::security_manager_impl::handle_pairing_request'):
        for fn in [f for f in facts.fns(q) if f.kind == 'pattern']:
            errs = [c for c in fn.body.calls('error_response') if c.args() and strip_casts(c.args()[0]).n == 'invalid_parameters']
            conds = []
            for c in errs:
                for i, br in enclosing_ifs(c):
                    if br == 'then':
                        conds += flatten_or(i.child('cond'))
            got = set()
            for d in conds:
                b = as_binop(d)
                if not b:
                    continue
                if b[0] == '&' and cval(b[2]) == 0xf0 and input_local(fn, b[1]) in (5, 6):
                    got.add('rfu%d' % input_local(fn, b[1]))
                elif b[0] == '&' and input_local(fn, b[1]) == 2 and cval(b[2]) is not None and (cval(b[2]) & 0xff) == 0xfe:
                    got.add('oob')
                elif b[0] == '>' and input_local(fn, b[1]) == 1:
                    got.add('io')
                elif b[0] in ('<', '>') and input_local(fn, b[1]) == 4:
                    got.add('key' + b[0])
                elif b[0] in ('!=',) and is_name(b[1], fn.params[1]['n']):
                    got.add('size')
            want = {'rfu5', 'rfu6', 'oob', 'io', 'key<', 'key>'}
            miss = sorted(want - got)
            chk.instance('request-validation', fn, '%s: invalid_parameters for %s' % (fn.name, sorted(got)), not miss,
                         '' if not miss else 'a Pairing Request with %s is not rejected with Invalid Parameters by this manager (the sibling handlers reject it): pairing proceeds on a malformed request' %
                         ', '.join({'rfu5': 'reserved bits in the initiator key distribution', 'rfu6': 'reserved bits in the responder key distribution', 'oob': 'an OOB flag other than 0/1', 'io': 'an IO capability above the last defined value',
                                    'key<': 'a maximum key size below 7', 'key>': 'a maximum key size above 16'}[m] for m in miss), key=fn.cls.split('::')[-1] + '::' + fn.name)
    # every Pairing Failed produced anywhere in the security managers (helpers, output polling, dispatch) goes through the resetting member
    seen = set()
    for fn in facts.functions:
        if fn.kind not in ('pattern', 'plain') or not fn.q.startswith('bluetoe::details::') or 'security_manager' not in fn.q or not fn.params or not fn.params[-1]['t'].rstrip().endswith('&'):
            continue
        for c in fn.body.calls('error_response'):
            if fn.q == SB + 'error_response':
                continue   # the resetting member itself forwards to the free function
            okc = len(c.args()) == 4 and is_name(c.args()[3], fn.params[-1]['n']) and not c.cq
            k = (fn.q, c.l)
            if k in seen:
                continue
            seen.add(k)
            chk.instance('errors-reset', fn, '%s: %s' % (fn.name, c.text()[:70]), okc, '' if okc else 'Pairing Failed is sent with the non-resetting %s: the pairing state stays where it was, a second attempt of the same step is accepted (e.g. a second DHKey check after a wrong one)' % (c.cq or 'error_response'), node=c,
                         key='%s/call %s' % (fn.name, c.args()[0].text()[:40] if c.args() else ''))
    for fn in variants(facts, SB + 'error_response', chk):
        c = member_calls(fn.body, fn.params[-1]['n'], 'error_reset')
        ok = len(c) == 1 and not fn.guards(c[0])
        chk.instance('errors-reset', fn, 'error_response -> state.error_reset()', ok, '' if ok else 'Pairing Failed does not return pairing to idle', key='error_response')
    for fn in variants(facts, 'bluetoe::details::security_connection_data_base::error_reset', chk):
        c = fn.body.calls('state')
        ok = len(c) == 1 and c[0].args() and strip_casts(c[0].args()[0]).n == 'idle' and not fn.guards(c[0]) and not fn.paths_avoiding([fn.entry], fn.exit, {fn.block_of(c[0])})
        chk.instance('errors-reset', fn, 'error_reset -> state(idle), from every state', ok, '' if ok else 'error_reset does not (always) set idle: after Pairing Failed the pairing state is not idle and the next Pairing Request is refused', key='error_reset')

    # ---- srand only after the confirm value was verified
    for fn in variants(facts, SB + 'legacy_handle_pairing_random', chk):
        def confirm_ok(node):
            for l, op, r in guard_atoms(fn, node):
                if op == '==' and not isinstance(r, int):
                    a, b = strip_casts(l), strip_casts(r)
                    for x, y in ((a, b), (b, a)):
                        if x.k in REF_KINDS and y.is_call('mconfirm'):
                            init = local_init(fn, x.n)
                            if init is not None and init.is_call('c1') and any(is_name(arg, 'mrand') for arg in init.args()):
                                return True
            return False
        sites = [c for c in fn.body.calls() if (c.cn == 'copy' and mentions(c, 'srand')) or c.cn in ('legacy_pairing_completed', 'arm_key_distribution', 's1')]
        ok = bool(sites) and all(confirm_ok(s) for s in sites)
        mr = [c for c in fn.body.calls('copy') if any(is_name(base_object(a) if a.d.get('call') else None, 'mrand') for a in c.args())]
        ok = ok and bool(mr) and mentions(mr[0].args()[0], 'input')
        chk.instance('srand-after-confirm', fn, '%d sites (srand copy, s1, legacy_pairing_completed, arm_key_distribution)' % len(sites), ok,
                     '' if ok else 'the peripheral random / STK is produced on a path where the central\'s confirm value was not verified', key='legacy random')

    # ---- Eb / completion only after Ea verified
    n = 0
    for fn in facts.functions:
        if not fn.q.startswith('bluetoe::details::security_manager'):
            continue
        sites = [c for c in fn.body.calls('lesc_pairing_completed')]
        for tgt, op, val, st in stores(fn.body):
            t = strip_casts(tgt)
            if t.k == 'ArraySubscriptExpr' and is_name(t.c[0], 'output') and val is not None and mentions(val, 'pairing_dhkey_check'):
                sites.append(st)
        for s in sites:
            n += 1
            ok = ea_verified(facts, fn, s)
            what = 'lesc_pairing_completed()' if s.d.get('call') else 'output[0] = pairing_dhkey_check'
            chk.instance('dhkey-after-ea', fn, '%s in %s' % (what, fn.name), ok,
                         '' if ok else 'the peripheral sends its DHKey check / completes LESC pairing on a path that never compared the central\'s DHKey check Ea', node=s, key='%s in %s' % (what, fn.name))
    for cls in ('lesc_security_connection_data', 'security_connection_data'):
        fns = [f for f in facts.functions if f.q.startswith('bluetoe::details::%s::' % cls) and f.kind in ('pattern', 'plain')]
        enter = [f for f in fns if any(c.args() and strip_casts(c.args()[0]).n == 'lesc_pairing_random_exchanged' for c in f.body.calls('state'))]
        if not chk.require(len({(f.file, f.line) for f in enter}) == 1, '%s: expected one function entering lesc_pairing_random_exchanged' % cls):
            continue
        fn = enter[0]
        clr = [st for tgt, op, val, st in stores(fn.body) if target_name(tgt) == 'remote_dhkey_check_received_' and op == '=' and cval(val) == 0]
        ok = len(clr) >= 1 and not any(fn.guards(st) for st in clr[:1])
        sets = [(f, st) for f in fns for tgt, op, val, st in stores(f.body) if target_name(tgt) == 'remote_dhkey_check_received_' and not (op == '=' and cval(val) == 0)]
        ok2 = len({(f.file, f.line) for f, st in sets}) == 1 and all(f.body.calls('copy') or f.body.calls('copy_n') for f, st in sets)
        chk.instance('stored-ea-is-of-this-pairing', fn, '%s::%s clears remote_dhkey_check_received_; set only together with the stored value' % (cls, fn.name), ok and ok2,
                     '' if ok and ok2 else ('the flag survives a failed pairing: in the next pairing the user\'s confirmation lets the peripheral verify (and answer) the DHKey check stored by the previous attempt, before the central sent one'
                                            if not ok else 'the flag is set apart from storing the received value'), key=cls)

