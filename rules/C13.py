"""C13 Notification requests from interrupt context are never lost (lock/atomic discipline)."""
from .lib.match import *

SELECT = (r'^bluetoe::(notification_queue|details::notification_queue_impl|details::notification_queue_impl_base)::'
          r'|^bluetoe::link_layer::link_layer::(queue_lcap_notification|transmit_pending_l2cap_output|run)$|^bluetoe::server::(notify|indicate|queue_notification|l2cap_output)$'
          r'|^bluetoe::details::l2cap::')
UNITS = lambda u: u in ('w_inst_att', 'w_inst_ll') or u.startswith('t_notification_queue') or u.startswith('t_link_layer_ll_notification')
Q = 'bluetoe::details::notification_queue_impl::'
META = {
    'level': 'effect analysis with a frozen context table: the queue\'s state is written from the any-context producer API (server::notify/indicate -> l2cap_cb_ -> '
             'link_layer::queue_lcap_notification -> queue_notification/queue_indication -> add) and from the link-layer context (l2cap_output -> dequeue -> remove, clear). Every store to a field '
             'written by both sides must be a single atomic read-modify-write (std::atomic field) or lie inside a Radio::lock_guard scope on the producer path. A plain `|=` / `&=` on a shared byte loses '
             'an update for some interleaving, whatever the values. Decides the discipline, not a particular interleaving.',
    'technique': 'static effect / lock-discipline analysis over clang AST facts and a frozen call-context table',
}
PRODUCER = {'queue_notification', 'queue_indication', 'add'}
CONSUMER = {'dequeue_indication_or_confirmation', 'remove', 'clear_indications_and_confirmations'}


def run(chk, facts, tier):
    chk.rule('context-table', 'the producer path exists as frozen: server::notify/indicate call l2cap_cb_, link_layer::queue_lcap_notification calls connection.queue_notification/queue_indication; '
             'server::l2cap_output calls dequeue_indication_or_confirmation', floor=3)
    chk.rule('shared-field-discipline', 'every store to a queue field that is written from the producer side and from the consumer side is atomic or protected by a lock_guard on the producer path', floor=2)
    chk.rule('request-cleared-before-value-read', 'server::l2cap_output calls functions that clear producer-shared queue bits (computed from the queue implementations: stores other than |= to a field the producer writes, transitively) only on paths before the attribute value is read; a clear after the read erases a request made in between', floor=1)
    chk.rule('monotone-updates', 'storage shared with the producer is only changed by single compound updates: |= in the producer (add), &= in the consumer (dequeue/remove), plus whole resets (= 0, fill) on connect/clear; no function stores a value computed from an earlier read', floor=5)
    # context table (anchors)
    for fn in variants(facts, 'bluetoe::link_layer::link_layer::queue_lcap_notification', chk):
        ok = bool(fn.body.calls('queue_notification')) and bool(fn.body.calls('queue_indication'))
        locked = bool(fn.body.find(lambda n: n.k == 'VarDecl' and n.d.get('tn') == 'lock_guard'))
        chk.instance('context-table', fn, 'queue_lcap_notification -> queue_notification/queue_indication (lock_guard: %s)' % locked, ok, '' if ok else 'producer path changed', key='ll producer')
    prod_locked = all(bool(fn.body.find(lambda n: n.k == 'VarDecl' and n.d.get('tn') == 'lock_guard')) for fn in facts.fns('bluetoe::link_layer::link_layer::queue_lcap_notification')) and bool(facts.fns('bluetoe::link_layer::link_layer::queue_lcap_notification'))
    for nm in ('notify', 'indicate'):
        fns = [f for f in facts.fns('bluetoe::server::' + nm) if f.kind == 'pattern']
        chk.require(bool(fns), 'server::%s not found' % nm)
        for fn in fns[:2]:
            ok = any(c.cn == 'l2cap_cb_' or (c.callee() is not None and c.callee().n == 'l2cap_cb_') for c in fn.body.calls()) or bool(fn.body.calls('queue_notification')) or bool(fn.body.calls(nm))
            chk.instance('context-table', fn, 'server::%s -> l2cap_cb_' % nm, ok, '' if ok else 'producer path changed', key='server ' + nm + str(len(fn.params)))
    for fn in variants(facts, 'bluetoe::server::l2cap_output', chk):
        ok = bool(fn.body.calls('dequeue_indication_or_confirmation'))
        chk.instance('context-table', fn, 'server::l2cap_output -> dequeue_indication_or_confirmation', ok, '' if ok else 'consumer path changed', key='consumer')
    # the consumer removes a request before it reads the value and never afterwards
    shared = set()
    qfns = [f for f in facts.functions if (f.q.startswith(Q) or f.q.startswith('bluetoe::notification_queue::') or f.q.startswith('bluetoe::details::notification_queue_impl_base::'))]
    for f in qfns:
        if f.name in PRODUCER:
            for tgt, op, val, st in stores(f.body):
                if target_name(tgt):
                    shared.add(target_name(tgt))
    clearing = set()
    for f in qfns:
        if f.name in PRODUCER or f.name.startswith('notification_queue'):
            continue
        for tgt, op, val, st in stores(f.body):
            if target_name(tgt) in shared and op not in ('|=', 'init'):
                clearing.add(f.name)
    changed = True
    while changed:
        changed = False
        for f in qfns:
            if f.name not in clearing and f.name not in PRODUCER and not f.name.startswith('notification_queue') and any(c.cn in clearing or (c.callee() is not None and not isinstance(c.callee(), str) and c.callee().n in clearing) for c in f.body.calls()):
                clearing.add(f.name)
                changed = True
    chk.require('dequeue_indication_or_confirmation' in clearing and shared, 'no bit-clearing consumer function found in the queue implementations (shared fields: %s)' % sorted(shared))
    for fn in variants(facts, 'bluetoe::server::l2cap_output', chk):
        reads = fn.body.calls('access')
        if not chk.require(len(reads) == 1, 'server::l2cap_output: expected one attribute access (value read), found %d' % len(reads)):
            continue
        rd = reads[0]
        bad = []
        n = 0
        for c in fn.body.calls():
            nm = c.cn or (c.callee().n if c.callee() is not None and not isinstance(c.callee(), str) else None)
            if nm not in clearing:
                continue
            n += 1
            after = (fn.block_of(c) == fn.block_of(rd) and precedes(fn, rd, c)) or (fn.block_of(c) != fn.block_of(rd) and fn.paths_avoiding([x for x in fn.blocks[fn.block_of(rd)].succ if x >= 0], fn.block_of(c), set()))
            if after:
                bad.append(c)
        ok = not bad and n >= 1
        chk.instance('request-cleared-before-value-read', fn, 'queue bits shared with the producer are cleared (%s) only before the value is read: %d call(s)' % (', '.join(sorted(clearing)), n), ok,
                     '' if ok else '%s() at line %d clears request bits after the characteristic value was read: a notify() from interrupt context between the read and this call is erased and the new value never sent' % (
                         (bad[0].cn or bad[0].callee().n) if bad else '?', bad[0].l if bad else 0), node=bad[0] if bad else None, key='consumer-order')
    # who writes which field
    classes = [c for c in facts.cls('bluetoe::details::notification_queue_impl') if c['kind'] == 'pattern']
    chk.require(len(classes) >= 2, 'expected two notification_queue_impl implementations')
    for c in classes:
        single = c['line'] > min(p['line'] for p in classes)
        lo = c['line']
        hi = min([p['line'] for p in classes if p['line'] > lo] + [10 ** 9]) if not single else 10 ** 9
        fields = {f['n']: f for f in c['fields']}
        writers = {}
        for fn in facts.functions:
            if fn.q.startswith(Q) and fn.kind == 'pattern' and lo <= fn.line < hi + 200 and (single == (fn.line > max(p['line'] for p in classes))):
                for tgt, op, val, st in stores(fn.body):
                    nm = target_name(tgt)
                    if nm in fields:
                        writers.setdefault(nm, []).append((fn, op, st))
                for cc in fn.body.calls('fill'):
                    for f in fields:
                        if mentions(cc, f):
                            writers.setdefault(f, []).append((fn, 'fill', cc))
        # transitive: queue_* call add
        def side(fn):
            if fn.name in PRODUCER:
                return 'producer'
            if fn.name in CONSUMER or fn.name == 'notification_queue_impl':
                return 'consumer'
            return '?'
        for f, ws in sorted(writers.items()):
            sides = {side(fn) for fn, op, st in ws}
            if 'producer' not in sides:
                continue
            # monotone discipline: the producer only sets bits (|=), the link layer side only clears bits (&=) or resets everything (= 0 / fill);
            # a plain assignment of a computed value writes back bits that were read earlier and erases a request queued in between
            for fn, op, st in ws:
                if side(fn) == 'producer':
                    ok = op == '|='
                    why = 'the producer does not only add its bit'
                else:
                    reset = op == 'fill' or (op in ('=', 'init') and any(cval(val) == 0 for tgt, o2, val, s2 in stores(fn.body) if s2 is st and val is not None)) or fn.name == 'notification_queue_impl'
                    ok = op == '&=' or reset
                    why = ('%s writes a computed value (%s) to %s: bits read earlier (at()) are written back, so a request added from interrupt context between that read and this store is erased although add() reported it as queued '
                           '- for a whole function body, not one instruction' % (fn.name, st.text()[:60], f))
                chk.instance('monotone-updates', fn, '%s %s in %s (%s implementation)' % (f, op, fn.name, 'single-entry' if single else 'general'), ok, '' if ok else why, node=st,
                             key='%s %s in %s/%s' % (f, op, 'single' if single else 'general', fn.name))
            if not ({'producer', 'consumer'} <= sides):
                continue
            atomic = 'atomic' in fields[f]['t']
            for fn, op, st in ws:
                if side(fn) != 'producer' and not atomic:
                    # consumer-side stores are a problem only together with an unprotected producer; report the producer sites
                    continue
                ok = atomic or prod_locked
                chk.instance('shared-field-discipline', fn, '%s %s in %s (%s implementation)' % (f, op, fn.name, 'single-entry' if single else 'general'), ok,
                             '' if ok else 'field %s : %s is read-modify-written by the any-context producer (%s) and by the link layer consumer (%s) without atomics or a lock: a request or a removal can be lost' % (
                                 f, fields[f]['t'][:40], fn.name, ', '.join(sorted({w[0].name for w in ws if side(w[0]) == 'consumer'}))), node=st,
                             key='%s %s in %s/%s' % (f, op, 'single' if single else 'general', fn.name))
