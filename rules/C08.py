"""C08 ATT MTU negotiation bounds every PDU."""
from .lib.match import *

UNITS = lambda u: u in ('w_inst_att',) or u.startswith('t_att') or u.startswith('t_server')
SELECT = r'^bluetoe::server::(l2cap_input|l2cap_output|handle_exchange_mtu_request)$|^bluetoe::server::connection_data::'

ALSO = [('C01', ('output-write-bounded', 'range-writer-bounded'))]   # clauses of this property that another module's rules decide: run here as well


def find_clip(fn):
    """`out_size = min(out_size, <conn>.negotiated_mtu())` -> store node or None"""
    for tgt, op, val, st in stores(fn.body):
        if op != '=' or not is_name(tgt, 'out_size') or val is None:
            continue
        v = strip_casts(val)
        if not v.is_call('min'):
            continue
        args = [strip_casts(x) for x in v.args()]
        if len(args) != 2:
            continue
        if any(is_name(x, 'out_size') for x in args) and any(x.is_call('negotiated_mtu') for x in args):
            return st
    return None


def run(chk, facts, tier):
    chk.rule('mtu-clip', 'server::l2cap_input and server::l2cap_output assign out_size = min(out_size, connection.negotiated_mtu()) '
             'on the connection parameter, and that store dominates and precedes every other use of out_size/output', floor=2)
    chk.rule('client-mtu-guard', 'every call of the client_mtu(mtu) setter in the server is control dependent on in_size == 3 and mtu >= 23 '
             'with mtu read from input+1', floor=1)
    chk.rule('client-mtu-writers', 'client_mtu_ is stored only by the constructor and connection_data::client_mtu(mtu)', floor=1)
    chk.rule('negotiated-min', 'negotiated_mtu() returns min(server_mtu(), client_mtu_) and server_mtu() returns maximum_channel_mtu_size', floor=2)

    for name in ('l2cap_input', 'l2cap_output'):
        fns = facts.fns('bluetoe::server::' + name)
        if not chk.require(any(f.kind == 'pattern' for f in fns), 'anchor bluetoe::server::%s (pattern) not found' % name):
            continue
        for fn in fns:
            clip = find_clip(fn)
            if clip is None:
                chk.instance('mtu-clip', fn, name + ': out_size clip', False,
                             'no store out_size = min(out_size, connection.negotiated_mtu()) in %s: PDUs produced here are bounded by the caller\'s buffer, not by the negotiated MTU' % name,
                             key=name + ':clip')
                continue
            # the object of negotiated_mtu() must be the connection parameter
            call = [c for c in clip.calls('negotiated_mtu')][0]
            obj = base_object(call)
            conn_param = fn.params[-1]['n'] if fn.params else None
            ok = obj is not None and is_name(obj, conn_param)
            detail = '' if ok else 'negotiated_mtu() is not called on the connection parameter %r' % conn_param
            if ok:
                cb, cp = fn.node_order(clip)
                for r in fn.body.walk():
                    if r.k in REF_KINDS and r.n in ('out_size', 'output') and r.d.get('local'):
                        if any(a is clip for a in r.ancestors()):
                            continue
                        rb = fn.block_of(r)
                        if rb is None or not fn.reachable(rb):
                            continue
                        if rb == cb:
                            pos = fn.blocks[rb].elems.index(r.i) if r.i in fn.blocks[rb].elems else 10 ** 6
                            if pos < cp:
                                ok = False
                                detail = '%s used at line %d before the clip' % (r.n, r.l)
                        elif not fn.dominates(cb, rb):
                            ok = False
                            detail = '%s used at line %d on a path that bypasses the clip' % (r.n, r.l)
            chk.instance('mtu-clip', fn, name + ': out_size clip', ok, detail, node=clip, key=name + ':clip')

    fns = facts.fns('bluetoe::server::handle_exchange_mtu_request')
    chk.require(any(f.kind == 'pattern' for f in fns), 'anchor server::handle_exchange_mtu_request not found')
    for fn in fns:
        setters = [c for c in fn.body.calls('client_mtu') if len(c.args()) == 1]
        if not setters:
            chk.instance('client-mtu-guard', fn, 'client_mtu(mtu)', False, 'the exchange handler never stores the client MTU', key='client_mtu(mtu)')
        for c in setters:
            ats = guard_atoms(fn, c)
            arg = strip_casts(c.args()[0])
            size_ok = has_atom(ats, lambda n: is_name(n, 'in_size'), {'=='}, lambda o: cval(o) == 3)
            lb = lower_bound(ats, lambda n: same_expr(n, arg))
            val_ok = lb is not None and lb >= 23
            # provenance of the argument
            prov_ok = False
            if arg.k in REF_KINDS:
                for d in fn.body.find(lambda n: n.k == 'VarDecl' and n.n == arg.n):
                    if d.c and strip_casts(d.c[0]).is_call('read_16bit'):
                        a0 = strip_casts(strip_casts(d.c[0]).args()[0])
                        prov_ok = a0.k == 'BinaryOperator' and a0.o == '+' and is_name(a0.c[0], 'input') and cval(a0.c[1]) == 1
            # "the last valid client MTU": every valid request takes effect - no further condition on the store
            extra = [(l, op, r) for l, op, r in ats if not isinstance(l, int) and not (is_name(l, 'in_size') or same_expr(l, arg) or mentions(l, 'in_size') or (arg.n and mentions(l, arg.n)))]
            ok = size_ok and val_ok and prov_ok
            if ok and extra:
                chk.instance('client-mtu-guard', fn, 'client_mtu(%s) for every valid request' % arg.text(), False,
                             'a valid Exchange MTU Request changes the MTU only if also `%s %s %s`: the MTU in use is then not the minimum of the server maximum and the last valid client MTU' % (
                                 extra[0][0].text()[:50], extra[0][1], extra[0][2] if isinstance(extra[0][2], int) else extra[0][2].text()[:20]), node=c, key='client_mtu(mtu) exact')
            elif ok:
                chk.instance('client-mtu-guard', fn, 'client_mtu(%s) for every valid request' % arg.text(), True, '', node=c, key='client_mtu(mtu) exact')
            chk.instance('client-mtu-guard', fn, 'client_mtu(%s)' % arg.text(), ok,
                         '' if ok else 'in_size==3 guard: %s, value >= 23 guard: %s (lower bound %s), value read from input+1: %s' % (size_ok, val_ok, lb, prov_ok),
                         node=c, key='client_mtu(mtu)')

    # who stores client_mtu_
    n_w = 0
    for fn in facts.functions:
        for tgt, op, val, st in stores(fn.body):
            if target_name(tgt) == 'client_mtu_':
                n_w += 1
                ok = fn.q == 'bluetoe::server::connection_data::client_mtu' and len(fn.params) == 1 and is_name(val, fn.params[0]['n']) and op == '='
                chk.instance('client-mtu-writers', fn, 'client_mtu_ %s %s' % (op, val.text() if val is not None else ''), ok,
                             '' if ok else 'unexpected writer of client_mtu_', node=st, key='store client_mtu_ in ' + fn.name)
    # callers of the setter inside the server
    for fn in facts.functions:
        if fn.q.startswith('bluetoe::server::') and fn.name not in ('handle_exchange_mtu_request', 'client_mtu'):
            for c in fn.body.calls('client_mtu'):
                if len(c.args()) == 1:
                    chk.instance('client-mtu-writers', fn, 'client_mtu(..) call', False, 'client MTU set outside the Exchange MTU handler', node=c, key='call client_mtu in ' + fn.name)

    for fn in facts.fns('bluetoe::server::connection_data::negotiated_mtu'):
        rets = fn.returns()
        ok = False
        if len(rets) == 1 and rets[0].c:
            v = strip_casts(rets[0].c[0])
            if v.is_call('min') and len(v.args()) == 2:
                a = [strip_casts(x) for x in v.args()]
                ok = any(x.is_call('server_mtu') for x in a) and any(is_name(x, 'client_mtu_') for x in a)
        chk.instance('negotiated-min', fn, 'return min(server_mtu(), client_mtu_)', ok, '' if ok else 'negotiated_mtu() is not the minimum of server and client MTU: ' + (rets[0].text() if rets else ''), key='negotiated_mtu')
    for fn in facts.fns('bluetoe::server::connection_data::server_mtu'):
        rets = fn.returns()
        ok = len(rets) == 1 and rets[0].c and (is_name(rets[0].c[0], 'maximum_channel_mtu_size') or (fn.kind != 'pattern' and rets[0].c[0].v is not None))
        chk.instance('negotiated-min', fn, 'return maximum_channel_mtu_size', bool(ok), '' if ok else 'server_mtu() does not return the configured maximum', key='server_mtu')
