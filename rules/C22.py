"""C22 Connection event timing and supervision follow the connection parameters (validation structure only)."""
from .lib.match import *

SELECT = r'^bluetoe::link_layer::delta_time::ppm$|^bluetoe::link_layer::link_layer::(sleep_clock_accuracy|check_timing_paremeters|parse_timing_parameters_from_connect_request|parse_timing_parameters_from_connection_update_request|adv_received|timeout|setup_next_connection_event|handle_pending_ll_control)$'
UNITS = lambda u: u in ('w_inst_ll', 'lib_delta_time') or u.startswith('t_link_layer_ll_connecting') or u.startswith('t_link_layer_ll_connection')
ALSO = [('C21', ('no-pullback-while-update-applied',)), ('C23', ('reschedule-once',))]   # a pulled-back event keeps the timing of the connection: decided by C21's and C23's rules, run here as well
LL = 'bluetoe::link_layer::link_layer::'
META = {
    'level': 'validation structure: every timing field parsed from a CONNECT_IND / LL_CONNECTION_UPDATE_IND has a lower and an upper bound in check_timing_paremeters (spec/ll_timing.json); '
             'the connecting / connection-changed states are entered only on the true result of the validation (and of the channel map validation); supervision disconnect is the else branch of '
             'the comparison with the supervision timeout (six-interval rule while connecting); the receive window is widened on both sides by ppm(cumulated accuracy) of the elapsed time and the accuracy is '
             'the sum of both devices. Arithmetic of the window and rounding in ppm() are not decided.',
    'technique': 'static bound-coverage / guarded-by / store-shape rules over clang AST/CFG facts',
}
FIELDS = ('transmit_window_size_', 'connection_interval_', 'peripheral_latency_', 'connection_timeout_')


def run(chk, facts, tier):
    chk.rule('timing-field-bounds', 'check_timing_paremeters bounds every parsed timing field from below and from above (peripheral latency: unsigned, upper bound only)', floor=5)
    chk.rule('fields-parsed', 'both parse functions store all timing fields from the PDU body before validating, and return the validation result', floor=2)
    chk.rule('enter-only-if-valid', 'state_ = connecting only if channels_.reset(..) && parse_timing_parameters_from_connect_request(..); connection_changed only if the update parameters validate, otherwise disconnect', floor=2)
    chk.rule('supervision', 'timeout(): the next event is planned only while time_since_last_event < connection_timeout_ (and, while connecting, fewer than 6 intervals passed); otherwise force_disconnect()', floor=1)
    chk.rule('window-widening', 'setup_next_connection_event widens start and end by ppm(cumulated_sleep_clock_accuracy_) of the elapsed time; the accuracy is the sum of the central\'s and the own sleep clock accuracy', floor=3)
    chk.rule('ppm-no-narrow-overflow', 'delta_time::ppm: every product is evaluated in 64 bit, or dominating tests bound the operands so that the product fits the operation\'s width', floor=1)
    for fn in variants(facts, 'bluetoe::link_layer::delta_time::ppm', chk):
        muls = [n for n in fn.body.walk() if n.k == 'BinaryOperator' and n.o == '*']
        if not muls:
            chk.instance('ppm-no-narrow-overflow', fn, 'no multiplication', False, 'ppm() no longer scales its argument', key='ppm')
        for n in muls:
            w = n.d.get('w') or 0
            ok = w >= 64
            detail = ''
            if not ok:
                ats = guard_atoms(fn, n)
                ub = 1
                for x in n.c:
                    x = strip_casts(x)
                    b = x.v if x.v is not None else upper_bound(ats, lambda y, x=x: same_expr(y, x))
                    if b is None:
                        b = (1 << (x.d.get('w') or 32)) - 1
                    ub *= b
                ok = ub < (1 << w) if w else False
                detail = 'the product %s is computed in %d bit but can reach %d: the window widening wraps around for long intervals between events' % (n.text()[:50], w, ub)
            chk.instance('ppm-no-narrow-overflow', fn, '%s in %d bit' % (n.text()[:50], w), ok, '' if ok else detail, node=n, key='mul ' + n.text()[:30])
    # the central's announced sleep clock accuracy: table against the specification
    import json as _json, os as _os
    from .lib.facts import VERIF as _V
    sca = _json.load(open(_os.path.join(_V, 'spec', 'll_timing.json')))['sca_ppm_upper']['values']
    for fn in variants(facts, LL + 'sleep_clock_accuracy', chk):
        body = fn.params[0]['n']
        tabs = [d for d in fn.body.find(lambda n: n.k == 'VarDecl') if d.c and [x for x in d.c[0].walk() if x.k == 'IntegerLiteral']]
        r = fn.returns()
        v = strip_casts(ret_value(r[0])) if len(r) == 1 else None
        ok_idx = False
        vals = None
        if v is not None and v.k == 'ArraySubscriptExpr' and len(tabs) == 1 and is_name(v.c[0], tabs[0].n):
            vals = [x.v for x in tabs[0].c[0].walk() if x.k == 'IntegerLiteral']
            i = strip_casts(v.c[1])
            b = as_binop(i)
            if b and b[0] == '&' and cval(b[2]) == 7:
                sh = as_binop(b[1])
                ok_idx = bool(sh) and sh[0] == '>>' and cval(sh[2]) == 5 and strip_casts(sh[1]).k == 'ArraySubscriptExpr' and is_name(strip_casts(sh[1]).c[0], body) and cval(strip_casts(sh[1]).c[1]) == 33
        chk.require(vals is not None, 'sleep_clock_accuracy: return table[ index ] with a constant table not recognised')
        if vals is None:
            continue
        low = [(i, a, b) for i, (a, b) in enumerate(zip(vals, sca)) if a < b] if len(vals) == 8 else [(-1, len(vals), 8)]
        ok = ok_idx and not low
        chk.instance('window-widening', fn, 'SCA table %s indexed by (body[33] >> 5) & 7' % vals, ok,
                     '' if ok else ('the SCA field is not taken from bits 5..7 of body[33]' if not ok_idx else
                                    'SCA %d is taken as %d ppm, the specification allows the central up to %d ppm: the receive window is narrower than the combined accuracy requires, the central\'s packet can fall outside of it' % low[0]),
                     key='sca table')
    for fn in variants(facts, LL + 'check_timing_paremeters', chk):
        rets = fn.returns()
        if not chk.require(len(rets) == 1, 'check_timing_paremeters left single-conjunction form'):
            continue
        ats = atoms(ret_value(rets[0]), True)
        for f in FIELDS:
            const_side = lambda o: isinstance(o, int) or not any(mentions(o, g) for g in FIELDS)
            lo = any(op in ('>=', '>') and const_side(o) for s, op, o in norm_atoms(ats, lambda n: is_name(n, f)))
            hi = any(op in ('<=', '<') and const_side(o) for s, op, o in norm_atoms(ats, lambda n: is_name(n, f)))
            if f == 'peripheral_latency_':
                ok, need = hi, 'upper'
            elif f == 'transmit_window_size_':
                ok, need = hi, 'upper'
            else:
                ok, need = lo and hi, 'lower and upper'
            chk.instance('timing-field-bounds', fn, '%s: lower bound %s, upper bound %s' % (f, lo, hi), ok,
                         '' if ok else '%s is accepted without a %s bound: a CONNECT_IND / update with an out-of-range value (e.g. interval 0) establishes a connection' % (f, need), key=f)
        # relational bound: supervision timeout >= (1 + latency) * interval * 2, without rounding
        def factors(n):
            n = strip_casts(n)
            b = as_binop(n)
            if b and b[0] == '*':
                return factors(b[1]) + factors(b[2])
            return [n]
        rel = False
        for s2, op, o in norm_atoms(ats, lambda n: is_name(n, 'connection_timeout_')):
            if op in ('>=',) and not isinstance(o, int) and mentions(o, 'peripheral_latency_') and mentions(o, 'connection_interval_'):
                fs = factors(o)
                lat = [f for f in fs if as_binop(f) is not None and as_binop(f)[0] == '+' and is_name(as_binop(f)[1], 'peripheral_latency_') and cval(as_binop(f)[2]) == 1]
                two = [f for f in fs if cval(f) == 2]
                itv = [f for f in fs if is_name(f, 'connection_interval_')]
                rel = len(fs) == 3 and len(lat) == 1 and len(two) == 1 and len(itv) == 1
        chk.instance('timing-field-bounds', fn, 'connection_timeout_ >= ( peripheral_latency_ + 1 ) * 2 * connection_interval_ (exact, in delta_time)', rel,
                     '' if rel else 'the supervision timeout is not compared with (1 + latency) * interval * 2 in exact arithmetic (no such conjunct on connection_timeout_, or a rounded / divided form): parameters whose timeout lies just below the required minimum establish a connection', key='timeout vs latency')
    for name in ('parse_timing_parameters_from_connect_request', 'parse_timing_parameters_from_connection_update_request'):
        for fn in variants(facts, LL + name, chk):
            stored = {target_name(tgt) for tgt, op, val, st in stores(fn.body)}
            rets = fn.returns()
            # every return is the validation result, or a literal false (an earlier test failed)
            kinds = ['check' if any(c.cn == 'check_timing_paremeters' for c in deep_calls(r)) else ('false' if ret_value(r) is not None and cval(ret_value(r)) == 0 else '?') for r in rets]
            ok = set(FIELDS) <= stored and 'check' in kinds and '?' not in kinds
            chk.instance('fields-parsed', fn, name, ok, '' if ok else 'missing field store or validation result not returned', key=name)
    for fn in variants(facts, LL + 'adv_received', chk):
        st = [s for tgt, op, val, s in stores(fn.body) if is_name(tgt, 'state_') and strip_casts(val).n == 'connecting']
        ok = len(st) == 1
        if ok:
            ats = guard_atoms(fn, st[0])
            g1 = any(op == '!=' and cval(r) == 0 and not isinstance(l, int) and strip_casts(l).is_call('reset') for l, op, r in ats)
            g2 = any(op == '!=' and cval(r) == 0 and not isinstance(l, int) and strip_casts(l).is_call('parse_timing_parameters_from_connect_request') for l, op, r in ats)
            ok = g1 and g2
        chk.instance('enter-only-if-valid', fn, 'state_ = connecting', ok, '' if ok else 'a connection is entered without validated channel map / timing parameters', key='connecting')
        acc = [val for tgt, op, val, s in stores(fn.body) if is_name(tgt, 'cumulated_sleep_clock_accuracy_')]
        ok = len(acc) == 1 and as_binop(acc[0]) is not None and as_binop(acc[0])[0] == '+' and any(c.cn == 'sleep_clock_accuracy' for c in acc[0].calls()) and mentions(acc[0], 'accuracy_ppm')
        chk.instance('window-widening', fn, 'cumulated accuracy = central + own', ok, '' if ok else 'combined sleep clock accuracy is not the sum of both sides', key='accuracy')
    for fn in variants(facts, LL + 'handle_pending_ll_control', chk):
        cc = fn.body.calls('connection_changed')
        ok = len(cc) == 1 and any(op == '!=' and cval(r) == 0 and not isinstance(l, int) and strip_casts(l).is_call('parse_timing_parameters_from_connection_update_request') for l, op, r in guard_atoms(fn, cc[0]))
        dis = [s for tgt, op, val, s in stores(fn.body) if is_name(tgt, 'result') and strip_casts(val).n == 'disconnect' and
               any(op2 == '==' and cval(r) == 0 and not isinstance(l, int) and strip_casts(l).is_call('parse_timing_parameters_from_connection_update_request') for l, op2, r in guard_atoms(fn, s))]
        ok = ok and len(dis) == 1
        chk.instance('enter-only-if-valid', fn, 'connection update applied only if valid, else disconnect', ok, '' if ok else 'invalid update parameters are applied', key='update')
    for fn in variants(facts, LL + 'timeout', chk):
        plan = fn.body.calls('plan_next_connection_event_after_timeout')
        ok = len(plan) == 1
        if ok:
            ifs = [(i, br) for i, br in enclosing_ifs(plan[0])]
            conds = [i.child('cond') for i, br in ifs if br == 'then']
            g = any(any(op == '<' and is_name(l, 'time_since_last_event') and not isinstance(r, int) and is_name(r, 'connection_timeout_') for l, op, r in atoms(c, True)) for c in conds)
            six = any(mentions(c, 'num_windows_til_timeout') and mentions(c, 'connecting') for c in conds)
            fd = [c for c in fn.body.calls('force_disconnect') if not c.args()]
            # the final else of the chain must disconnect
            chain_else = [i.child('else') for i, br in ifs if br == 'then' and i.child('else') is not None]
            ok = g and six and len(fd) >= 2 and any(e.calls('force_disconnect') for e in chain_else)
        chk.instance('supervision', fn, 'plan next event iff time_since_last_event < connection_timeout_ (and < 6 intervals while connecting)', ok, '' if ok else 'supervision timeout comparison missing', key='supervision')
    for fn in variants(facts, LL + 'setup_next_connection_event', chk):
        ppm = [c for c in fn.body.calls('ppm')]
        ok = len(ppm) >= 2 and all(is_name(c.args()[0], 'cumulated_sleep_clock_accuracy_') for c in ppm)
        subs = [st for tgt, op, val, st in stores(fn.body) if is_name(tgt, 'window_start') and (op == '-=' or (val is not None and as_binop(val) is not None and as_binop(val)[0] == '-'))]
        adds = [st for tgt, op, val, st in stores(fn.body) if is_name(tgt, 'window_end') and (op == '+=' or (val is not None and as_binop(val) is not None and as_binop(val)[0] == '+'))]
        sched = fn.body.calls('schedule_connection_event')
        ok = ok and len(subs) >= 2 and len(adds) >= 2 and len(sched) == 1 and is_name(sched[0].args()[1], 'window_start') and is_name(sched[0].args()[2], 'window_end')
        chk.instance('window-widening', fn, 'window_start -= ppm(..), window_end += ppm(..) in both cases', ok, '' if ok else 'receive window is not widened by the clock accuracy on both sides', key='window')
