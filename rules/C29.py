"""C29 Connection lifecycle is reported completely and in order (loss discipline + ordering guards)."""
from .lib.match import *

SELECT = r'^bluetoe::link_layer::connection_callbacks::|^bluetoe::link_layer::link_layer::(adv_received|end_event|timeout|force_disconnect|handle_pending_ll_control)$'
UNITS = lambda u: u in ('w_inst_ll',) or u.startswith('t_link_layer_connection_callbacks') or u.startswith('t_link_layer_ll_connecting')
CC = 'bluetoe::link_layer::connection_callbacks::'
LL = 'bluetoe::link_layer::link_layer::'
ALSO = [('C30', ('full-empty-test', 'publish', 'data-before-publish'))]   # the event FIFO is details::ring: an event is lost or reordered if the ring's full / empty tests or publication are wrong - decided by C30's rules, run here as well
META = {
    'level': 'return-value discipline: the result of the bounded event ring\'s try_push must be consumed at every producer (a dropped result means a burst of more than max_events events '
             'between two handle_connection_events calls silently loses events, possibly `closed`); exhaustiveness: every event kind has exactly one producer and one dispatch branch calling the matching '
             'user callback; ordering guards in the link layer: requested on the transition to connecting, established only from connecting, closed versus attempt-timeout selected by the state, '
             'and the queued events are delivered at the end of every link layer callback. Exactly-once over histories is not decided.',
    'technique': 'static return-value discipline + exhaustiveness + guarded-by rules over clang AST/CFG facts',
}
PRODUCERS = {'connection_requested': 'requested', 'connection_established': 'established', 'connection_attempt_timeout': 'attempt_timeout', 'connection_changed': 'changed',
             'connection_closed': 'closed', 'procedure_rejected': 'rejected', 'procedure_unknown': 'unknown', 'version_indication_received': 'version',
             'remote_features_received': 'remote_features', 'phy_update': 'update_phy'}
CALLBACK = {'requested': 'call_ll_connection_requested', 'attempt_timeout': 'call_ll_connection_attempt_timeout', 'established': 'call_ll_connection_established',
            'changed': 'call_ll_connection_changed', 'closed': 'call_ll_connection_closed', 'version': 'call_ll_version', 'rejected': 'call_ll_rejected',
            'unknown': 'call_ll_unknown', 'remote_features': 'call_ll_remote_features', 'update_phy': 'call_ll_phy_updated'}


def run(chk, facts, tier):
    chk.rule('single-event-fifo', 'all connection events (lifecycle and procedure results) travel through one ring: every try_push / try_pop inside connection_callbacks names the same member, so the application '
             'sees them in the order they happened (no callback after connection_closed)', floor=1)
    chk.rule('events-drained', 'handle_connection_events pops until the ring is empty: the loop condition is the try_pop call alone (no budget, no other test), so every queued event - including connection_closed - is delivered at the end of the connection event that queued it', floor=1)
    for fn in variants(facts, 'bluetoe::link_layer::connection_callbacks::handle_connection_events', chk):
        loops = [n for n in fn.body.walk() if n.k in ('WhileStmt', 'ForStmt', 'DoStmt') and any(c.cn == 'try_pop' for c in (n.child('cond').calls() if n.child('cond') is not None else []))]
        # every pop site hands its event to the dispatch: the popped variable is the one whose event_type_ selects the call_ll_* callbacks in the body of that very loop
        pops = fn.body.calls('try_pop')
        lost = []
        for pc in pops:
            var = strip_casts(pc.args()[0]).n if pc.args() else None
            lp = next((l for l in loops if any(x is pc for x in l.child('cond').calls())), None)
            body = lp.child('body') if lp is not None else None
            dispatched = body is not None and var is not None and any(cc.cn and cc.cn.startswith('call_ll_') and mentions(cc, var) for cc in body.calls())
            if not dispatched:
                lost.append((pc, var))
        if pops and len(loops) >= 1:
            chk.instance('events-drained', fn, '%d pop site(s), each popped event dispatched in the body of its loop' % len(pops), not lost,
                         '' if not lost else 'the event popped into `%s` at line %d is not handed to any callback: it is consumed and lost (e.g. connection_closed following a connection_changed)' % (lost[0][1], lost[0][0].l),
                         node=lost[0][0] if lost else None, key='dispatched')
        if lost:
            continue
        if not chk.require(len(loops) == 1, 'handle_connection_events: the loop around events_.try_pop() was not found (idiom not recognised)'):
            continue
        c = strip_casts(loops[0].child('cond'))
        ok = c.is_call('try_pop')
        chk.instance('events-drained', fn, 'while ( events_.try_pop( data ) )', ok, '' if ok else 'the loop stops under (%s) before the ring is empty: events queued in this connection event (connection_closed after a burst) are delivered at the next connection event, or never' % c.text()[:70], node=loops[0], key='drain loop')
    rings = {}
    for fn in facts.functions:
        if fn.kind == 'pattern' and fn.q.startswith('bluetoe::link_layer::connection_callbacks::'):
            for c in fn.body.calls('try_push') + fn.body.calls('try_pop'):
                o = base_object(c)
                rings.setdefault(strip_casts(o).n if o is not None else '?', []).append((fn, c))
    if chk.require(bool(rings), 'connection_callbacks: no try_push / try_pop found'):
        main = max(rings, key=lambda k: len(rings[k]))
        others = sorted(k for k in rings if k != main)
        fn0, c0 = rings[others[0]][0] if others else rings[main][0]
        chk.instance('single-event-fifo', fn0, '%d push/pop sites on %s' % (len(rings[main]), main), not others,
                     '' if not others else 'events are also queued in %s (%s): the order between the queues is lost - an event pushed before connection_closed can be delivered after it' % (', '.join(others), fn0.name), node=c0, key='rings')
    chk.rule('push-result-used', 'the result of events_.try_push() is consumed at every producer of connection_callbacks (a full ring must not lose a lifecycle event silently)', floor=10)
    chk.rule('event-kinds-exhaustive', 'each event_type_t enumerator is pushed by exactly one producer with its own tag and dispatched by one branch of handle_connection_events to the matching callback', floor=10)
    chk.rule('lifecycle-order', 'link layer: requested is reported on the transition to connecting, established only when state_ == connecting, closed (state_ != connecting) versus attempt timeout, '
             'and handle_connection_events() ends adv_received / timeout / end_event', floor=5)
    tags = {}
    for name, tag in PRODUCERS.items():
        for fn in variants(facts, CC + name, chk):
            pushes = member_calls(fn.body, 'events_', 'try_push')
            if not pushes:
                chk.instance('push-result-used', fn, name, False, 'producer does not push an event', key=name)
                continue
            for c in pushes:
                p = c.parent
                used = p is not None and p.k not in ('CompoundStmt',) and not (p.k in ('CXXStaticCastExpr', 'CStyleCastExpr') and (p.t or '').strip() == 'void')
                chk.instance('push-result-used', fn, '%s: events_.try_push(..) result %s' % (name, 'used' if used else 'dropped'), used,
                             '' if used else 'when more than max_events events are produced before handle_connection_events() runs, this `%s` event is lost without any trace' % tag, node=c, key=name)
            got = {n.n for n in fn.body.walk() if n.k in REF_KINDS and n.n in CALLBACK}
            ok = got == {tag}
            chk.instance('event-kinds-exhaustive', fn, '%s pushes {%s}' % (name, ','.join(sorted(got))), ok, '' if ok else 'expected tag ' + tag, key='tag ' + name)
    for fn in variants(facts, CC + 'handle_connection_events', chk):
        seen = {}
        for c in fn.body.calls():
            if c.cn and c.cn.startswith('call_ll_'):
                ats = guard_atoms(fn, c)
                t = [strip_casts(o).n for s, op, o in norm_atoms(ats, lambda n: n.n == 'event_type_') if op == '==' and not isinstance(o, int)]
                seen[c.cn] = t[-1] if t else None
        for tag, cb in CALLBACK.items():
            ok = seen.get(cb) == tag
            chk.instance('event-kinds-exhaustive', fn, 'event %s -> %s' % (tag, cb), ok, '' if ok else 'dispatch branch missing or wrong (guard: %s)' % seen.get(cb), key='dispatch ' + tag)
        loop = fn.body.find(lambda n: n.k == 'WhileStmt')
        ok = bool(loop) and any(c.cn == 'try_pop' for c in loop[0].child('cond').calls())
        chk.instance('event-kinds-exhaustive', fn, 'while (events_.try_pop(data))', ok, '' if ok else 'events are not drained', key='drain')
    # ordering in the link layer
    for fn in variants(facts, LL + 'adv_received', chk):
        cr = fn.body.calls('connection_requested')
        st = [s for tgt, op, val, s in stores(fn.body) if is_name(tgt, 'state_') and strip_casts(val).n == 'connecting']
        ok = len(cr) == 1 and len(st) == 1 and precedes(fn, st[0], cr[0]) and fn.block_of(st[0]) == fn.block_of(cr[0])
        chk.instance('lifecycle-order', fn, 'state_ = connecting ... connection_requested()', ok, '' if ok else 'requested must be reported exactly on the transition to connecting', key='requested')
    for fn in variants(facts, LL + 'end_event', chk):
        ce = fn.body.calls('connection_established')
        ok = len(ce) == 1 and any(op == '==' and is_name(l, 'state_') and not isinstance(r, int) and strip_casts(r).n == 'connecting' for l, op, r in guard_atoms(fn, ce[0]))
        st = [s for tgt, op, val, s in stores(fn.body) if is_name(tgt, 'state_') and strip_casts(val).n == 'connected']
        if ok and len(st) == 1:
            sb, cb = fn.block_of(st[0]), fn.block_of(ce[0])
            ok = sb != cb and not fn.paths_avoiding([x for x in fn.blocks[sb].succ if x >= 0], cb, set())
        else:
            ok = False
        chk.instance('lifecycle-order', fn, 'connection_established() only when state_ == connecting, before state_ = connected', ok, '' if ok else 'established may be reported twice or for a connection never requested', key='established')
    for fn in facts.fns(LL + 'force_disconnect'):
        if fn.params:
            continue
        cc = fn.body.calls('connection_closed')
        ct = fn.body.calls('connection_attempt_timeout')
        ok = len(cc) == 1 and len(ct) == 1
        if ok:
            g1 = any(op == '!=' and is_name(l, 'state_') and not isinstance(r, int) and strip_casts(r).n == 'connecting' for l, op, r in guard_atoms(fn, cc[0]))
            g2 = any(op == '==' and is_name(l, 'state_') and not isinstance(r, int) and strip_casts(r).n == 'connecting' for l, op, r in guard_atoms(fn, ct[0]))
            ok = g1 and g2 and is_name(cc[0].args()[0], 'disconnecting_reason_')
        chk.instance('lifecycle-order', fn, 'closed(reason) iff state_ != connecting else attempt_timeout', ok, '' if ok else 'closed/attempt-timeout selection broken', key='closed')
    for name in ('adv_received', 'timeout', 'end_event'):
        for fn in facts.fns(LL + name):
            h = fn.body.calls('handle_connection_events')
            last = h[-1] if h else None
            ok = last is not None
            if ok and name != 'adv_received':
                ok = not fn.guards(last)
            if ok:
                # nothing that produces events after the delivery
                later = [c for c in fn.body.calls() if c.cn in PRODUCERS and c.l > last.l]
                ok = not later
            chk.instance('lifecycle-order', fn, name + ' ends with handle_connection_events()', ok, '' if ok else 'queued lifecycle events are not delivered at the end of ' + name, key='deliver ' + name)
