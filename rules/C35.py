"""C35 Reported pairing status reflects the authentication actually performed."""
from .lib.match import *
from .lib.dlist import fold
from .sm_common import *

SELECT = SELECT_SM + r'|^bluetoe::(pairing_no_output|pairing_numeric_output)::select_lesc'
UNITS = UNITS_SM
META = {
    'level': 'status-table extraction for the three connection-data classes (no key unless pairing completed; unauthenticated exactly for just_works) plus protocol exhaustiveness: '
             'every pairing algorithm that is mapped to authenticated_key must have a distinguishing branch in the handlers that run the exchange (otherwise the Just Works exchange '
             'is reported as authenticated). Does not decide cryptographic values.',
    'technique': 'static decision-table extraction + exhaustiveness rule over clang AST/CFG facts',
}


def auth_mapping(v):
    """`algo == X ? A : B` with A/B in {authenticated_key, unauthenticated_key} -> (X, status for X, status otherwise); None when of another shape"""
    v = strip_casts(v)
    if v is None or v.k != 'ConditionalOperator':
        return None
    c = atoms(v.c[0], True)
    xs = [strip_casts(r).n for l, op, r in c if op == '==' and not isinstance(r, int) and strip_casts(r).k in REF_KINDS and 'algorithm' in strip_casts(l).text()] + \
         [strip_casts(l).n for l, op, r in c if op == '==' and not isinstance(r, int) and strip_casts(l).k in REF_KINDS and 'algorithm' in strip_casts(r).text()]
    a, b = strip_casts(v.c[1]).n, strip_casts(v.c[2]).n
    if len(xs) != 1 or {a, b} != {'authenticated_key', 'unauthenticated_key'}:
        return None
    return xs[0], a, b


def authenticated_set(m, algos):
    x, a, b = m
    return {x} if a == 'authenticated_key' else set(algos) - {x}


def status_of_expr(v):
    return auth_mapping(v) is not None


def run(chk, facts, tier):
    chk.rule('status-table', 'local_device_pairing_status: no_key unless state() == pairing_completed; otherwise unauthenticated_key exactly for just_works and authenticated_key for the authenticated methods', floor=3)
    chk.rule('status-recorded-at-completion', 'security_connection_data records pairing_status_ in legacy/lesc_pairing_completed from the algorithm of the exchange that completed', floor=2)
    chk.rule('completion-waits-for-user', 'every call of lesc_check_dhkey_and_complete_pairing (verifies Ea, records the authenticated key) is excluded while the user is still asked or has refused: '
             'it is control dependent on state() != user_response_wait and != user_response_failed, or on state() == user_response_success', floor=2)
    chk.rule('numeric-comparison-asks-user', 'lesc_handle_pairing_random: the value is displayed and the user asked (sm_pairing_numeric_compare_output, sm_pairing_request_yes_no) under exactly lesc_pairing_algorithm() == numeric_comparison '
             'behind the size and state checks - no further condition: whenever numeric comparison is the method that will be reported as authenticated, the user was asked', floor=2)
    chk.rule('authenticated-methods-implemented', 'every LESC algorithm that is reported as authenticated_key is distinguished by a branch in the LESC handlers (its own exchange is implemented)', floor=2)
    D = 'bluetoe::details::'
    for cls in ('legacy_security_connection_data', 'lesc_security_connection_data', 'security_connection_data'):
        for fn in variants(facts, D + cls + '::local_device_pairing_status', chk):
            rows = []
            for r in fn.returns():
                v = strip_casts(ret_value(r))
                eq, ne = state_eq_atoms(guard_atoms(fn, r))
                cond = 'completed' if 'pairing_completed' in eq else 'not-completed' if 'pairing_completed' in ne else 'any'
                if v.k == 'ConditionalOperator':
                    ce, cn = state_eq_atoms(atoms(v.c[0], True))
                    if 'pairing_completed' in ce:
                        rows.append(('completed', strip_casts(v.c[1]).n))
                        rows.append(('not-completed', strip_casts(v.c[2]).n))
                    elif status_of_expr(v):
                        rows.append((cond, 'by-algorithm'))
                    else:
                        rows.append((cond, '?'))
                elif v.k in REF_KINDS and v.n == 'pairing_status_':
                    rows.append((cond, 'recorded'))
                else:
                    rows.append((cond, v.n))
            rows = sorted(set(rows))
            nokey_ok = ('not-completed', 'no_key') in rows
            comp = [x for c, x in rows if c in ('completed', 'any')]
            if cls == 'lesc_security_connection_data':
                ok = nokey_ok and comp in (['by-algorithm'], ['recorded'])
                why = 'a completed LESC pairing is always reported as %s: a numeric comparison confirmed by the user (authenticated) is reported as unauthenticated' % comp
            else:
                ok = nokey_ok and comp in (['by-algorithm'], ['recorded'])
                why = 'status table is %s' % rows
            chk.instance('status-table', fn, '%s: %s' % (cls, rows), ok, '' if ok else why, key=cls)
    for name in ('legacy_pairing_completed', 'lesc_pairing_completed'):
        for fn in variants(facts, D + 'security_connection_data::' + name, chk):
            st = [(val, s) for tgt, op, val, s in stores(fn.body) if target_name(tgt) == 'pairing_status_']
            ok = len(st) == 1 and status_of_expr(st[0][0])
            if ok:
                want = 'legacy_state' if name.startswith('legacy') else 'lesc_state'
                ok = mentions(st[0][0], want) and auth_mapping(st[0][0])[0] in (('just_works',) if name.startswith('legacy') else ('just_works', 'numeric_comparison'))
            chk.instance('status-recorded-at-completion', fn, name, ok, '' if ok else 'status not derived from the algorithm of the completed exchange', key=name)
    # exhaustiveness
    algos = facts.enum('bluetoe::details::lesc_pairing_algorithm') or {}
    chk.require(bool(algos), 'enum lesc_pairing_algorithm not found')
    branched = set()
    selectable = set()
    for fn in facts.functions:
        if fn.q.startswith(SB) and ('lesc_' in fn.name):
            for n in fn.body.walk():
                if n.k == 'BinaryOperator' and n.o in ('==', '!='):
                    for x in n.c:
                        x = strip_casts(x)
                        if x.k in REF_KINDS and x.n in algos and 'lesc_pairing_algorithm' in (x.q or x.t or 'lesc_pairing_algorithm'):
                            branched.add(x.n)
                if n.k == 'CaseStmt':
                    lab = strip_casts(n.child('label'))
                    if lab is not None and lab.n in algos:
                        branched.add(lab.n)
        if fn.name in ('select_lesc_pairing_algorithm', 'lesc_select_pairing_algorithm'):
            for r in fn.returns():
                v = strip_casts(ret_value(r)) if ret_value(r) is not None else None
                if v is not None and v.k in REF_KINDS and v.n in algos:
                    selectable.add(v.n)
    # which algorithms are reported as authenticated (from the status expressions of the LESC paths)
    mapped = set()
    for fn in facts.fns(D + 'security_connection_data::lesc_pairing_completed') + facts.fns(D + 'lesc_security_connection_data::local_device_pairing_status'):
        for n in fn.body.walk():
            m = auth_mapping(n) if n.k == 'ConditionalOperator' else None
            if m is not None and m[0] in algos:
                mapped |= authenticated_set(m, algos)
    chk.require(bool(mapped) or True, 'no status mapping found')
    just_works_auth = 'just_works' in mapped
    chk.obligation('authenticated-methods-implemented', 'status mapping', 'just_works reported authenticated: %s' % just_works_auth, not just_works_auth, 'Just Works must be reported as unauthenticated', key='lesc just_works')
    for a in sorted(algos):
        if a == 'just_works' or a not in selectable:
            continue
        if a not in mapped:
            chk.obligation('authenticated-methods-implemented', 'security_manager_base lesc_* handlers', 'lesc_pairing_algorithm::%s selectable, runs the Just Works exchange, reported unauthenticated' % a, a not in branched or True, '', key='lesc ' + a)
            continue
        ok = a in branched
        chk.obligation('authenticated-methods-implemented', 'security_manager_base lesc_* handlers', 'lesc_pairing_algorithm::%s selectable and reported authenticated; distinguishing branch: %s' % (a, ok), ok,
                       '' if ok else 'the handlers run the same (Just Works) exchange for %s but the completed pairing is reported as authenticated_key' % a, key='lesc ' + a)
    for fn in facts.functions:
        if fn.kind not in ('pattern', 'plain') or not fn.q.startswith('bluetoe::details::security_manager_base::'):
            continue
        for c in fn.body.calls('lesc_check_dhkey_and_complete_pairing'):
            eq, ne = state_eq_atoms(guard_atoms(fn, c))
            ok = 'user_response_success' in eq or 'lesc_pairing_random_exchanged' in eq or {'user_response_wait', 'user_response_failed'} <= ne
            chk.instance('completion-waits-for-user', fn, 'lesc_check_dhkey_and_complete_pairing() in %s under state == %s / != %s' % (fn.name, sorted(eq), sorted(ne)), ok,
                         '' if ok else 'the DHKey check is verified and the pairing completed as authenticated while the numeric comparison / passkey is still waiting for (or was refused by) the user', node=c, key='complete in ' + fn.name)
    for fn in facts.functions:
        if fn.kind not in ('pattern', 'plain') or fn.q != 'bluetoe::details::security_manager_base::lesc_handle_pairing_random':
            continue
        for nm in ('sm_pairing_numeric_compare_output', 'sm_pairing_request_yes_no'):
            cs = fn.body.calls(nm)
            ok, why = len(cs) == 1, 'expected exactly one call'
            if ok:
                alg, other = False, []
                for l, op, r in guard_atoms(fn, cs[0]):
                    if isinstance(l, int):
                        continue
                    x = strip_casts(l)
                    if x.is_call('lesc_pairing_algorithm') and op == '==' and not isinstance(r, int) and strip_casts(r).n == 'numeric_comparison':
                        alg = True
                    elif (x.is_call('state') and not x.args()) or is_name(x, 'in_size') or (x.k == 'DeclRefExpr' and x.d.get('local') and resolve_local(x) is not None):
                        continue
                    else:
                        other.append(l.text()[:60] + ' ' + op)
                ok = alg and not other
                why = 'the user is not asked for every numeric comparison (further condition: %s): the pairing completes and is reported as authenticated although nobody compared the values' % (other or 'method test missing')
            chk.instance('numeric-comparison-asks-user', fn, '%s() under lesc_pairing_algorithm() == numeric_comparison only' % nm, ok, '' if ok else why, node=cs[0] if cs else None, key=nm)

