"""C35 Reported pairing status reflects the authentication actually performed."""
from .lib.match import *
from .lib.dlist import fold
from .sm_common import *

SELECT = SELECT_SM + r'|^bluetoe::(pairing_no_output|pairing_numeric_output)::select_lesc'
UNITS = UNITS_SM
META = {
    'level': 'status-table extraction for the three connection-data classes (no key unless pairing completed; unauthenticated exactly for just_works) plus protocol exhaustiveness: '
             'every pairing algorithm that is mapped to authenticated_key must have a distinguishing branch in the handlers that run the exchange (otherwise the Just Works exchange '
             'is reported as authenticated). Does not decide cryptographic values.',
    'technique': 'static decision-table extraction + exhaustiveness rule over clang AST/CFG facts',
}


def status_of_expr(v):
    """`algo == just_works ? unauthenticated_key : authenticated_key` -> True when of that shape"""
    v = strip_casts(v)
    if v is None or v.k != 'ConditionalOperator':
        return False
    c = atoms(v.c[0], True)
    jw = any(op == '==' and not isinstance(r, int) and (strip_casts(l).n == 'just_works' or strip_casts(r).n == 'just_works') for l, op, r in c)
    return jw and strip_casts(v.c[1]).n == 'unauthenticated_key' and strip_casts(v.c[2]).n == 'authenticated_key'


def run(chk, facts, tier):
    chk.rule('status-table', 'local_device_pairing_status: no_key unless state() == pairing_completed; otherwise unauthenticated_key exactly for just_works and authenticated_key for the authenticated methods', floor=3)
    chk.rule('status-recorded-at-completion', 'security_connection_data records pairing_status_ in legacy/lesc_pairing_completed from the algorithm of the exchange that completed', floor=2)
    chk.rule('authenticated-methods-implemented', 'every LESC algorithm that is reported as authenticated_key is distinguished by a branch in the LESC handlers (its own exchange is implemented)', floor=2)
    D = 'bluetoe::details::'
    for cls in ('legacy_security_connection_data', 'lesc_security_connection_data', 'security_connection_data'):
        for fn in variants(facts, D + cls + '::local_device_pairing_status', chk):
            rows = []
            for r in fn.returns():
                v = strip_casts(ret_value(r))
                eq, ne = state_eq_atoms(guard_atoms(fn, r))
                cond = 'completed' if 'pairing_completed' in eq else 'not-completed' if 'pairing_completed' in ne else 'any'
                if v.k == 'ConditionalOperator':
                    ce, cn = state_eq_atoms(atoms(v.c[0], True))
                    if 'pairing_completed' in ce:
                        rows.append(('completed', strip_casts(v.c[1]).n))
                        rows.append(('not-completed', strip_casts(v.c[2]).n))
                    elif status_of_expr(v):
                        rows.append((cond, 'by-algorithm'))
                    else:
                        rows.append((cond, '?'))
                elif v.k in REF_KINDS and v.n == 'pairing_status_':
                    rows.append((cond, 'recorded'))
                else:
                    rows.append((cond, v.n))
            rows = sorted(set(rows))
            nokey_ok = ('not-completed', 'no_key') in rows
            comp = [x for c, x in rows if c in ('completed', 'any')]
            if cls == 'lesc_security_connection_data':
                ok = nokey_ok and comp in (['by-algorithm'], ['recorded'])
                why = 'a completed LESC pairing is always reported as %s: a numeric comparison confirmed by the user (authenticated) is reported as unauthenticated' % comp
            else:
                ok = nokey_ok and comp in (['by-algorithm'], ['recorded'])
                why = 'status table is %s' % rows
            chk.instance('status-table', fn, '%s: %s' % (cls, rows), ok, '' if ok else why, key=cls)
    for name in ('legacy_pairing_completed', 'lesc_pairing_completed'):
        for fn in variants(facts, D + 'security_connection_data::' + name, chk):
            st = [(val, s) for tgt, op, val, s in stores(fn.body) if target_name(tgt) == 'pairing_status_']
            ok = len(st) == 1 and status_of_expr(st[0][0])
            if ok:
                want = 'legacy_state' if name.startswith('legacy') else 'lesc_state'
                ok = mentions(st[0][0], want)
            chk.instance('status-recorded-at-completion', fn, name, ok, '' if ok else 'status not derived from the algorithm of the completed exchange', key=name)
    # exhaustiveness
    algos = facts.enum('bluetoe::details::lesc_pairing_algorithm') or {}
    chk.require(bool(algos), 'enum lesc_pairing_algorithm not found')
    branched = set()
    selectable = set()
    for fn in facts.functions:
        if fn.q.startswith(SB) and ('lesc_' in fn.name):
            for n in fn.body.walk():
                if n.k == 'BinaryOperator' and n.o in ('==', '!='):
                    for x in n.c:
                        x = strip_casts(x)
                        if x.k in REF_KINDS and x.n in algos and 'lesc_pairing_algorithm' in (x.q or x.t or 'lesc_pairing_algorithm'):
                            branched.add(x.n)
                if n.k == 'CaseStmt':
                    lab = strip_casts(n.child('label'))
                    if lab is not None and lab.n in algos:
                        branched.add(lab.n)
        if fn.name in ('select_lesc_pairing_algorithm', 'lesc_select_pairing_algorithm'):
            for r in fn.returns():
                v = strip_casts(ret_value(r)) if ret_value(r) is not None else None
                if v is not None and v.k in REF_KINDS and v.n in algos:
                    selectable.add(v.n)
    for a in sorted(algos):
        if a == 'just_works' or a not in selectable:
            continue
        ok = a in branched
        chk.obligation('authenticated-methods-implemented', 'security_manager_base lesc_* handlers', 'lesc_pairing_algorithm::%s selectable and reported authenticated; distinguishing branch: %s' % (a, ok), ok,
                       '' if ok else 'the handlers run the same (Just Works) exchange for %s but lesc_pairing_completed reports authenticated_key' % a, key='lesc ' + a)
