"""C39 The bootloader only touches white-listed memory (check-before-use)."""
from .lib.match import *

SELECT = r'^bluetoe::bootloader::details::(controller|flash_buffer)::|^bluetoe::bootloader::white_list::acceptable$'
UNITS = lambda u: u in ('w_inst_svc',) or u.startswith('t_services_bootloader')
CT = 'bluetoe::bootloader::details::controller::'
META = {
    'level': 'check-before-use rules on the bootloader controller (pattern and instantiations with one and two regions): every read_address(value + k) is control dependent on a write_size test that covers the bytes read; '
             'every use of a client-supplied address for checksumming, reading or flashing (public_checksum32, start of the read procedure, flash_buffer::set_start_address from Start Flash and from find_next_buffer) '
             'is control dependent on MemRegions::acceptable / page_acceptable over that address, page_acceptable checks the whole page [addr - addr % PageSize, + PageSize), and a refused request leaves flash mode. '
             'The user handler\'s own behaviour and the checksum chain values are not decided.',
    'technique': 'static guarded-by (check-before-use) rules over clang AST/CFG facts',
}


def run(chk, facts, tier):
    chk.rule('address-read-needs-length', 'every read_address(value + offset) in bootloader_write_control_point is dominated by write_size == 1 + n * sizeof(pointer) covering offset + sizeof(pointer)', floor=5)
    chk.rule('region-check-before-use', 'public_checksum32 / start of Read / set_start_address are reachable only behind acceptable(start, end) (with start <= end) or page_acceptable(address) of the same address', floor=4)
    chk.rule('page-check-covers-page', 'page_acceptable(a) tests MemRegions::acceptable(page_start, page_end) with page_start = a - a % PageSize, page_end = page_start + PageSize and page_start < page_end (when such a helper exists)', floor=0)
    chk.rule('range-inside-one-region', 'white_list<memory_region<Start, End>, Regions...>::acceptable(start, end) is true only if one single region covers the whole range (start >= Start && end <= End) '
             'or the remaining regions accept the same (start, end); the empty list accepts nothing. (A test of the two end points alone lets a range span the gap between two regions.)', floor=2)
    chk.rule('refusal-leaves-flash-mode', 'request_error() clears in_flash_mode and the stored opcode; bootloader_write_data does nothing unless in_flash_mode', floor=2)
    for fn in variants(facts, CT + 'bootloader_write_control_point', chk):
        ops = fn.body.find(lambda n: n.k == 'UnaryOperator' and n.o == '*' and is_name(n.c[0], 'value'))
        for n in ops:
            lb = lower_bound(guard_atoms(fn, n), lambda x: is_name(x, 'write_size'))
            chk.instance('address-read-needs-length', fn, '*value (opcode)', lb is not None and lb >= 1, '' if lb else 'opcode read from an empty write', node=n, key='opcode')
        for c in fn.body.calls('read_address'):
            arg = c.args()[0].text()
            need = 2 if 'sizeof' in arg else 1
            ok = False
            for s, op, o in norm_atoms(guard_atoms(fn, c), lambda x: is_name(x, 'write_size')):
                if op == '==' and not isinstance(o, int):
                    t = strip_casts(o).text()
                    have = 2 if '2 * sizeof' in t else (1 if 'sizeof' in t else 0)
                    if have >= need and t.startswith('(1 +'):
                        ok = True
                elif op == '==' and cval(o) is not None:
                    ok = ok or cval(o) >= 1 + need * 4
            case = [o[1] for cnd, o in fn.guards(c) if isinstance(o, tuple) and o[0] == 'case']
            chk.instance('address-read-needs-length', fn, 'read_address(%s) in case %s' % (arg, case[:1]), ok,
                         '' if ok else 'the address is read from the written value without a test that the value is long enough: bytes behind the control point value are interpreted as an address', node=c, key='%s@case%s' % (arg, case[:1]))
        def checked(node, names):
            ats = guard_atoms(fn, node)
            for l, op, r in ats:
                if op == '!=' and cval(r) == 0 and not isinstance(l, int):
                    x = strip_casts(l)
                    if x.is_call('acceptable') and all(any(is_name(a, nm) for a in x.args()) for nm in names) and len(x.args()) == 2:
                        le = len(names) == 1 or any((o2 == '<=' and is_name(a, names[0]) and is_name(b, names[1])) or (o2 == '>=' and is_name(a, names[1]) and is_name(b, names[0])) for a, o2, b in ats if not isinstance(b, int))
                        if le and not (len(names) == 2 and same_expr(x.args()[0], x.args()[1])):
                            return True
                    if x.is_call('page_acceptable') and len(names) == 1 and is_name(x.args()[0], names[0]):
                        return True
            return False
        for c in fn.body.calls('public_checksum32'):
            ok = checked(c, ['start_address', 'end_address'])
            chk.instance('region-check-before-use', fn, 'public_checksum32(start_address, ..)', ok, '' if ok else 'memory outside the white list can be checksummed', node=c, key='crc')
        for c in fn.body.calls('data_indication_call_back'):
            ok = checked(c, ['start_address', 'end_address'])
            chk.instance('region-check-before-use', fn, 'Read procedure started (data_indication_call_back)', ok, '' if ok else 'memory outside the white list can be read back', node=c, key='read')
        for c in fn.body.calls('set_start_address'):
            ok = checked(c, ['start_address']) and is_name(c.args()[0], 'start_address')
            chk.instance('region-check-before-use', fn, 'set_start_address(start_address) from Start Flash', ok, '' if ok else 'a page that is not entirely white-listed is read and flashed', node=c, key='start flash')
    for fn in variants(facts, CT + 'find_next_buffer', chk):
        p = fn.params[0]['n']
        for c in fn.body.calls('set_start_address'):
            ok = is_name(c.args()[0], p) and any(op == '!=' and cval(r) == 0 and not isinstance(l, int) and strip_casts(l).is_call('page_acceptable') and is_name(strip_casts(l).args()[0], p) for l, op, r in guard_atoms(fn, c))
            chk.instance('region-check-before-use', fn, 'set_start_address(%s) for the following page' % p, ok, '' if ok else 'data that runs past the first page is flashed without a region check', node=c, key='next page')
    from .lib.linear import Lin, lin
    for fn in variants(facts, CT + 'page_acceptable'):
        a = fn.params[0]['n']
        calls = fn.body.calls('acceptable')
        ok = len(calls) == 1 and len(calls[0].args()) == 2
        why = 'page test does not consult the memory regions'
        if ok:
            def resolve(n, depth=0):
                n = strip_casts(n)
                if n.k in REF_KINDS and n.d.get('local') and depth < 4:
                    i = local_init(fn, n.n, optional=True)
                    if i is not None:
                        return resolve(i, depth + 1)
                return n
            s0, e0 = resolve(calls[0].args()[0]), resolve(calls[0].args()[1])
            b = as_binop(s0)
            start_ok = b is not None and b[0] == '-' and is_name(b[1], a) and as_binop(b[2]) is not None and as_binop(b[2])[0] == '%' and is_name(as_binop(b[2])[1], a)
            # end - start must be exactly PageSize (acceptable() takes an exclusive end)
            eb = as_binop(e0)
            size = None
            if eb and eb[0] == '+':
                other = eb[2] if same_expr(resolve(eb[1]), s0) or (strip_casts(eb[1]).k in REF_KINDS and same_expr(resolve(eb[1]), s0)) else None
                if other is not None:
                    size = other
            page = as_binop(b[2])[2] if start_ok else None
            end_ok = size is not None and page is not None and same_expr(size, page)
            ok = start_ok and end_ok
            why = 'the tested range is not exactly the page [a - a %% PageSize, + PageSize): %s .. %s' % (s0.text()[:40], e0.text()[:40])
            if ok:
                r = fn.returns()
                ats = atoms(ret_value(r[0]), True) if len(r) == 1 else []
                ok = any(op == '<' and same_expr(resolve(l), s0) for l, op, rr in ats if not isinstance(rr, int) and not isinstance(l, int))
                why = 'address wrap-around (page_start < page_end) is not excluded'
        chk.instance('page-check-covers-page', fn, 'page_acceptable', bool(ok), '' if ok else why, key='page_acceptable')
    for fn in variants(facts, CT + 'request_error', chk):
        st = {target_name(tgt): val for tgt, op, val, s in stores(fn.body)}
        ok = cval(st.get('in_flash_mode')) == 0 and strip_casts(st.get('opcode')).n == 'undefined_opcode' if 'opcode' in st and 'in_flash_mode' in st else False
        chk.instance('refusal-leaves-flash-mode', fn, 'request_error', ok, '' if ok else 'a refused request keeps flash mode / the previous opcode alive', key='request_error')
    for fn in variants(facts, CT + 'bootloader_write_data', chk):
        wr = fn.body.calls('write_data') + fn.body.calls('find_next_buffer')
        ok = bool(wr) and all(has_atom(guard_atoms(fn, c), lambda n: is_name(n, 'in_flash_mode'), {'!='}, lambda o: cval(o) == 0) for c in wr)
        chk.instance('refusal-leaves-flash-mode', fn, 'data accepted only in flash mode', ok, '' if ok else 'data writes are buffered without a validated Start Flash', key='write_data')
    region_rule(chk, facts)


def region_rule(chk, facts):
    for fn in variants(facts, 'bluetoe::bootloader::white_list::acceptable', chk):
        rets = fn.returns()
        named = [p['n'] for p in fn.params if p['n']]
        if len(named) < 2:
            ok = bool(rets) and all(cval(ret_value(r)) == 0 for r in rets)
            chk.instance('range-inside-one-region', fn, 'empty white list accepts nothing', ok, '' if ok else 'the end of the region list accepts a range', key='empty:%s' % fn.kind)
            continue
        lo, hi = named[0], named[1]
        ok, why = len(rets) == 1, 'expected a single return'
        if ok:
            terms = []
            def disj(n):
                n = deep(n)
                if n.k == 'BinaryOperator' and n.o == '||':
                    disj(n.c[0]); disj(n.c[1])
                else:
                    terms.append(n)
            disj(ret_value(rets[0]))
            own = rec = 0
            for t in terms:
                if t.is_call('acceptable'):
                    a = t.args()
                    if len(a) == 2 and is_name(a[0], lo) and is_name(a[1], hi):
                        rec += 1
                    else:
                        ok, why = False, 'the remaining regions are asked about a different range than (%s, %s)' % (lo, hi)
                    continue
                ats = []
                for l, op, r in atoms(t, True):     # either operand order: `End >= end` reads `end <= End`
                    if not isinstance(r, int) and not isinstance(l, int) and strip_casts(r).n in (lo, hi) and strip_casts(l).n not in (lo, hi):
                        l, op, r = r, SWAP[op], l
                    ats.append((l, op, r))
                a_lo = [(l, op, r) for l, op, r in ats if not isinstance(l, int) and is_name(l, lo) and op in ('>=', '>')]
                a_hi = [(l, op, r) for l, op, r in ats if not isinstance(l, int) and is_name(l, hi) and op in ('<=', '<')]
                if a_lo and a_hi:
                    own += 1
                else:
                    ok, why = False, 'a term accepts the range without testing both %s >= Start and %s <= End against the same region: `%s`' % (lo, hi, t.text()[:80])
            if ok and not (own == 1 and rec == 1):
                ok, why = False, 'expected one own-region term and one recursion over the remaining regions (found %d / %d)' % (own, rec)
        chk.instance('range-inside-one-region', fn, 'range accepted by one region or by the rest of the list', ok, '' if ok else why, key='region:%s' % fn.kind)

