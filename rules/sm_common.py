"""Shared helpers for the security manager rule modules (C32..C35)."""
from .lib.match import *

SB = 'bluetoe::details::security_manager_base::'
SELECT_SM = (r'^bluetoe::details::(security_manager_base|legacy_security_manager_impl|lesc_security_manager_impl|security_manager_impl|'
             r'security_connection_data_base|legacy_security_connection_data|lesc_security_connection_data|security_connection_data)::'
             r'|^bluetoe::bonding_data_base::|^bluetoe::no_bonding_data_base::')
UNITS_SM = lambda u: u in ('w_inst_sm',) or u.startswith('t_security_manager')

STATE_MUTATORS = {'pairing_algorithm', 'legacy_pairing_request', 'pairing_confirm', 'legacy_pairing_completed', 'arm_key_distribution', 'pairing_requested',
                  'public_key_exchanged', 'pairing_random_exchanged', 'lesc_pairing_completed', 'store_lesc_key_in_bond_db', 'passkey', 'pairing_confirm_send'}


def state_eq_atoms(ats):
    """set of sm_pairing_state enumerators X with `state.state() == X` known, and set with `!= X` known"""
    eq, ne = set(), set()
    for l, op, r in ats:
        if isinstance(r, int):
            continue
        for a, b in ((l, r), (r, l)):
            a, b = strip_casts(a), strip_casts(b)
            if a.is_call('state') and not a.args() and b.k in REF_KINDS:
                if op == '==':
                    eq.add(b.n)
                elif op == '!=':
                    ne.add(b.n)
    return eq, ne


def size_eq(ats, param='in_size'):
    for s, op, o in norm_atoms(ats, lambda n: is_name(n, param)):
        if op == '==':
            o2 = strip_casts(o) if not isinstance(o, int) else o
            return cval(o), (o2.n if not isinstance(o2, int) and o2.k in REF_KINDS else None)
    return None, None


def effects(fn, facts=None, depth=1):
    """protocol effects of a handler: mutator calls on the connection state and writes to the output PDU
    (one level of same-class helper functions is followed)"""
    out = []
    if facts is not None and depth > 0 and fn.cls:
        for c in fn.body.calls():
            if c.cn and c.cn != fn.name and not c.cn.startswith('error_response'):
                for g in [x for x in facts.fns(fn.cls + '::' + c.cn) if x.kind in ('pattern', 'plain')][:1]:
                    if effects(g, None, 0):
                        out.append(('%s() [helper with protocol effects]' % c.cn, c))
    state_param = fn.params[-1]['n'] if fn.params else 'state'
    for c in fn.body.calls():
        if (c.cn in STATE_MUTATORS or (c.cn == 'remote_dhkey_check' and c.args())) and is_name(base_object(c), state_param):
            out.append(('state.%s()' % c.cn, c))
        if c.cn in ('copy', 'copy_n') and c.args() and any(mentions(a, 'output') for a in c.args()[-1:]):
            out.append(('copy -> output', c))
    for tgt, op, val, st in stores(fn.body):
        t = strip_casts(tgt)
        if t.k == 'ArraySubscriptExpr' and is_name(t.c[0], 'output'):
            out.append(('output[%s] =' % t.c[1].text(), st))
        elif is_name(t, 'out_size') and cval(val) != 0:
            out.append(('out_size = %s' % (val.text() if val is not None else ''), st))
    return out


def param_sources(facts, fn, pname):
    """argument expressions passed for parameter `pname` at every call site of fn inside its class: list of (caller, arg node)"""
    idx = next((i for i, p in enumerate(fn.params) if p['n'] == pname), None)
    out = []
    if idx is None:
        return out
    for g in facts.functions:
        if g.cls == fn.cls and g.kind == fn.kind:
            for c in g.body.calls(fn.name):
                if len(c.args()) == len(fn.params):
                    out.append((g, strip_casts(c.args()[idx])))
    return out


def ea_verified(facts, fn, node):
    """node executes only after std::equal(calc_ea.., X) held, where calc_ea = f6(..) and X is the DHKey check received from the central:
    input-derived, or a parameter that every call site feeds with &input[1] / the stored copy state.remote_dhkey_check() (which is only written from input)"""
    for l, op, r in guard_atoms(fn, node):
        if op == '!=' and cval(r) == 0 and not isinstance(l, int) and strip_casts(l).is_call('equal'):
            c = strip_casts(l)
            a = [strip_casts(x) for x in c.args()]
            if len(a) != 3 or not (mentions(a[0], 'calc_ea') and mentions(a[1], 'calc_ea')):
                continue
            init = local_init(fn, 'calc_ea')
            if init is None or not init.is_call('f6'):
                continue
            x = a[2]
            if mentions(x, 'input'):
                return True
            if x.k in REF_KINDS and x.n in {p['n'] for p in fn.params}:
                srcs = param_sources(facts, fn, x.n)
                if srcs and all(mentions(s, 'input') or any(cc.cn == 'remote_dhkey_check' and not cc.args() for cc in s.calls()) for g, s in srcs):
                    # the stored copy must itself only be written from the received PDU
                    setters = [cc for g in facts.functions if g.cls == fn.cls for cc in g.body.calls('remote_dhkey_check') if cc.args()]
                    if all(mentions(cc.args()[0], 'input') for cc in setters):
                        return True
    return False


def reply_size_defined(chk, facts, rule, want):
    """every function with a `std::size_t& out_size` in/out parameter (capacity of the output buffer on entry, size of the PDU to send on return) assigns it on every
    path to its exit, directly or by handing it to a callee; `want(fn)` selects the functions this property answers for"""
    seen = set()
    for fn in facts.functions:
        if fn.kind not in ('pattern', 'plain') or not want(fn) or (fn.q, fn.file, fn.line) in seen:
            continue
        ps = [p for p in fn.params if p['n'] and '&' in (p.get('t') or '') and 'const' not in (p.get('t') or '') and 'size_t' in (p.get('t') or '')]
        if len(ps) != 1:
            continue
        seen.add((fn.q, fn.file, fn.line))
        o = ps[0]['n']
        defs = set()
        for tgt, op, val, st in stores(fn.body):
            if is_name(tgt, o) and op == '=':
                defs.add(fn.block_of(st))
        for c in fn.body.calls():
            if any(is_name(a, o) for a in c.args()):
                defs.add(fn.block_of(c))
        ok = bool(defs) and not fn.paths_avoiding([fn.entry], fn.exit, defs)
        chk.instance(rule, fn, '%s::%s: %s assigned on every path (%d assigning blocks)' % (fn.cls.split('::')[-1], fn.name, o, len(defs)), ok,
                     '' if ok else 'a path through %s returns without assigning %s: the caller sends a PDU of the size of the whole output buffer with whatever it contains' % (fn.name, o),
                     key='%s::%s/%d' % (fn.cls.split('::')[-1], fn.name, len(fn.params)))

