"""Shared helpers for the security manager rule modules (C32..C35)."""
from .lib.match import *

SB = 'bluetoe::details::security_manager_base::'
SELECT_SM = (r'^bluetoe::details::(security_manager_base|legacy_security_manager_impl|lesc_security_manager_impl|security_manager_impl|'
             r'security_connection_data_base|legacy_security_connection_data|lesc_security_connection_data|security_connection_data)::'
             r'|^bluetoe::bonding_data_base::|^bluetoe::no_bonding_data_base::')
UNITS_SM = lambda u: u in ('w_inst_sm',) or u.startswith('t_security_manager')

STATE_MUTATORS = {'pairing_algorithm', 'legacy_pairing_request', 'pairing_confirm', 'legacy_pairing_completed', 'arm_key_distribution', 'pairing_requested',
                  'public_key_exchanged', 'pairing_random_exchanged', 'lesc_pairing_completed', 'store_lesc_key_in_bond_db', 'passkey', 'pairing_confirm_send'}


def state_eq_atoms(ats):
    """set of sm_pairing_state enumerators X with `state.state() == X` known, and set with `!= X` known"""
    eq, ne = set(), set()
    for l, op, r in ats:
        if isinstance(r, int):
            continue
        for a, b in ((l, r), (r, l)):
            a, b = strip_casts(a), strip_casts(b)
            if a.is_call('state') and not a.args() and b.k in REF_KINDS:
                if op == '==':
                    eq.add(b.n)
                elif op == '!=':
                    ne.add(b.n)
    return eq, ne


def size_eq(ats, param='in_size'):
    for s, op, o in norm_atoms(ats, lambda n: is_name(n, param)):
        if op == '==':
            o2 = strip_casts(o) if not isinstance(o, int) else o
            return cval(o), (o2.n if not isinstance(o2, int) and o2.k in REF_KINDS else None)
    return None, None


def effects(fn):
    """protocol effects of a handler: mutator calls on the connection state and writes to the output PDU"""
    out = []
    state_param = fn.params[-1]['n'] if fn.params else 'state'
    for c in fn.body.calls():
        if c.cn in STATE_MUTATORS and is_name(base_object(c), state_param):
            out.append(('state.%s()' % c.cn, c))
        if c.cn in ('copy', 'copy_n') and c.args() and any(mentions(a, 'output') for a in c.args()[-1:]):
            out.append(('copy -> output', c))
    for tgt, op, val, st in stores(fn.body):
        t = strip_casts(tgt)
        if t.k == 'ArraySubscriptExpr' and is_name(t.c[0], 'output'):
            out.append(('output[%s] =' % t.c[1].text(), st))
        elif is_name(t, 'out_size') and cval(val) != 0:
            out.append(('out_size = %s' % (val.text() if val is not None else ''), st))
    return out
