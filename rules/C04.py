"""C04 Attribute handles are consistent with the declared database (bounded family + structure)."""
from .lib.match import *
from .lib.witness import PRELUDE, run_witness

SELECT = (r'^bluetoe::details::(characteristic_index_mapping|service_index_mapping|interate_characteristic_index_mappings|interate_service_index_mappings|handle_index_mapping)::'
          r'|^bluetoe::details::generate_attribute::(char_declaration_access|access)$|^bluetoe::server::(handle_\w+|all_attributes|l2cap_output|collect_handle_uuid_tuples|write_128bit_uuid)$'
          r'|^bluetoe::details::(collect_attributes|value_filter|services_by_group|uuid_filter)::')
UNITS = lambda u: u in ('w_inst_att',) or u.startswith('t_attribute_handle') or u.startswith('t_service')
D = 'bluetoe::details::'
EXACT = ('layout-witness', 'include-witness')   # verdicts computed from the meaning of the code (compiler / folding / symbolic terms): not gated by the golden structure
META = {
    'level': 'compiler-evaluated layout witness over a family of 7 server declarations (plain, fixed handles with gaps, attribute_handles<> triples, CCCDs, descriptors, secondary services, several include '
             'declarations, included services with fixed handles): every service and characteristic mapping constant the repository computes is non-zero, increasing, gives every attribute an own handle, the '
             'characteristic mappings fill the service exactly (so include declarations are accounted for) and every include declaration names the real first/last handle of the included service. '
             'Structure: the run-time mapping functions return exactly those constants (declaration/value/CCCD positions, service and include attributes by offset), index_by_handle re-checks the handle, '
             'a characteristic declaration takes its value handle from handle_by_index(attribute_index + 1), and every generic attribute access passes the index the attribute was fetched with. '
             'Declarations outside the family are covered only by the structural rules.',
    'technique': 'static_assert layout witness evaluated by clang + static store/return-shape and argument rules over clang AST/CFG facts',
}
FAMILY = ['srv_values', 'srv_layout', 'srv_one_cccd', 'srv_prio', 'srv_nine', 'srv_mixin', 'srv_includes', 'srv_pinned']
INCLUDES = [('srv_includes', 'inc_target_a'), ('srv_includes', 'inc_target_b'), ('srv_layout', 'svc_secondary')]


def inverse_rules(chk, facts):
    from .lib.linear import Lin, lin
    R = 'inverse-mapping-agrees'

    def pos_guard(fn, r):
        """the one guard atom of return r that holds on the taken (true) edge: the innermost `param OP X`"""
        ats = guard_atoms(fn, r)
        return ats[0] if ats else None

    for fn in [f for f in facts.fns(D + 'characteristic_index_mapping::characteristic_attribute_index_by_handle') if f.kind == 'pattern']:
        h = fn.params[0]['n']
        want = [('declaration_handle', 0), ('value_handle', 1), ('cccd_handle', 2)]
        rets = fn.returns()
        probs = []
        chk.require(len(rets) == 4 and all(pos_guard(fn, r) and is_name(pos_guard(fn, r)[0], h) and pos_guard(fn, r)[1] == '<=' and not isinstance(pos_guard(fn, r)[2], int) for r in rets[:3]),
                    'characteristic_attribute_index_by_handle is no longer a list of `if ( handle <= X ) return ..;` tests followed by one return: idiom not recognised')
        if len(rets) == 4:
            for r, (hn, pos) in zip(rets, want):
                g = pos_guard(fn, r)
                if not (g and is_name(g[0], h) and g[1] == '<=' and not isinstance(g[2], int) and strip_casts(g[2]).n == hn):
                    probs.append('return %d is taken under %s <= %s instead of %s' % (pos, h, strip_casts(g[2]).text() if g else '?', hn))
                elif lin(fn, ret_value(r)) != Lin(pos, {'StartIndex': 1}):
                    probs.append('under %s <= %s the index is %s, the forward mapping has %s at StartIndex + %d' % (h, hn, lin(fn, ret_value(r)), hn, pos))
            last = lin(fn, ret_value(rets[3]))
            if last != Lin(2, {'StartIndex': 1, h: 1, 'cccd_handle': -1}):
                probs.append('descriptors behind the CCCD: index %s, the forward mapping gives handle cccd_handle + (index - StartIndex - 2)' % last)
        chk.instance(R, fn, 'characteristic: handle -> index mirrors index -> handle', not probs, '; '.join(probs), key='char index by handle')
    for fn in [f for f in facts.fns(D + 'service_index_mapping::characteristic_first_index_by_handle') if f.kind == 'pattern']:
        h = fn.params[0]['n']
        rets = fn.returns()
        probs = []
        if len(rets) != 3:
            probs.append('expected 3 returns')
        else:
            g0, g1 = pos_guard(fn, rets[0]), pos_guard(fn, rets[1])
            if not (g0 and is_name(g0[0], h) and g0[1] == '<=' and is_name(g0[2], 'service_handle') and lin(fn, ret_value(rets[0])) == Lin(0, {'StartIndex': 1})):
                probs.append('handles up to the service declaration do not map to StartIndex')
            if not (g1 and is_name(g1[0], h) and g1[1] == '<' and not isinstance(g1[2], int) and lin(fn, g1[2]) == Lin(0, {'service_handle': 1, 'number_of_service_attributes': 1})
                    and lin(fn, ret_value(rets[1])) == Lin(0, {'StartIndex': 1, h: 1, 'service_handle': -1})):
                probs.append('include declarations are not mapped by their offset to the service declaration')
            v = strip_casts(ret_value(rets[2]))
            if not (v.is_call('attribute_index_by_handle') and len(v.args()) == 1 and is_name(v.args()[0], h)):
                probs.append('characteristic handles are not delegated to the characteristic mappings')
        chk.instance(R, fn, 'service: declaration and include declarations by offset, rest delegated', not probs, '; '.join(probs), key='service first index by handle')
    ITER = [('interate_characteristic_index_mappings::attribute_index_by_handle', 'end_handle', 'characteristic_attribute_index_by_handle', 'attribute_index_by_handle'),
            ('interate_characteristic_index_mappings::attribute_handle_by_index', 'end_index', 'characteristic_attribute_handle_by_index', 'attribute_handle_by_index'),
            ('interate_service_index_mappings::service_first_index_by_handle', 'end_handle', 'characteristic_first_index_by_handle', 'service_first_index_by_handle'),
            ('interate_service_index_mappings::service_handle_by_index', 'end_index', 'characteristic_handle_by_index', 'service_handle_by_index')]
    for q, end, own, rec in ITER:
        fns = [f for f in facts.fns(D + q) if f.kind == 'pattern']
        chk.require(len(fns) == 2, '%s: expected the recursion and its tuple<> terminator, found %d patterns' % (q, len(fns)))
        for fn in fns:
            rets = fn.returns()
            if len(rets) == 1:
                v = strip_casts(ret_value(rets[0]))
                ok = v.n in ('invalid_attribute_index', 'invalid_attribute_handle') and not fn.guards(rets[0])
                chk.instance(R, fn, '%s< tuple<> > -> %s' % (q.split('::')[0], v.n), ok, '' if ok else 'the end of the list does not yield the invalid value', key=q.split('::')[-1] + ' end')
                continue
            a = fn.params[0]['n']
            probs = []
            if len(rets) != 2:
                probs.append('expected 2 returns')
            else:
                g = pos_guard(fn, rets[0])
                if not (g and is_name(g[0], a) and g[1] == '<' and not isinstance(g[2], int) and strip_casts(g[2]).n == end):
                    probs.append('own range is not selected by %s < %s' % (a, end))
                v0, v1 = strip_casts(ret_value(rets[0])), strip_casts(ret_value(rets[1]))
                if not (v0.is_call(own) and len(v0.args()) == 1 and is_name(v0.args()[0], a)):
                    probs.append('own range is not answered by %s(%s)' % (own, a))
                if not (v1.is_call(rec) and len(v1.args()) == 1 and is_name(v1.args()[0], a)):
                    probs.append('the remaining elements are not asked with the unchanged argument')
            chk.instance(R, fn, '%s: %s < %s ? %s : next' % (q.split('::')[-1], a, end, own), not probs, '; '.join(probs), key=q.split('::')[-1])


def run(chk, facts, tier):
    chk.rule('layout-witness', 'for every witness declaration: handles non-zero, strictly increasing in declaration order, fixed handles honoured, one handle per attribute, characteristics fill the service exactly', floor=7)
    chk.rule('include-witness', 'every include declaration of the witness family names the real first and last handle of the included service', floor=3)
    chk.rule('mapping-returns-constants', 'characteristic_attribute_handle_by_index returns declaration/value/cccd handle for relative index 0/1/2 and cccd_handle + (i - 2) beyond; '
             'service_index_mapping returns service_handle + offset for the service and include declarations', floor=2)
    chk.rule('index-by-handle-exact', 'handle_index_mapping::index_by_handle yields an index only if handle_by_index(index) == handle', floor=1)
    chk.rule('declaration-names-own-value', 'char_declaration_access takes the value handle from handle_by_index(attribute_index + 1)', floor=1)
    chk.rule('access-with-fetch-index', 'every attribute_at(i).access(args, j) in the server passes j == i (the index the attribute was fetched with)', floor=5)
    chk.rule('inverse-mapping-agrees', 'the handle -> index direction mirrors the index -> handle direction: characteristic_attribute_index_by_handle returns StartIndex + position(X) under handle <= X_handle for '
             'X = declaration, value, cccd (in that order) and StartIndex + cccd_position + handle - cccd_handle beyond; characteristic_first_index_by_handle maps the service and include declarations by offset; '
             'the iterating mappings compare a handle with end_handle and an index with end_index and pass their argument on unchanged', floor=6)
    inverse_rules(chk, facts)
    src = PRELUDE + '#include "wit_layout.hpp"\n'
    obl = []
    for s in FAMILY:
        src += 'VERIF_ASSERT( "layout:%s", wit::layout::server_ok< wit::%s >::value );\n' % (s, s)
        obl.append(('layout:' + s, s + ': consistent handle layout'))
    run_witness(chk, 'layout-witness', 'c04_layout', src, obl)
    src = PRELUDE + '#include "wit_layout.hpp"\n'
    obl = []
    for s, t in INCLUDES:
        src += 'VERIF_ASSERT( "include:%s:%s", wit::layout::include_ok< wit::%s, wit::%s >::value );\n' % (s, t, s, t)
        obl.append(('include:%s:%s' % (s, t), '%s: include of %s names its real handle range' % (s, t)))
    run_witness(chk, 'include-witness', 'c04_include', src, obl)

    for fn in variants(facts, D + 'characteristic_index_mapping::characteristic_attribute_handle_by_index', chk):
        want = {0: 'declaration_handle', 1: 'value_handle', 2: 'cccd_handle'}
        pos = {}
        for c in facts.cls(D + 'characteristic_index_mapping', kind='pattern'):
            for s in c['statics']:
                if s['n'].endswith('_position') and s.get('v') is not None:
                    pos[s['n']] = s['v']
        got = {}
        for r in fn.returns():
            g = [o for c, o in fn.guards(r) if isinstance(o, tuple) and o[0] == 'case']
            v = strip_casts(ret_value(r))
            if g:
                lab = g[0][2].child('label') if g[0][2] is not None else None
                k = g[0][1] if g[0][1] is not None else pos.get(strip_casts(lab).n if lab is not None else None)
                got[k] = v.n
            else:
                b = as_binop(v)
                got['rest'] = bool(b) and b[0] == '+' and mentions(v, 'cccd_handle') and mentions(v, 'relative_index') and mentions(v, 'cccd_position')
        ri = local_init(fn, 'relative_index')
        ok = all(got.get(k) == n for k, n in want.items()) and got.get('rest') is True and ri is not None and as_binop(ri) is not None and as_binop(ri)[0] == '-' and (is_name(as_binop(ri)[2], 'StartIndex') or (fn.kind != 'pattern' and as_binop(ri)[2].v is not None))
        chk.instance('mapping-returns-constants', fn, 'relative index -> %s' % got, ok, '' if ok else 'the handle reported for an attribute position is not the constant computed for it', key='char handle by index')
    for fn in variants(facts, D + 'service_index_mapping::characteristic_handle_by_index', chk):
        rets = fn.returns()
        first = [r for r in rets if as_binop(ret_value(r)) is not None and as_binop(ret_value(r))[0] == '+' and mentions(ret_value(r), 'service_handle')]
        ok = len(first) == 1
        if ok:
            ats = guard_atoms(fn, first[0])
            ok = any(op == '<' and is_name(l, fn.params[0]['n']) and not isinstance(r, int) and (mentions(r, 'number_of_service_attributes') and mentions(r, 'StartIndex') or (fn.kind != 'pattern' and (mentions(r, 'number_of_service_attributes') or cval(r) is not None))) for l, op, r in ats)
            b = as_binop(ret_value(first[0]))
            ok = ok and as_binop(b[2]) is not None and as_binop(b[2])[0] == '-' and is_name(as_binop(b[2])[1], fn.params[0]['n']) and (is_name(as_binop(b[2])[2], 'StartIndex') or (fn.kind != 'pattern' and as_binop(b[2])[2].v is not None))
        chk.instance('mapping-returns-constants', fn, 'service + include declarations: service_handle + (index - StartIndex)', ok,
                     '' if ok else 'include declarations are not mapped: attributes behind an include get wrong (or zero) handles', key='service handle by index')
    for fn in variants(facts, D + 'handle_index_mapping::index_by_handle', chk):
        # every way to leave with a real index (not the invalid one) must know handle_by_index(that index) == handle, or that the index is the invalid one
        h = fn.params[0]['n']
        inv = [st for tgt, op, val, st in stores(fn.body) if is_name(tgt, 'result') and mentions(val, 'invalid_attribute_index')]
        ok = True
        n_exits = 0
        if inv:
            # form: result = first..; if ( result != invalid && handle_by_index( result ) != handle ) result = invalid; return result;
            ok = len(inv) == 1 and any(op == '!=' and not isinstance(l, int) and strip_casts(l).is_call('handle_by_index') and is_name(r, h) for l, op, r in guard_atoms(fn, inv[0]) if not isinstance(r, int))
            n_exits = 1
        else:
            # form with early returns
            for r in fn.returns():
                v = ret_value(r)
                if v is None:
                    continue
                n_exits += 1
                if mentions(v, 'invalid_attribute_index') and strip_casts(v).k in REF_KINDS and strip_casts(v).n == 'invalid_attribute_index':
                    okr = any(op == '!=' and not isinstance(l, int) and strip_casts(l).is_call('handle_by_index') and is_name(rr, h) for l, op, rr in guard_atoms(fn, r) if not isinstance(rr, int))
                    ok = ok and okr
                else:
                    # returning the looked-up index: the mismatch branch must have left before: the negation of (idx != invalid && hbi(idx) != handle) holds here only
                    # implicitly (a disjunction) - accept when a sibling return of the invalid index guarded by the mismatch test dominates... checked above
                    pass
            ok = ok and n_exits >= 2 and any(strip_casts(ret_value(r)).n == 'invalid_attribute_index' for r in fn.returns() if ret_value(r) is not None)
        chk.instance('index-by-handle-exact', fn, 'the invalid index is produced where handle_by_index(found index) != handle', ok, '' if ok else 'a handle inside a gap resolves to a neighbouring attribute', key='index_by_handle')
    for fn in variants(facts, D + 'generate_attribute::char_declaration_access', chk):
        v = local_init(fn, 'value_attribute_handle')
        ok = v is not None and v.is_call('handle_by_index') and as_binop(v.args()[0]) is not None and as_binop(v.args()[0])[0] == '+' and is_name(as_binop(v.args()[0])[1], fn.params[1]['n']) and cval(as_binop(v.args()[0])[2]) == 1
        used = [n for n in fn.body.walk() if n.k == 'VarDecl' and n.n == 'value_handle' and mentions(n, 'value_attribute_handle')]
        chk.instance('declaration-names-own-value', fn, 'value handle = handle_by_index(attribute_index + 1)', ok and bool(used), '' if ok and used else 'a characteristic declaration names another attribute as its value', key='value handle')
    # access sites
    EXEMPT = {'write_128bit_uuid': 'reads the 128 bit UUID bytes of the preceding declaration; the value handle bytes of the result are not used',
              'operator()': 'value_filter compares the service UUID only (compare_value); the index is not used by service declaration access'}
    for fn in facts.functions:
        if not (fn.q.startswith('bluetoe::server::') or fn.q.startswith('bluetoe::details::')) or fn.kind != 'pattern':
            continue
        for c in fn.body.calls('access'):
            if len(c.args()) != 2:
                continue
            obj = base_object(c)
            if obj is None:
                continue
            o = strip_casts(obj)
            fetch = None
            if o.is_call('attribute_at'):
                fetch = strip_casts(o.args()[0])
            elif o.k in REF_KINDS:
                init = local_init(fn, o.n)
                if init is not None and init.is_call('attribute_at'):
                    fetch = strip_casts(init.args()[0])
                elif any(p['n'] == o.n for p in fn.params):
                    # attribute passed in together with its index (iterator callbacks): the index parameter must be forwarded
                    ip = [p['n'] for p in fn.params if 'index' in p['n']]
                    fetch = ('param', ip[0]) if ip else None
            if fetch is None:
                continue
            j = strip_casts(c.args()[1])
            if isinstance(fetch, tuple):
                ok = is_name(j, fetch[1])
                ftxt = fetch[1]
            else:
                ok = same_expr(j, fetch)
                ftxt = fetch.text()
            if not ok and fn.name in EXEMPT and cval(j) is not None:
                chk.note('%s: access(.., %s) with attribute_at(%s) exempt: %s' % (fn.name, j.text(), ftxt, EXEMPT[fn.name]))
                continue
            chk.instance('access-with-fetch-index', fn, 'attribute_at(%s).access(.., %s) in %s' % (ftxt, j.text(), fn.name), ok, '' if ok else 'the attribute is accessed under another index than it was fetched with: declarations report the wrong value handle', node=c, key='%s in %s' % (ftxt, fn.q.split('::')[-2] + '::' + fn.name))
