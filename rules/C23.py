"""C23 Peripheral latency skips only permitted events (structure)."""
from .lib.match import *
from .lib.witness import PRELUDE, run_witness

SELECT = r'^bluetoe::link_layer::details::(connection_state_base|disarmable_connection_state)::|^bluetoe::link_layer::link_layer::(end_event|try_event_cancelation)$'
UNITS = lambda u: u in ('w_inst_ll',) or u.startswith('t_link_layer_peripheral_latency') or u.startswith('t_link_layer_ll_peripheral')
ALSO = [('C21', ('no-pullback-while-update-applied',))]   # a pulled-back event must not use connection parameters whose instant has not come: decided by C21's rule, run here as well
CS = 'bluetoe::link_layer::details::connection_state_base::'
EXACT = ('disarmable-selected',)   # decided by the compiler on witness declarations: not gated by the golden structure
META = {
    'level': 'co-update: each of the four mutators of the connection state advances channel index (mod 37), event counter and elapsed time by the same number of events; '
             'listen-condition table: each configured feature is paired with its event flag in the decision that cancels latency; the number of skipped events is only ever reset to 0, incremented '
             'by one and min-clamped by the distance to a pending instant, so it cannot exceed latency + 1 events; a pulled-back event passes (moved - last_latency_) and can be moved only once. '
             'Decides these structural clauses for every configuration; the arithmetic over event sequences is not decided.',
    'technique': 'static co-update / decision-table / store-set rules over clang AST/CFG facts',
}
TRIPLE = ('channel_index_', 'event_counter_', 'time_since_last_event_')
LISTEN = {'listen_if_unacknowledged_data': 'unacknowledged_data', 'listen_if_last_received_not_empty': 'last_received_not_empty',
          'listen_if_last_transmitted_not_empty': 'last_transmitted_not_empty', 'listen_if_last_received_had_more_data': 'last_received_had_more_data',
          'listen_if_pending_transmit_data': 'pending_outgoing_data'}
IGNORE = {'channel_index_', 'event_counter_', 'time_since_last_event_', 'max_number_of_data_channels', 'offset', 'connection_interval', 'connection_iterval', 'channel_map', 'delta_time'}


def addend_names(expr, fn):
    if expr is None:
        return set()
    return {n.n for n in expr.walk() if n.k in REF_KINDS and n.n and n.n not in IGNORE and (n.d.get('local') or n.n in {p['n'] for p in fn.params})}


def run(chk, facts, tier):
    chk.rule('disarmable-selected', 'a peripheral latency option (single configuration or runtime configuration set) that contains listen_if_pending_transmit_data in ANY of its configurations '
             'gets the disarmable connection state (the planned, skipped-to event can be pulled back when data becomes pending); static_assert witnesses', floor=4)
    src = PRELUDE + '''#include <cassert>
#include <algorithm>
#include <bluetoe/meta_tools.hpp>
#include <bluetoe/meta_types.hpp>
#include <bluetoe/ll_meta_types.hpp>
#include <bluetoe/delta_time.hpp>
#include <bluetoe/channel_map.hpp>
#include <bluetoe/peripheral_latency.hpp>
namespace wit {
    namespace ll = bluetoe::link_layer;
    using pl = ll::peripheral_latency;
    using with    = ll::peripheral_latency_configuration< pl::listen_if_pending_transmit_data, pl::listen_if_unacknowledged_data >;
    using without = ll::peripheral_latency_configuration< pl::listen_if_unacknowledged_data >;
    template < class Option >
    using state_t = ll::details::peripheral_latency_state< Option >;
    template < class Option >
    struct disarmable : std::is_base_of< ll::details::disarmable_connection_state< std::true_type, state_t< Option > >, state_t< Option > > {};
}
'''
    obl = []
    for key, opt, desc in (('single', 'wit::with', 'single configuration with the option'),
                           ('set-all', 'wit::ll::peripheral_latency_configuration_set< wit::with, wit::with >', 'set, option in every configuration'),
                           ('set-first', 'wit::ll::peripheral_latency_configuration_set< wit::with, wit::without >', 'set, option only in the first configuration'),
                           ('set-last', 'wit::ll::peripheral_latency_configuration_set< wit::without, wit::without, wit::with >', 'set, option only in the last configuration')):
        src += 'VERIF_ASSERT( "disarm:%s", wit::disarmable< %s >::value );\n' % (key, opt)
        obl.append(('disarm:' + key, '%s: connection state is disarmable' % desc))
    run_witness(chk, 'disarmable-selected', 'c23_disarm', src, obl)
    chk.rule('co-update', 'plan_next_connection_event_after_timeout, plan_next_connection_event, reset_connection_state and peripheral_latency_move_connection_event each store channel_index_, '
             'event_counter_ and time_since_last_event_ with the same event count; the channel index is reduced modulo max_number_of_data_channels', floor=4)
    chk.rule('listen-table', 'latency is cancelled exactly for: each peripheral_latency_feature<F>() paired with its own event flag, listen_always, or error_occured', floor=1)
    chk.rule('latency-bounded', 'in plan_next_connection_event the skip count is only reset to 0, incremented once after the decision and min-clamped by the positive distance to a pending instant', floor=1)
    chk.rule('reschedule-once', 'reschedule_on_pending_data_impl moves the event by (min(times, last_latency_) - last_latency_) only when last_latency_ != 1 and the radio disarmed the event, then sets last_latency_ = 1; reset_connection_state records latency 1; last_latency_ has no other writer', floor=3)
    expected = {'plan_next_connection_event_after_timeout': set(), 'plan_next_connection_event': {'connection_peripheral_latency'},
                'reset_connection_state': set(), 'peripheral_latency_move_connection_event': {'count'}}
    for name, exp in expected.items():
        for fn in variants(facts, CS + name, chk):
            per = {}
            shape_ok = True
            for tgt, op, val, st in stores(fn.body):
                nm = target_name(tgt)
                if nm in TRIPLE:
                    per.setdefault(nm, set()).update(addend_names(val, fn))
                    if nm == 'channel_index_' and name != 'reset_connection_state':
                        b = as_binop(val)
                        shape_ok = shape_ok and b is not None and b[0] == '%' and mentions(b[2], 'max_number_of_data_channels') and mentions(b[1], 'channel_index_')
                    if nm == 'event_counter_' and name != 'reset_connection_state':
                        shape_ok = shape_ok and op in ('++', '+=')
            ok = set(per) == set(TRIPLE) and all(v == exp for v in per.values()) and shape_ok
            chk.instance('co-update', fn, '%s: %s' % (name, {k: sorted(v) for k, v in per.items()}), ok,
                         '' if ok else 'event counter, channel index and elapsed time do not advance together by %s (or the channel index is not reduced modulo the number of data channels)' % (sorted(exp) or 'one event'), key=name)
    # exact steps (linear forms): channel index and event counter move by the same amount in every function
    from .C20 import index_tracks
    index_tracks(chk, facts, 'co-update')
    for fn in variants(facts, CS + 'plan_next_connection_event', chk):
        lat = fn.params[0]['n']
        ev = fn.params[1]['n']
        zero = [st for tgt, op, val, st in stores(fn.body) if is_name(tgt, lat) and op == '=' and cval(val) == 0]
        if not chk.require(len(zero) == 1, 'plan_next_connection_event: expected exactly one reset of the latency'):
            continue
        ifs = [i for i, br in enclosing_ifs(zero[0]) if br == 'then']
        cond = ifs[0].child('cond') if ifs else None
        terms = []
        def disj(n):
            n = strip_casts(n)
            if n.k == 'BinaryOperator' and n.o == '||':
                disj(n.c[0]); disj(n.c[1])
            else:
                terms.append(n)
        if cond is not None:
            disj(cond)
        got = {}
        extra = []
        for t in terms:
            feats = []
            for c in t.calls('peripheral_latency_feature'):
                cal = c.callee()
                # explicit template argument is not in the tree for dependent calls: use the printed callee / resolved cnta
                feats.append(c)
            flags = [n.n for n in t.walk() if n.k in ('MemberExpr', 'CXXDependentScopeMemberExpr') and is_name(base_object(n), ev)]
            got[tuple(flags)] = len(feats)
        # pairs: one feature test per flag, plus listen_always (feature without flag), plus error_occured (flag without feature)
        flags_with_feature = sorted(f[0] for f, n in got.items() if len(f) == 1 and n == 1)
        ok = flags_with_feature == sorted(LISTEN.values()) and got.get((), 0) == 1 and got.get(('error_occured',), None) == 0
        chk.instance('listen-table', fn, 'cancel-latency terms: %s' % {','.join(k) or '(feature only)': v for k, v in got.items()}, ok,
                     '' if ok else 'expected one feature-guarded term for each of %s, one listen_always term and the error term' % sorted(LISTEN.values()), node=cond, key='listen')
        # feature <-> flag pairing needs the template argument: taken from instantiations (resolved callee integral argument) when available
        if fn.kind == 'inst':
            enum = facts.enum('bluetoe::link_layer::peripheral_latency') or {}
            inv = {v: k for k, v in enum.items()}
            pair_ok = True
            bad = ''
            for t in terms:
                cs = t.calls('peripheral_latency_feature')
                flags = [n.n for n in t.walk() if n.k == 'MemberExpr' and is_name(base_object(n), ev)]
                if len(cs) == 1 and len(flags) == 1:
                    arg = (cs[0].d.get('cnta') or [None])[-1]
                    f = inv.get(arg)
                    if LISTEN.get(f) != flags[0]:
                        pair_ok, bad = False, '%s is paired with flag %s' % (f, flags[0])
            chk.instance('listen-table', fn, 'feature/flag pairing (instantiation)', pair_ok, bad, key='pairing')
        sts = [(op, val, st) for tgt, op, val, st in stores(fn.body) if is_name(tgt, lat)]
        kinds = []
        okb = True
        for op, val, st in sts:
            if op == '=' and cval(val) == 0:
                kinds.append('reset')
            elif op == '++':
                kinds.append('inc')
                okb = okb and not [i for i, br in enclosing_ifs(st)] and precedes(fn, zero[0], st) is False and st.l > zero[0].l
            elif op == '=' and strip_casts(val).is_call('min') and any(is_name(a, lat) for a in strip_casts(val).args()):
                kinds.append('clamp')
                ats = guard_atoms(fn, st)
                okb = okb and any(op2 == '>' and cval(r) == 0 for l, op2, r in ats) and any(strip_casts(l).n == 'first' for l, op2, r in ats if not isinstance(l, int))
                # the distance to the instant is a difference of two wrapping 16 bit event counters: it has to be reduced modulo 2^16 (after the counter
                # wrapped, instant - counter as int is negative / off by 65536 and the clamp is skipped: the instant is slept over)
                dist = [a for a in strip_casts(val).args() if not is_name(a, lat)]
                okm = len(dist) == 1 and any(w in (dist[0].t or '') for w in ('uint16_t', 'unsigned short'))
                chk.instance('latency-bounded', fn, 'distance to the pending instant is a 16 bit modular difference (%s)' % (dist[0].t if dist else '?'), okm,
                             '' if okm else 'the distance to the pending instant is not reduced modulo 2^16: across a wrap of the event counter the instant is not seen as ahead and skipped', node=st, key='modular-distance')
            else:
                kinds.append('other')
        ok = okb and sorted(kinds) == ['clamp', 'inc', 'reset']
        rec = fn.body.calls('disarmable_connection_state_last_latency')
        okr = len(rec) == 1 and is_name(rec[0].args()[0], lat) and all(precedes(fn, st, rec[0]) or not fn.paths_avoiding([fn.block_of(rec[0])], fn.block_of(st), set()) for op, val, st in sts)
        chk.instance('latency-bounded', fn, 'applied latency recorded after its last adjustment', okr, '' if okr else 'the latency remembered for pulling an event back differs from the latency applied (recorded before the instant clamp)', key='recorded')
        chk.instance('latency-bounded', fn, 'stores to %s: %s' % (lat, kinds), ok, '' if ok else 'the number of skipped events can exceed the connection\'s peripheral latency or skip a pending instant', key='bounded')
    # a new connection starts with nothing to pull back
    for fn in variants(facts, CS + 'reset_connection_state', chk):
        rec = fn.body.calls('disarmable_connection_state_last_latency')
        ok = len(rec) == 1 and cval(rec[0].args()[0]) == 1 and not fn.guards(rec[0])
        chk.instance('reschedule-once', fn, 'reset_connection_state: recorded latency back to 1 (the first event of a connection can not be pulled back)', ok,
                     '' if ok else 'the latency recorded for the last planned event survives into the next connection: data pending before its first event moves that event back by the old latency (event counter below 0, wrong channel)', key='reset')
    for fn, tgt, op, val, st in field_stores(facts, 'last_latency_', 'bluetoe::link_layer::details::disarmable_connection_state::'):
        ok = op == 'init' or (fn.name == 'disarmable_connection_state_last_latency' and op == '=' and is_name(val, fn.params[0]['n'])) or (fn.name == 'reschedule_on_pending_data_impl' and op == '=' and cval(val) == 1)
        chk.instance('reschedule-once', fn, 'last_latency_ %s %s in %s' % (op, val.text() if val is not None else '', fn.name), ok, '' if ok else 'the recorded latency is written outside its setter (called by every planner) and the one-shot reset after a move', node=st, key='last_latency_ in ' + fn.name)
    for fn in facts.functions:
        if fn.name == 'reschedule_on_pending_data_impl' and fn.body.calls('peripheral_latency_move_connection_event'):
            mv = fn.body.calls('peripheral_latency_move_connection_event')[0]
            a0 = as_binop(mv.args()[0])
            ok = a0 is not None and a0[0] == '-' and is_name(a0[1], 'moved') and is_name(a0[2], 'last_latency_')
            init = local_init(fn, 'moved')
            ok = ok and init is not None and init.is_call('min') and any(is_name(a, 'last_latency_') for a in init.args())
            ats = guard_atoms(fn, mv)
            ok = ok and has_atom(ats, lambda n: is_name(n, 'last_latency_'), {'!='}, lambda o: cval(o) == 1) and any(strip_casts(l).n == 'first' for l, op, r in ats if not isinstance(l, int))
            st = [s for tgt, op, val, s in stores(fn.body) if is_name(tgt, 'last_latency_') and cval(val) == 1 and fn.block_of(s) == fn.block_of(mv)]
            ok = ok and len(st) == 1
            chk.instance('reschedule-once', fn, 'move by (moved - last_latency_), then last_latency_ = 1', ok, '' if ok else 'a pulled-back connection event is not accounted for exactly once', key='reschedule')
