"""C14 Advertising and scan response data are well-formed (bounds and tiling)."""
from .lib.match import *
from .lib.paths import explore
from .lib.linear import Lin, lin

SELECT = (r'^bluetoe::server::(advertising_data_impl|scan_response_data_impl|advertising_data|scan_response_data)$|^bluetoe::details::copy_name::impl$|^bluetoe::details::uuid_128_writer::each$'
          r'|^bluetoe::(list_of_16_bit_service_uuids|list_of_128_bit_service_uuids|peripheral_connection_interval_range|advertise_appearance)::advertising_data$'
          r'|^bluetoe::(custom_advertising_data|custom_scan_response_data|runtime_custom_advertising_data|runtime_custom_scan_response_data)::(advertising_data|scan_response_data)$'
          r'|^bluetoe::link_layer::.*(fill_advertising_data|fill_scan_response_data|fill_l2cap_advertising_data|fill_l2cap_scan_response_data)$')
UNITS = lambda u: u in ('w_inst_att', 'w_inst_ll') or u.startswith('t_server') or u.startswith('t_advertising')
META = {
    'level': 'linear byte accounting over every CFG path of each AD writer (flags, appearance, local name, 16 and 128 bit service lists, connection interval range, trailing empty AD, default scan response): '
             'every write through the output pointer lies below a remaining-size bound established by a dominating test or a min() clamp (buffer sizes 0..31 and beyond), the length byte plus one equals the '
             'pointer advance (the structures tile the payload), the complete/shortened marker is selected by comparing the clamped count with the full count, and the link layer passes the 31 byte payload size. '
             'Custom payloads supplied by the application are not decided.',
    'technique': 'static bounded-copy / linear-form (tiling) analysis over clang AST/CFG facts',
}


def is_avail_expr(fn, n, b, e):
    """expression denoting the remaining space end - begin (or a local initialised with it, or the buffer_size parameter)"""
    n = strip_casts(n)
    if n is None or isinstance(n, int):
        return False
    x = as_binop(n)
    if x and x[0] == '-' and is_name(x[1], e) and is_name(x[2], b):
        return True
    if n.is_call('distance'):
        return True
    if n.k in REF_KINDS:
        if n.n == 'buffer_size' and any(p['n'] == 'buffer_size' for p in fn.params):
            return True
        init = local_init(fn, n.n)
        if init is not None:
            return is_avail_expr(fn, init, b, e)
    if n.d.get('ctor') and n.c:
        return is_avail_expr(fn, n.c[0], b, e)
    return False


def check_writer(chk, fn, label, expect_len=True):
    """byte accounting along all paths; returns nothing, records instances"""
    if not fn.params:
        return
    b = fn.params[0]['n']
    e = fn.params[1]['n'] if len(fn.params) > 1 and '*' in fn.params[1]['t'] else None
    if e is None and any(d.n == 'end' for d in fn.body.find(lambda n: n.k == 'VarDecl')):
        e = 'end'
    size_param = next((p['n'] for p in fn.params if p['n'] == 'buffer_size'), None)
    problems = []
    n_writes = [0]

    # clamps: var = min(A, B)  -> facts  coef*var + c <= avail
    clamps = {}
    for d in fn.body.find(lambda n: n.k == 'VarDecl' and n.c):
        init = strip_casts(d.c[0])
        if init.is_call('min'):
            for a in init.args():
                a = strip_casts(a)
                x = as_binop(a)
                # (avail - c) / u
                if x and x[0] == '/':
                    num, den = as_binop(x[1]), lin(fn, x[2])
                    if num and num[0] == '-' and is_avail_expr(fn, num[1], b, e) and den is not None and not den.t:
                        c = lin(fn, num[2])
                        if c is not None and not c.t:
                            clamps[d.n] = (den.c, c.c)
                # avail - c   (possibly chained: end - begin - 2)
                l = lin(fn, a)
                if l is not None and e and l.t.get(e) == 1 and l.t.get(b) == -1 and len(l.t) == 2:
                    clamps[d.n] = (1, -l.c)
                if is_avail_expr(fn, a, b, e):
                    clamps[d.n] = (1, 0)

    fresh = [0]
    len_lines = []

    def edge_bounds(adv, ats):
        """bounds on the space available at function entry implied by a branch edge taken when `adv` bytes were already consumed"""
        out = []
        for l, op, r in ats:
            for x, o2, y in ((l, op, r), (r, SWAP[op], l)):
                if isinstance(x, int):
                    continue
                if is_avail_expr(fn, x, b, e):
                    yl = lin(fn, y) if not isinstance(y, int) else Lin(y)
                    if yl is not None and not yl.t and o2 in ('>=', '>'):
                        k = yl.c + (1 if o2 == '>' else 0)
                        xs = strip_casts(x)
                        relative = not (xs.k in REF_KINDS)      # `end - begin` is measured from the current position, a local/parameter from the entry
                        out.append((adv + Lin(k)) if relative else Lin(k))
        return out

    def fits(bounds, upto):
        """is  upto <= (space available at entry)  implied by a bound taken on this path or by a min() clamp?"""
        for bd in bounds:
            d = bd - upto
            if not d.t and d.c >= 0:
                return True
        if len(upto.t) == 1:
            (s, coef), = upto.t.items()
            if s in clamps:
                u, c = clamps[s]
                return 0 < coef <= u and upto.c <= c
        return False

    def on_node(ts, node):
        adv, lenb, bounds = ts
        if adv is None:
            return ts
        # *begin = X   /  begin[k] = X
        for tgt, op, val, st in stores(node):
            if st is not node:
                continue
            t = strip_casts(tgt)
            off = None
            if t.k == 'UnaryOperator' and t.o == '*' and is_name(t.c[0], b):
                off = Lin(0)
            elif t.k == 'ArraySubscriptExpr' and is_name(t.c[0], b):
                off = lin(fn, t.c[1])
            if off is not None and op == '=':
                n_writes[0] += 1
                if not fits(bounds, adv + off + Lin(1)):
                    problems.append((node, 'write at offset %s is not covered by a remaining-size test (bounds on this path: %s%s)' % (adv + off, list(bounds), ', clamps %s' % clamps if clamps else '')))
                if (adv + off) == Lin(0) and lenb is None:
                    len_lines.append(node.l)
                    lenb = lin(fn, val)
                    if lenb is None:
                        lenb = 'nonlinear'
            if is_name(tgt, b):
                if op == '++':
                    adv = adv + Lin(1)
                elif op == '+=':
                    d = lin(fn, val)
                    adv = (adv + d) if d is not None else None
                elif op == '=' and val is not None:
                    v = strip_casts(val)
                    if v.is_call(('write_16bit', 'write_32bit', 'write_handle')) and is_name(v.args()[0], b):
                        w = {'write_16bit': 2, 'write_handle': 2, 'write_32bit': 4}[v.cn]
                        n_writes[0] += 1
                        if not fits(bounds, adv + Lin(w)):
                            problems.append((node, '%s at offset %s is not covered by a remaining-size test' % (v.cn, adv)))
                        adv = adv + Lin(w)
                    elif v.d.get('call') and any(is_name(a, b) for a in v.args()) and (e is None or any(is_name(a, e) for a in v.args())):
                        fresh[0] += 1
                        adv = adv + Lin(0, {'delegated%d' % fresh[0]: 1})   # delegated writer (checked on its own): advances by an unknown, self-bounded amount
                        lenb = lenb if lenb is not None else 'delegated'
                    else:
                        adv = None
        if node.is_call(('copy', 'copy_n')) and node.args():
            dst = strip_casts(node.args()[-1])
            off = None
            if is_name(dst, b):
                off = Lin(0)
            elif elem_addr(dst) is not None and is_name(elem_addr(dst)[0], b):
                off = lin(fn, elem_addr(dst)[1])
            if off is not None:
                a0, a1 = lin(fn, node.args()[0]), lin(fn, node.args()[1])
                n = (a1 - a0) if a0 is not None and a1 is not None else None
                n_writes[0] += 1
                if n is None or not fits(bounds, adv + off + n):
                    problems.append((node, 'copy of %s bytes to offset %s is not covered by a remaining-size test or clamp' % (n, adv + off)))
        return (adv, lenb, bounds)

    def on_edge(ts, cond, outcome, ats):
        adv, lenb, bounds = ts
        if adv is None:
            return ts
        nb = edge_bounds(adv, ats)
        return (adv, lenb, bounds + tuple(nb)) if nb else ts

    # loops `for (i = 0; i != N; ++i) begin = write_16bit(begin, ..)` : summarised as N * body advance
    loops = fn.body.find(lambda n: n.k == 'ForStmt')
    loop_adv = Lin(0)
    for lp in loops:
        cond = lp.child('cond')
        c = as_binop(cond) if cond is not None else None
        body_w = [v for tgt, op, v, st in stores(lp.child('body')) if is_name(tgt, b) and v is not None and strip_casts(v).is_call(('write_16bit',))]
        if c and c[0] in ('!=', '<') and len(body_w) == 1:
            nsym = lin(fn, c[2])
            if nsym is not None:
                loop_adv = loop_adv + nsym.scale(2)
    res = explore(fn, (Lin(0), None, ()), on_node, on_edge, max_visits=1 if loops else 2)
    res = [r for r in res]
    # delegated for_<...>::each( uuid_128_writer( begin, end ) ): self bounded, advances uuid_size * max_uuids
    delegated = [c for c in fn.body.calls('each') if any(x.d.get('ctor') and 'uuid_128_writer' in (x.cn or '') or (x.cn or '').endswith('uuid_128_writer') for x in c.walk())]
    for (adv, lenb, bounds), tr in res:
        if adv is None:
            problems.append((fn.body, 'pointer arithmetic on the output pointer left linear form'))
            continue
        total = adv + loop_adv
        if delegated:
            us = lin(fn, next(n for n in fn.body.walk() if n.k in REF_KINDS and n.n == 'uuid_size')) if any(n.n == 'uuid_size' for n in fn.body.walk()) else Lin(16)
            mx = [d.n for d in fn.body.find(lambda n: n.k == 'VarDecl' and n.n.startswith('max_'))]
            if mx and us is not None and not us.t:
                total = total + Lin(0, {mx[0]: us.c})
        if total == Lin(0):
            continue
        if expect_len and isinstance(lenb, Lin):
            if not (lenb + Lin(1) == total):
                problems.append((fn.body, 'AD structure does not tile: length byte %s + 1 != bytes written %s' % (lenb, total)))
        elif expect_len and lenb == 'nonlinear':
            problems.append((fn.body, 'length byte is not a linear function of the clamped count'))
    # the symbols of the accounting stand for one value each: a count that enters the length byte or the advance must not be modified after its declaration
    syms = set()
    for (adv, lenb, bounds), tr in res:
        for x in (adv, lenb):
            if isinstance(x, Lin):
                syms |= set(x.t)
    for tgt, op, val, st in stores(fn.body):
        nm = target_name(tgt)
        if nm in syms and nm not in (b, e) and strip_casts(tgt).k in REF_KINDS and strip_casts(tgt).d.get('local') and len_lines and st.l >= min(len_lines):
            problems.append((st, 'the count `%s` is used for the length byte / the pointer advance and is modified at line %d (%s): the length octet written before no longer matches the octets written after - the AD structures do not tile the payload' % (nm, st.l, st.text()[:40])))
    ok = not problems and n_writes[0] > 0
    chk.instance('bounded-and-tiling', fn, '%s: %d writes on %d path(s)' % (label, n_writes[0], len(res)), ok,
                 '' if ok else (problems[0][1] if problems else 'no writes found'), node=problems[0][0] if problems else None, key=label)


def run(chk, facts, tier):
    chk.rule('custom-data-copy-bounded', 'the four custom advertising / scan response data holders copy min(stored size, buffer_size) octets to the given buffer and return exactly that number', floor=4)
    for fn in facts.functions:
        if fn.kind not in ('pattern', 'plain') or not (fn.file or '').endswith('custom_advertising.hpp') or fn.name not in ('advertising_data', 'scan_response_data') or len(fn.params) != 2:
            continue
        dst, cap = fn.params[0]['n'], fn.params[1]['n']
        cps = [c for c in fn.body.calls('copy') if len(c.args()) == 3 and is_name(c.args()[2], dst)]
        rets = fn.returns()
        ok, why = len(cps) == 1 and len(rets) == 1, 'expected one copy into the buffer and one return'
        if ok:
            e0, e1 = elem_addr(cps[0].args()[0]), elem_addr(cps[0].args()[1])
            if e0 is not None and e1 is not None and cval(e0[1]) == 0 and same_expr(cps[0].args()[0], e1[0]):
                e1 = (e0[0], e1[1])                      # `first + n` with first = &data[ 0 ] (the loaded form of copy_n)
            ok = e0 is not None and e1 is not None and same_expr(e0[0], e1[0]) and cval(e0[1]) == 0
            why = 'the copy does not start at the first stored octet'
            if ok:
                ln = e1[1]
                m = deep(ln) if not isinstance(ln, int) else None
                ok = m is not None and m.is_call('min') and any(is_name(a, cap) for a in m.args())
                why = 'the number of octets copied is not min(stored size, %s): the caller\'s buffer is overrun' % cap
                if ok and not same_expr(ret_value(rets[0]), ln):
                    ok, why = False, 'the returned size (%s) is not the number of octets copied: the caller transmits octets nobody wrote (or cuts the data)' % ret_value(rets[0]).text()[:40]
        chk.instance('custom-data-copy-bounded', fn, '%s::%s copies and returns min(size, %s)' % (fn.cls.split('::')[-1], fn.name, cap), ok, '' if ok else why, key=fn.cls.split('::')[-1])
    chk.rule('bounded-and-tiling', 'each AD writer: every write below a dominating remaining-size bound / clamp; length byte + 1 == pointer advance on every path', floor=6)
    chk.rule('complete-or-shortened-marker', 'name and service lists: the AD type is the "complete" one exactly when the clamped count equals the full count', floor=3)
    chk.rule('uuid128-writer-guarded', 'uuid_128_writer::each copies a UUID only under begin + sizeof(UUID) <= end and advances by that size', floor=1)
    chk.rule('payload-size-31', 'the link layer requests advertising / scan response data with the advertising payload size (31) of its buffers', floor=1)
    writers = [('bluetoe::details::copy_name::impl', 'local name'),
               ('bluetoe::list_of_16_bit_service_uuids::advertising_data', '16 bit service list'),
               ('bluetoe::list_of_128_bit_service_uuids::advertising_data', '128 bit service list'),
               ('bluetoe::peripheral_connection_interval_range::advertising_data', 'connection interval range'),
               ('bluetoe::advertise_appearance::advertising_data', 'appearance')]
    for q, label in writers:
        for fn in variants(facts, q, chk):
            if len(fn.returns()) == 1 and is_name(ret_value(fn.returns()[0]), fn.params[0]['n']) and not list(stores(fn.body)):
                continue    # empty specialisations: return begin
            check_writer(chk, fn, label)
    for fn in variants(facts, 'bluetoe::server::advertising_data_impl', chk):
        if not any(p.get('tn') == 'auto_advertising_data' or 'auto_advertising_data' in p['t'] for p in fn.params):
            continue
        check_writer(chk, fn, 'flags + trailing empty AD (advertising_data_impl)', expect_len=False)
        # flags structure: begin[0] = 2 with 3 bytes
        st = {cval(strip_casts(tgt).c[1]): cval(val) for tgt, op, val, s in stores(fn.body) if strip_casts(tgt).k == 'ArraySubscriptExpr' and is_name(strip_casts(tgt).c[0], fn.params[0]['n'])}
        adv = [cval(val) for tgt, op, val, s in stores(fn.body) if is_name(tgt, fn.params[0]['n']) and op == '+=']
        ok = st.get(0) == 2 and st.get(2) == 6 and adv[:1] == [3]
        rets = fn.returns()
        rv = as_binop(ret_value(rets[0])) if len(rets) == 1 else None
        ok = ok and rv is not None and rv[0] == '-' and is_name(rv[1], 'buffer_size')
        chk.instance('bounded-and-tiling', fn, 'flags AD {2, flags, 6} advances 3; result = buffer_size - (end - begin)', ok, '' if ok else 'flags structure or returned size wrong', key='flags')
    for fn in variants(facts, 'bluetoe::server::scan_response_data_impl', chk):
        if not any('auto_scan_response_data' in p['t'] for p in fn.params):
            continue
        b = fn.params[0]['n']
        ws = [(cval(strip_casts(tgt).c[1]), s) for tgt, op, val, s in stores(fn.body) if strip_casts(tgt).k == 'ArraySubscriptExpr' and is_name(strip_casts(tgt).c[0], b)]
        size = fn.params[1]['n']
        ok = bool(ws) and bool(size)
        for k, s in ws:
            lb = lower_bound(guard_atoms(fn, s), lambda n: is_name(n, size))
            ok = ok and lb is not None and k is not None and k < lb
        for r in fn.returns():
            v = cval(ret_value(r))
            lb = lower_bound(guard_atoms(fn, r), lambda n: is_name(n, size)) or 0
            ok = ok and v is not None and v <= lb
        chk.instance('bounded-and-tiling', fn, 'default scan response: %d writes, returns <= buffer size' % len(ws), ok,
                     '' if ok else 'the default scan response writes / reports more bytes than the buffer holds (buffer sizes 0 and 1)', key='scan response')
    for q, var, full in (('bluetoe::details::copy_name::impl', 'max_name_len', 'name_length'),
                         ('bluetoe::list_of_16_bit_service_uuids::advertising_data', 'max_uuids', None),
                         ('bluetoe::list_of_128_bit_service_uuids::advertising_data', 'max_uuids', None)):
        for fn in variants(facts, q, chk):
            conds = [n for n in fn.body.walk() if n.k == 'ConditionalOperator' and ('complete' in n.c[1].text())]
            if not conds and not list(stores(fn.body)):
                continue
            ok = len(conds) == 1
            if ok:
                c = as_binop(conds[0].c[0])
                ok = c is not None and c[0] == '==' and is_name(c[1], var) and (is_name(c[2], full) if full else c[2].k in ('SizeOfPackExpr',) or c[2].v is not None)
                ok = ok and 'complete' in conds[0].c[1].text() and ('incomplete' in conds[0].c[2].text() or 'shortened' in conds[0].c[2].text()) and 'incomplete' not in conds[0].c[1].text()
            chk.instance('complete-or-shortened-marker', fn, '%s == full count ? complete : shortened/incomplete' % var, ok, '' if ok else 'a truncated list/name is announced as complete (or vice versa)', key=q.split('::')[-2])
    for fn in variants(facts, 'bluetoe::details::uuid_128_writer::each', chk):
        cp = fn.body.calls('copy')
        ok = len(cp) == 1
        if ok:
            ats = guard_atoms(fn, cp[0])
            ok = any(op == '<=' and not isinstance(l, int) and as_binop(l) is not None and as_binop(l)[0] == '+' and is_name(as_binop(l)[1], 'begin') and is_name(r, 'end') for l, op, r in ats if not isinstance(r, int))
            adv = [(op, val) for tgt, op, val, s in stores(fn.body) if is_name(tgt, 'begin')]
            ok = ok and len(adv) == 1 and adv[0][0] == '+='
        chk.instance('uuid128-writer-guarded', fn, 'copy under begin + sizeof(UUID::bytes) <= end', ok, '' if ok else '128 bit UUIDs are written past the end of the buffer', key='uuid128')
    n = 0
    for fn in facts.functions:
        if fn.q.startswith('bluetoe::link_layer::') and fn.name in ('fill_advertising_data', 'fill_scan_response_data'):
            for c in fn.body.calls(('fill_l2cap_advertising_data', 'fill_l2cap_scan_response_data')):
                n += 1
                a = c.args()
                ok = len(a) == 2 and ('max_advertising_data_size' in a[1].text() or 'max_scan_response_data_size' in a[1].text() or cval(a[1]) == 31)
                chk.instance('payload-size-31', fn, '%s(.., %s)' % (c.cn, a[1].text() if len(a) > 1 else '?'), ok, '' if ok else 'payload buffer size passed to the server is not the 31 byte advertising payload', node=c, key=fn.cls.split('::')[-2] + '/' + c.cn)
