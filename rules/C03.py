"""C03 Primary service discovery never reports secondary services."""
from .lib.match import *

SELECT = r'^bluetoe::details::(collect_primary_services|services_by_group)::each$|^bluetoe::server::(handle_read_by_group_type_request|handle_find_by_type_value_request)$|^bluetoe::service::read_primary_service_response$|^bluetoe::details::generate_attribute::access$'
UNITS = lambda u: u in ('w_inst_att',) or u.startswith('t_att_read_by_group') or u.startswith('t_att_find_by_type')
ALSO = [('C02', ('end-handle-mapping',))]   # the requested range bounds what both group discoveries report: decided by C02's rule, run here as well
META = {
    'level': 'guarded-by rule on the two emitters of the Primary Service group (Read By Group Type: collect_primary_services::each -> read_primary_service_response; Find By Type Value: '
             'services_by_group::each -> iterator call): the emission is control dependent on a test that the service declaration attribute at the service\'s index has type «Primary Service» '
             '(attr.uuid == primary_service) and both requests refuse other group types; plus the definition of the service declaration attribute selecting «Secondary Service» exactly for is_secondary_service. '
             ' Holds for every declaration mixing primary and secondary services and every range; the handle ranges themselves are covered under C02/C04.',
    'technique': 'static guarded-by rule over clang AST/CFG facts',
}


def is_primary_test(ats):
    for l, op, r in ats:
        if op == '==' and not isinstance(r, int):
            a, b = strip_casts(l), strip_casts(r)
            for x, y in ((a, b), (b, a)):
                if x.n == 'uuid' and mentions(y, 'primary_service') and not mentions(y, 'secondary'):
                    return x
    return None


def run(chk, facts, tier):
    chk.rule('emit-only-primary', 'both group emitters report a service only on the edge (declaration attribute).uuid == gatt_uuids::primary_service, the attribute being attribute_at(index_ of that service)', floor=2)
    chk.rule('group-range', 'both emitters walk the services with index_ += Service::number_of_attributes and report the range [handle_by_index(index_), handle_by_index(index_ + Service::number_of_attributes - 1)]', floor=3)
    chk.rule('group-type-checked', 'Read By Group Type and Find By Type Value answer only for the «Primary Service» group type', floor=2)
    chk.rule('uuid-match-compares-whole-value', 'the service declaration answers compare_value (Find By Type Value) with value_equal only under args.buffer_size == sizeof(uuid::bytes) && '
             'equal(begin(uuid::bytes), end(uuid::bytes), args.buffer): a requested UUID of another length, or compared from another offset, never selects a service', floor=1)
    chk.rule('declaration-type-witness', 'a service with is_secondary_service has declaration type 0x2801, any other 0x2800 (definition of the declaration attribute)', floor=2)
    for fn in variants(facts, 'bluetoe::details::collect_primary_services::each', chk):
        em = fn.body.calls('read_primary_service_response')
        ok = len(em) == 1
        if ok:
            x = is_primary_test(guard_atoms(fn, em[0]))
            ok = x is not None and any(c.cn == 'attribute_at' and is_name(c.args()[0], 'index_') for c in x.walk() if c.d.get('call')) or (x is not None and x.c and is_name(x.c[0], 'attr'))
        chk.instance('emit-only-primary', fn, 'read_primary_service_response(..) in collect_primary_services::each', ok, '' if ok else 'Read By Group Type «Primary Service» also reports services declared with is_secondary_service', key='read by group type')
    for fn in variants(facts, 'bluetoe::details::services_by_group::each', chk):
        em = [c for c in fn.body.calls() if c.k == 'CXXOperatorCallExpr' and c.o == '()' or (c.cn and 'operator()' in c.cn) or (c.callee() is not None and (c.callee().n or '').startswith('operator()'))]
        em = [c for c in em if mentions(c, 'iterator_')]
        ok = len(em) == 1
        if ok:
            x = is_primary_test(guard_atoms(fn, em[0]))
            ok = x is not None
            if ok:
                init = local_init(fn, 'attr')
                ok = init is not None and init.is_call('attribute_at') and is_name(init.args()[0], 'index_')
        chk.instance('emit-only-primary', fn, 'iterator_(first handle, last handle, attr) in services_by_group::each', ok, '' if ok else 'Find By Type Value «Primary Service» also reports services declared with is_secondary_service', key='find by type value')
    # correct handle ranges: the group ends at the service's last attribute, the walk advances by the same attribute count
    from .lib.linear import Lin, lin
    for q, what in (('bluetoe::details::services_by_group::each', 'find by type value'), ('bluetoe::details::collect_primary_services::each', 'read by group type')):
        for fn in variants(facts, q, chk):
            if fn.kind != 'pattern':
                continue
            adv = [val for tgt, op, val, st in stores(fn.body) if is_name(tgt, 'index_') and op == '+=']
            ok = len(adv) == 1 and lin(fn, adv[0]) == Lin(0, {'number_of_attributes': 1})
            why = 'the walk does not advance by Service::number_of_attributes per service'
            if ok:
                from .lib.paths import explore

                def on_node(ts, node):
                    for tgt, op, val, st in stores(node):
                        if st is node and is_name(tgt, 'index_') and op == '+=':
                            return ts + 1
                    return ts
                res = explore(fn, 0, on_node)
                if not res or any(ts != 1 for ts, tr in res):
                    ok, why = False, 'a path through each() leaves without advancing index_ by the service\'s attributes (e.g. an early return for a service that is not reported): every later service is looked up at the wrong attribute index and is not found'
            hb = [c for c in fn.body.calls('handle_by_index') if must_hold(c) or True]
            ends = []
            for c in fn.body.calls('handle_by_index'):
                x = lin(fn, c.args()[0])
                if x is not None and x.t.get('index_') == 1 and len(x.t) > 1:
                    ends.append((c, x))
            if what == 'find by type value':
                ok2 = len(ends) == 1 and ends[0][1] == Lin(-1, {'index_': 1, 'number_of_attributes': 1})
                if ok and not ok2:
                    ok, why = False, 'Group End Handle is the handle at %s, the service ends at index_ + Service::number_of_attributes - 1 (include declarations and all characteristics): the reported range is %s' % (
                        ends[0][1] if ends else '?', 'too short / too long' )
            chk.instance('group-range', fn, '%s: %s' % (what, 'end = handle_by_index(index_ + number_of_attributes - 1); index_ += number_of_attributes' if what == 'find by type value' else 'index_ += number_of_attributes'), ok, '' if ok else why, key='range ' + what)
    for fn in variants(facts, 'bluetoe::service::read_primary_service_response', chk):
        if fn.kind != 'pattern':
            continue
        ends = []
        for c in fn.body.calls('handle_by_index'):
            x = lin(fn, c.args()[0])
            if x is not None:
                ends.append(x)
        idx = fn.params[2]['n'] if len(fn.params) > 2 else 'index'
        ok = Lin(0, {idx: 1}) in ends and Lin(-1, {idx: 1, 'number_of_attributes': 1}) in ends
        chk.instance('group-range', fn, 'read_primary_service_response: handles at index and index + number_of_attributes - 1', ok, '' if ok else 'Read By Group Type reports a range that is not the service\'s first and last attribute (%s)' % ends, key='range response')
    for name in ('handle_read_by_group_type_request', 'handle_find_by_type_value_request'):
        for fn in variants(facts, 'bluetoe::server::' + name, chk):
            errs = [c for c in fn.body.calls('error_response') if mentions(c, 'unsupported_group_type')]
            ok = len(errs) == 1 and any(mentions(cnd, 'primary_service') for cnd, o in fn.guards(errs[0])) or any(mentions(i.child('cond'), 'primary_service') for e in errs for i, br in enclosing_ifs(e))
            chk.instance('group-type-checked', fn, name, bool(ok), '' if ok else 'other group types are answered as if they were «Primary Service»', key=name)
    # declaration attribute type: `attr { bits( has_option< is_secondary_service, Options... >::value ? secondary_service : primary_service ), &access }`
    decl = [v for v in facts.vars if v['q'] == 'bluetoe::details::generate_attribute::attr' and v['file'].endswith('service.hpp') and any(n.k == 'ConditionalOperator' for n in v['tree'].walk())]
    chk.require(len({(v['file'], v.get('line')) for v in decl}) == 1, 'service declaration attribute definition (generate_attribute<service_defintion_tag,...>::attr) not found')
    for v in decl[:1]:
        c = next(n for n in v['tree'].walk() if n.k == 'ConditionalOperator')
        cond, a, b2 = c.c
        cond = strip_casts(cond)
        if cond.k == 'UnaryOperator' and cond.o == '!' and cond.c:
            cond, a, b2 = strip_casts(cond.c[0]), b2, a      # `!secondary ? primary : secondary`
        ok_c = 'is_secondary_service' in (cond.d.get('qual') or '') and cond.n == 'value'
        chk.obligation('declaration-type-witness', 'service.hpp generate_attribute<service_defintion_tag>::attr', 'type = has_option<is_secondary_service> ? %s : %s' % (strip_casts(a).n, strip_casts(b2).n),
                       ok_c and strip_casts(a).n == 'secondary_service' and strip_casts(b2).n == 'primary_service', 'a secondary service must get the «Secondary Service» declaration type and a primary one «Primary Service»', key='declaration type')
    gu = facts.enum('bluetoe::details::gatt_uuids') or {}
    ok = gu.get('primary_service') == 0x2800 and gu.get('secondary_service') == 0x2801
    chk.obligation('declaration-type-witness', 'enum gatt_uuids', 'primary_service=0x%x secondary_service=0x%x' % (gu.get('primary_service', 0), gu.get('secondary_service', 0)), ok, 'assigned numbers are 0x2800 / 0x2801', key='numbers')
    seen = set()
    for fn in facts.functions:
        if fn.q != 'bluetoe::details::generate_attribute::access' or not fn.file.endswith('service.hpp'):
            continue
        rs = [r for r in fn.returns() if ret_value(r) is not None and ret_value(r).n == 'value_equal']
        if not rs or (fn.kind, fn.line) in seen:
            continue
        seen.add((fn.kind, fn.line))
        arg = fn.params[0]['n']
        for r in rs:
            ats = guard_atoms(fn, r)
            def is_bytes(n, which):
                n = strip_casts(n)
                return n is not None and n.is_call(which) and len(n.args()) == 1 and strip_casts(n.args()[0]).n == 'bytes'
            size_ok = any(op == '==' and not isinstance(l, int) and not isinstance(r2, int) and
                          {True} == {x.k == 'UnaryExprOrTypeTraitExpr' and 'bytes' in x.text() or (x.n == 'buffer_size' and is_name(base_object(x), arg)) for x in (strip_casts(l), strip_casts(r2))}
                          and {strip_casts(l).k, strip_casts(r2).k} == {'UnaryExprOrTypeTraitExpr', 'MemberExpr'} for l, op, r2 in ats)
            eq_ok = False
            for l, op, r2 in ats:
                if isinstance(l, int) or op != '!=' or r2 != 0:
                    continue
                c = strip_casts(l)
                if c.is_call('equal') and len(c.args()) == 3:
                    a0, a1, a2 = c.args()
                    e = elem_addr(a2)
                    whole = is_bytes(a0, 'begin') and is_bytes(a1, 'end')
                    from0 = (e is not None and strip_casts(e[0]).n == 'buffer' and cval(e[1]) == 0) or (strip_casts(a2).n == 'buffer')
                    eq_ok = eq_ok or (whole and from0)
            ok = size_ok and eq_ok
            chk.instance('uuid-match-compares-whole-value', fn, 'value_equal at line %d behind size and whole-value comparison' % r.l, ok,
                         '' if ok else 'a service is reported as matching although %s' % ('the requested value has another length than the service UUID' if not size_ok else 'not the whole requested value was compared with the service UUID'),
                         node=r, key='value_equal:%s' % fn.kind)

