// F36 / C19: an LL control PDU arrives between the fragments of an L2CAP SDU. free_ll_l2cap_received() decided by
// `receive_buffer_used_ != 0` alone whether the reassembly buffer or a link layer PDU was handed out: the partial SDU is
// dropped and the control PDU is handed to the link layer twice.
#include "replay_common.hpp"
#include <deque>
#include <bluetoe/ll_l2cap_sdu_buffer.hpp>
#include <bluetoe/default_pdu_layout.hpp>
using pdu_t = std::vector< std::uint8_t >;
struct radio_mock
{
    static constexpr std::size_t header_size = 2, layout_overhead = 0;
    using layout = b::link_layer::default_pdu_layout;
    b::link_layer::read_buffer allocate_transmit_buffer( std::size_t ) { return { nullptr, 0 }; }
    void commit_transmit_buffer( b::link_layer::read_buffer ) {}
    b::link_layer::write_buffer next_received() const { return received.empty() ? b::link_layer::write_buffer{ nullptr, 0 } : b::link_layer::write_buffer{ received.front().data(), received.front().size() }; }
    void free_received() { if ( !received.empty() ) received.pop_front(); }
    std::size_t max_tx_size() const { return 29; }
    void pdu_receive_data_callback( const b::link_layer::write_buffer& ) {}
    std::deque< pdu_t > received;
};
struct buffer_t : b::link_layer::ll_l2cap_sdu_buffer< radio_mock, radio_mock, 100 > {};

int main()
{
    buffer_t buf;
    // start fragment: L2CAP length 10, channel 4, 6 of 10 payload bytes
    buf.received.push_back( { 0x02, 10, 10, 0, 4, 0, 1, 2, 3, 4, 5, 6 } );
    // LL control PDU (LL_PING_REQ)
    buf.received.push_back( { 0x03, 1, 0x12 } );
    // continuation with the remaining 4 bytes
    buf.received.push_back( { 0x01, 4, 7, 8, 9, 10 } );

    int controls = 0, sdus = 0;
    for ( int i = 0; i != 6; ++i )
    {
        auto pdu = buf.next_ll_l2cap_received();
        if ( pdu.size == 0 ) break;
        if ( ( pdu.buffer[ 0 ] & 3 ) == 3 ) ++controls; else ++sdus;
        std::printf( "delivered: llid %u, %zu bytes\n", pdu.buffer[ 0 ] & 3u, pdu.size );
        buf.free_ll_l2cap_received();
    }
    EXPECT( controls == 1, "the LL control PDU is handed to the link layer exactly once" );
    EXPECT( sdus == 1, "the SDU whose fragments surround the control PDU is delivered" );
    REPLAY_END();
}
