// F15 / C14: server::scan_response_data( buffer, buffer_size ) with the default (auto_scan_response_data) writes the
// two byte empty AD structure without looking at buffer_size (the parameter is unnamed in scan_response_data_impl).
// For buffer_size 0 and 1 it writes behind the buffer and reports a size larger than the buffer.
// (advertising_data() guards the very same trailing empty AD with `end - begin >= 2`.)
#include "replay_common.hpp"

std::uint8_t val = 0;
using server_t = b::server<
    b::service< b::service_uuid16< 0x1000 >,
        b::characteristic< b::characteristic_uuid16< 0x1001 >, b::bind_characteristic_value< std::uint8_t, &val > > >,
    b::no_gap_service_for_gatt_servers >;

int main()
{
    server_t srv;

    for ( std::size_t size = 0; size != 4; ++size )
    {
        // canaries instead of a short allocation, so that the result is visible without a sanitizer
        std::uint8_t buffer[ 4 ] = { 0xAA, 0xAA, 0xAA, 0xAA };
        const std::size_t used = srv.scan_response_data( buffer, size );

        std::printf( "buffer_size = %zu -> returned %zu, buffer: %02x %02x %02x %02x\n", size, used, buffer[ 0 ], buffer[ 1 ], buffer[ 2 ], buffer[ 3 ] );

        bool untouched = true;
        for ( std::size_t i = size; i != sizeof( buffer ); ++i )
            untouched = untouched && buffer[ i ] == 0xAA;

        char text[ 100 ];
        std::snprintf( text, sizeof( text ), "scan_response_data( buffer, %zu ) writes and reports at most %zu bytes", size, size );
        EXPECT( used <= size && untouched, text );
    }

    // the feature is still there: with enough room the empty AD is produced
    std::uint8_t buffer[ 31 ];
    std::memset( buffer, 0xAA, sizeof( buffer ) );
    const std::size_t used = srv.scan_response_data( buffer, sizeof( buffer ) );
    EXPECT( used == 2 && buffer[ 0 ] == 0 && buffer[ 1 ] == 0, "with a 31 byte buffer the empty AD structure { 0, 0 } is produced" );

    REPLAY_END();
}
