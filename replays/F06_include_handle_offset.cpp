// F06 / C04: details::next_char_mapping (attribute_handle.hpp) lets the first characteristic of a service start at
// attribute index StartIndex + 1 / handle service_handle + 1, although a service has 1 + <number of include_service<>>
// attributes in front of its first characteristic. For every include declaration the handle <-> index mapping of
// the service is one attribute too short: the last attribute(s) of the service get handle 0, the service's end handle
// is too small and all following services are shifted (and no longer where the include declaration says).
#include "replay_common.hpp"

using included_service = b::service<
    b::service_uuid16< 0x1111 >,
    b::is_secondary_service,
    b::characteristic< b::characteristic_uuid16< 0x2222 >, b::fixed_uint8_value< 0x11 > > >;

using including_service = b::service<
    b::service_uuid16< 0x3333 >,
    b::include_service< b::service_uuid16< 0x1111 > >,
    b::characteristic< b::characteristic_uuid16< 0x4444 >, b::fixed_uint8_value< 0x22 > > >;

using trailing_service = b::service<
    b::service_uuid16< 0x5555 >,
    b::characteristic< b::characteristic_uuid16< 0x6666 >, b::fixed_uint8_value< 0x33 > > >;

using server_t = b::server< including_service, included_service, trailing_service, b::no_gap_service_for_gatt_servers >;

struct entry { unsigned handle; unsigned uuid; };

int main()
{
    fixture< server_t > f;

    // GATT "Discover All Characteristic Descriptors" like sweep over the whole data base: ATT Find Information
    std::vector< entry > found;
    for ( unsigned start = 1; start != 0 && found.size() < 30; )
    {
        const auto rsp = f.request( { 0x04, std::uint8_t( start & 0xff ), std::uint8_t( start >> 8 ), 0xff, 0xff } );
        dump( "find information", rsp );

        if ( rsp.size() < 6 || rsp[ 0 ] != 0x05 || rsp[ 1 ] != 0x01 )
            break;

        unsigned last = 0;
        for ( std::size_t i = 2; i + 4 <= rsp.size(); i += 4 )
        {
            last = rsp[ i ] | ( rsp[ i + 1 ] << 8 );
            found.push_back( entry{ last, unsigned( rsp[ i + 2 ] | ( rsp[ i + 3 ] << 8 ) ) } );
        }

        if ( last < start )    // do not loop forever on a broken data base
            break;

        start = last + 1;
    }

    static const unsigned expected_uuids[] = {
        0x2800, 0x2802, 0x2803, 0x4444,     // including service: 1 - 4
        0x2801, 0x2803, 0x2222,             // included service:  5 - 7
        0x2800, 0x2803, 0x6666 };           // trailing service:  8 - 10

    bool increasing = true, complete = found.size() == 10;
    for ( std::size_t i = 0; i != found.size(); ++i )
    {
        std::printf( "  handle 0x%04x uuid 0x%04x\n", found[ i ].handle, found[ i ].uuid );
        increasing = increasing && found[ i ].handle != 0 && ( i == 0 || found[ i ].handle > found[ i - 1 ].handle );
        complete   = complete && i < 10 && found[ i ].uuid == expected_uuids[ i ] && found[ i ].handle == i + 1;
    }

    EXPECT( increasing, "Find Information reports non zero, strictly increasing handles" );
    EXPECT( complete, "all 10 declared attributes are found at handles 1..10 in declaration order" );

    // Discover All Primary Services
    const auto groups = f.request( { 0x10, 0x01, 0x00, 0xff, 0xff, 0x00, 0x28 } );
    dump( "read by group type (primary services)", groups );
    // (whether the secondary service 0x1111 is listed too is finding F04 and not looked at here)
    bool first = false, last = false;
    for ( std::size_t i = 2; groups.size() >= 2 && groups[ 0 ] == 0x11 && groups[ 1 ] == 6 && i + 6 <= groups.size(); i += 6 )
    {
        static const std::uint8_t expected_first[] = { 0x01, 0x00, 0x04, 0x00, 0x33, 0x33 };
        static const std::uint8_t expected_last[]  = { 0x08, 0x00, 0x0a, 0x00, 0x55, 0x55 };
        first = first || std::equal( std::begin( expected_first ), std::end( expected_first ), &groups[ i ] );
        last  = last  || std::equal( std::begin( expected_last ), std::end( expected_last ), &groups[ i ] );
    }
    EXPECT( first, "primary service 0x3333 reported with group 1..4" );
    EXPECT( last, "primary service 0x5555 reported with group 8..10" );

    // the include declaration and what is really found at the handles it names
    const auto include = f.request( { 0x0a, 0x02, 0x00 } );
    dump( "read include declaration (handle 2)", include );
    EXPECT( include.size() == 7 && include[ 0 ] == 0x0b, "include declaration readable at handle 2" );
    if ( include.size() == 7 )
    {
        const std::uint8_t lo = include[ 1 ], hi = include[ 2 ];
        const auto target = f.request( { 0x0a, lo, hi } );
        dump( "read attribute at the included service's start handle", target );
        EXPECT( ( target == std::vector< std::uint8_t >{ 0x0b, 0x11, 0x11 } ), "handle named by the include declaration is the declaration of service 0x1111" );
    }

    // the characteristic declaration of 0x4444 names the handle of its value
    const auto decl = f.request( { 0x0a, 0x03, 0x00 } );
    dump( "read handle 3", decl );
    EXPECT( ( decl == std::vector< std::uint8_t >{ 0x0b, 0x02, 0x04, 0x00, 0x44, 0x44 } ), "handle 3 is the declaration of characteristic 0x4444 with value handle 4" );
    const auto value = f.request( { 0x0a, 0x04, 0x00 } );
    dump( "read handle 4", value );
    EXPECT( ( value == std::vector< std::uint8_t >{ 0x0b, 0x22 } ), "handle 4 is the value of characteristic 0x4444" );

    REPLAY_END();
}
