// F12 / C10: server::notify( const T& value ) -> find_notification_data( &value ) computes the client characteristic
// configuration index by counting through the *declaration ordered* list of characteristics, while the CCCD attributes,
// find_notification_data_by_index() and find_notification_by_uuid use positions in the *priority sorted* list.
// With higher_outgoing_priority<> reordering the characteristics, notify( a ) yields the CCCD index of another
// characteristic: the wrong subscription is consulted (a subscribed client gets nothing, an unsubscribed one gets data).
#include "replay_common.hpp"

std::uint8_t val_a = 0xA1;
std::uint8_t val_b = 0xB2;

using uuid_a = b::characteristic_uuid16< 0x1001 >;
using uuid_b = b::characteristic_uuid16< 0x1002 >;

using server_t = b::server<
    b::service< b::service_uuid16< 0x1000 >,
        // handles: 2 decl, 3 value, 4 CCCD
        b::characteristic< uuid_a, b::bind_characteristic_value< std::uint8_t, &val_a >, b::notify >,
        // handles: 5 decl, 6 value, 7 CCCD
        b::characteristic< uuid_b, b::bind_characteristic_value< std::uint8_t, &val_b >, b::notify >,
        b::higher_outgoing_priority< uuid_b >
    >,
    b::no_gap_service_for_gatt_servers >;

int main()
{
    // history 1: the client subscribes to a only; the application notifies a by value
    {
        fixture< server_t > f;
        auto r = f.request( { 0x12, 0x04, 0x00, 0x01, 0x00 } );
        dump( "subscribe a (CCCD handle 4)", r );
        EXPECT( r.size() == 1 && r[ 0 ] == 0x13, "subscription to a accepted" );

        f.notify( val_a );
        auto pdu = f.output();
        dump( "output after notify( val_a )", pdu );
        EXPECT( pdu.size() == 4 && pdu[ 0 ] == 0x1B && pdu[ 1 ] == 0x03 && pdu[ 2 ] == 0x00 && pdu[ 3 ] == 0xA1,
            "client subscribed to a receives the notification of a (handle 3, value a1)" );

        // same request through the uuid based API as cross check
        f.notify< uuid_a >();
        pdu = f.output();
        dump( "output after notify< uuid_a >()", pdu );
        EXPECT( pdu.size() == 4 && pdu[ 1 ] == 0x03, "notify by uuid reaches the subscribed client" );
    }

    // history 2: the client subscribes to b only; the application notifies a by value
    {
        fixture< server_t > f;
        auto r = f.request( { 0x12, 0x07, 0x00, 0x01, 0x00 } );
        dump( "subscribe b (CCCD handle 7)", r );

        f.notify( val_a );
        auto pdu = f.output();
        dump( "output after notify( val_a )", pdu );
        EXPECT( pdu.size() == 0, "client that is not subscribed to a receives nothing when a is notified" );
    }

    REPLAY_END();
}
