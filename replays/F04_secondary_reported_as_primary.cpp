// F04 / C03: primary service discovery reports services that are declared as secondary services
#include "replay_common.hpp"

std::uint8_t v1, v2, v3;

using server_t = b::server<
    b::service< b::service_uuid16< 0x1111 >,
        b::characteristic< b::characteristic_uuid16< 0xAAA1 >, b::bind_characteristic_value< std::uint8_t, &v1 > > >,   // 1..3
    b::service< b::service_uuid16< 0x2222 >, b::is_secondary_service,
        b::characteristic< b::characteristic_uuid16< 0xAAA2 >, b::bind_characteristic_value< std::uint8_t, &v2 > > >,   // 4..6
    b::service< b::service_uuid16< 0x3333 >,
        b::characteristic< b::characteristic_uuid16< 0xAAA3 >, b::bind_characteristic_value< std::uint8_t, &v3 > > >,   // 7..9
    b::no_gap_service_for_gatt_servers >;

using bytes = std::vector< std::uint8_t >;

int main()
{
    fixture< server_t > f;

    // the declaration of the second service is of type <<Secondary Service>>
    auto rsp = f.request( { 0x08, 0x01, 0x00, 0xff, 0xff, 0x01, 0x28 } );
    dump( "Read By Type <<Secondary Service>>", rsp );
    EXPECT( ( rsp == bytes{ 0x09, 0x04, 0x04, 0x00, 0x22, 0x22 } ), "service 0x2222 at handle 4 is declared as <<Secondary Service>>" );

    // Discover All Primary Services: Read By Group Type Request 0x0001..0xffff, <<Primary Service>>
    rsp = f.request( { 0x10, 0x01, 0x00, 0xff, 0xff, 0x00, 0x28 } );
    dump( "Read By Group Type <<Primary Service>>", rsp );
    EXPECT( ( rsp == bytes{ 0x11, 0x06, 0x01, 0x00, 0x03, 0x00, 0x11, 0x11, 0x07, 0x00, 0x09, 0x00, 0x33, 0x33 } ),
        "Read By Group Type <<Primary Service>> reports 0x1111 and 0x3333 but not the secondary service 0x2222" );

    rsp = f.request( { 0x10, 0x04, 0x00, 0x05, 0x00, 0x00, 0x28 } );
    dump( "Read By Group Type <<Primary Service>> 4..5", rsp );
    EXPECT( ( rsp == bytes{ 0x01, 0x10, 0x04, 0x00, 0x0a } ),
        "Read By Group Type <<Primary Service>> 0x0004-0x0005 answers Attribute Not Found" );

    // Discover Primary Service by Service UUID: Find By Type Value Request 0x0001..0xffff, <<Primary Service>>, 0x2222
    rsp = f.request( { 0x06, 0x01, 0x00, 0xff, 0xff, 0x00, 0x28, 0x22, 0x22 } );
    dump( "Find By Type Value <<Primary Service>> 0x2222", rsp );
    EXPECT( ( rsp == bytes{ 0x01, 0x06, 0x01, 0x00, 0x0a } ),
        "Find By Type Value <<Primary Service>> = 0x2222 answers Attribute Not Found" );

    // primary services are still found
    rsp = f.request( { 0x06, 0x01, 0x00, 0xff, 0xff, 0x00, 0x28, 0x33, 0x33 } );
    dump( "Find By Type Value <<Primary Service>> 0x3333", rsp );
    EXPECT( ( rsp == bytes{ 0x07, 0x07, 0x00, 0x09, 0x00 } ), "Find By Type Value <<Primary Service>> = 0x3333 finds 0x0007-0x0009" );

    REPLAY_END();
}
