// F01 / C02: collect_primary_services (Read By Group Type) uses the raw ending *handle* as ending attribute *index*.
#include "replay_common.hpp"

std::uint8_t v1, v2, v3;

// attribute handles fixed by the application: 0x10..0x12, 0x20..0x22, 0x30..0x32
using fixed_server = b::server<
    b::service< b::service_uuid16< 0x1111 >, b::attribute_handle< 0x10 >,
        b::characteristic< b::characteristic_uuid16< 0xAAA1 >, b::bind_characteristic_value< std::uint8_t, &v1 > > >,
    b::service< b::service_uuid16< 0x2222 >, b::attribute_handle< 0x20 >,
        b::characteristic< b::characteristic_uuid16< 0xAAA2 >, b::bind_characteristic_value< std::uint8_t, &v2 > > >,
    b::service< b::service_uuid16< 0x3333 >, b::attribute_handle< 0x30 >,
        b::characteristic< b::characteristic_uuid16< 0xAAA3 >, b::bind_characteristic_value< std::uint8_t, &v3 > > >,
    b::no_gap_service_for_gatt_servers >;

// default handles: 1..3, 4..6
using plain_server = b::server<
    b::service< b::service_uuid16< 0x1111 >,
        b::characteristic< b::characteristic_uuid16< 0xAAA1 >, b::bind_characteristic_value< std::uint8_t, &v1 > > >,
    b::service< b::service_uuid16< 0x2222 >,
        b::characteristic< b::characteristic_uuid16< 0xAAA2 >, b::bind_characteristic_value< std::uint8_t, &v2 > > >,
    b::no_gap_service_for_gatt_servers >;

using bytes = std::vector< std::uint8_t >;

int main()
{
    {
        fixture< fixed_server > f;
        // Read By Group Type Request, 0x0001..0x0015, <<Primary Service>>
        auto rsp = f.request( { 0x10, 0x01, 0x00, 0x15, 0x00, 0x00, 0x28 } );
        dump( "fixed handles, 0x0001..0x0015", rsp );
        EXPECT( ( rsp == bytes{ 0x11, 0x06, 0x10, 0x00, 0x12, 0x00, 0x11, 0x11 } ),
            "Read By Group Type 0x0001-0x0015 reports only the service at 0x0010-0x0012" );

        rsp = f.request( { 0x10, 0x13, 0x00, 0x2f, 0x00, 0x00, 0x28 } );
        dump( "fixed handles, 0x0013..0x002f", rsp );
        EXPECT( ( rsp == bytes{ 0x11, 0x06, 0x20, 0x00, 0x22, 0x00, 0x22, 0x22 } ),
            "Read By Group Type 0x0013-0x002f reports only the service at 0x0020-0x0022" );

        rsp = f.request( { 0x10, 0x01, 0x00, 0x05, 0x00, 0x00, 0x28 } );
        dump( "fixed handles, 0x0001..0x0005", rsp );
        EXPECT( ( rsp == bytes{ 0x01, 0x10, 0x01, 0x00, 0x0a } ),
            "Read By Group Type 0x0001-0x0005 (in front of the first attribute) answers Attribute Not Found" );

        rsp = f.request( { 0x10, 0x01, 0x00, 0xff, 0xff, 0x00, 0x28 } );
        dump( "fixed handles, 0x0001..0xffff", rsp );
        EXPECT( ( rsp == bytes{ 0x11, 0x06, 0x10, 0x00, 0x12, 0x00, 0x11, 0x11, 0x20, 0x00, 0x22, 0x00, 0x22, 0x22, 0x30, 0x00, 0x32, 0x00, 0x33, 0x33 } ),
            "Read By Group Type 0x0001-0xffff reports all three services" );
    }
    {
        fixture< plain_server > f;
        auto rsp = f.request( { 0x10, 0x01, 0x00, 0x03, 0x00, 0x00, 0x28 } );
        dump( "default handles, 0x0001..0x0003", rsp );
        EXPECT( ( rsp == bytes{ 0x11, 0x06, 0x01, 0x00, 0x03, 0x00, 0x11, 0x11 } ),
            "Read By Group Type 0x0001-0x0003 reports only the service at 0x0001-0x0003 (not the one starting at 0x0004)" );

        rsp = f.request( { 0x10, 0x01, 0x00, 0x04, 0x00, 0x00, 0x28 } );
        dump( "default handles, 0x0001..0x0004", rsp );
        EXPECT( ( rsp == bytes{ 0x11, 0x06, 0x01, 0x00, 0x03, 0x00, 0x11, 0x11, 0x04, 0x00, 0x06, 0x00, 0x22, 0x22 } ),
            "Read By Group Type 0x0001-0x0004 reports both services" );
    }
    REPLAY_END();
}
