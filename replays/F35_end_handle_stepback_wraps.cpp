// F35 / C02: the "step back" from first_index_by_handle(ending_handle) wraps at index 0, so a request range that lies
// completely in front of the first attribute (fixed handles) is treated as "no upper bound".
#include "replay_common.hpp"
std::uint8_t a, c;
using server_t = b::server<
    b::service< b::service_uuid16< 0x1111 >, b::attribute_handle< 0x10 >,
        b::characteristic< b::characteristic_uuid16< 0xAAAA >, b::bind_characteristic_value< std::uint8_t, &a > > >,
    b::service< b::service_uuid16< 0x2222 >, b::attribute_handle< 0x20 >,
        b::characteristic< b::characteristic_uuid16< 0xBBBB >, b::bind_characteristic_value< std::uint8_t, &c > > >,
    b::no_gap_service_for_gatt_servers >;

int main()
{
    fixture< server_t > f;
    // Find Information 0x0001..0x0005: no attribute has a handle in that range
    auto r1 = f.request( { 0x04, 0x01, 0x00, 0x05, 0x00 } );
    dump( "find information 1..5", r1 );
    EXPECT( r1.size() == 5 && r1[ 0 ] == 0x01 && r1[ 4 ] == 0x0a, "Find Information 1..5 answers Attribute Not Found" );
    // Find By Type Value 1..5 for primary service 0x2222 (which sits at 0x20)
    auto r2 = f.request( { 0x06, 0x01, 0x00, 0x05, 0x00, 0x00, 0x28, 0x22, 0x22 } );
    dump( "find by type value 1..5", r2 );
    EXPECT( r2.size() == 5 && r2[ 0 ] == 0x01 && r2[ 4 ] == 0x0a, "Find By Type Value 1..5 answers Attribute Not Found" );
    // Find Information 0x13..0x1f: a gap between the two services
    auto r3 = f.request( { 0x04, 0x13, 0x00, 0x1f, 0x00 } );
    dump( "find information 0x13..0x1f", r3 );
    EXPECT( r3.size() == 5 && r3[ 0 ] == 0x01 && r3[ 4 ] == 0x0a, "Find Information inside a gap answers Attribute Not Found (not an empty response)" );
    REPLAY_END();
}
