// F18 / C19: ll_l2cap_sdu_buffer::next_ll_l2cap_received(): a start fragment that arrives while a reassembly is in
// progress does not restart the reassembly: receive_size_ is set for the new SDU, but receive_buffer_used_ keeps the
// bytes of the abandoned SDU. The new SDU is appended to the old fragment (and can run over the end of receive_buffer_).
// If the new start fragment is a complete, unfragmented SDU, it is handed out directly, but free_ll_l2cap_received()
// then only drops the stale reassembly state and the same SDU is delivered a second time.
//
// The real ll_data_pdu_buffer is used as BufferedRadio; PDUs enter through received() as from the radio ISR.
#include <iterator>
#include <tuple>
#include <array>
#include <cstdint>
#include <cstddef>
#include <cstring>
#include <cstdio>
#include <cassert>
#include <vector>
#include <bluetoe/ll_data_pdu_buffer.hpp>
#include <bluetoe/ll_l2cap_sdu_buffer.hpp>

static int failures = 0;
#define EXPECT( cond, text ) do { if ( !( cond ) ) { std::printf( "DEFECT: %s\n", text ); ++failures; } else { std::printf( "ok: %s\n", text ); } } while ( 0 )

namespace ll = bluetoe::link_layer;

struct lock_guard_t {};

static constexpr std::size_t mtu = 40;

struct radio_t : ll::ll_l2cap_sdu_buffer< ll::ll_data_pdu_buffer< 200, 600, radio_t >, radio_t, mtu >
{
    using lock_guard = lock_guard_t;
    using pdu_layout = ll::default_pdu_layout;

    void increment_receive_packet_counter()  {}
    void increment_transmit_packet_counter() {}
    void pdu_receive_data_callback( const ll::write_buffer& ) {}

    bool sn = false;

    // what the radio ISR does with a received data PDU with valid CRC
    // (SN and NESN as a well behaving central that received every response would set them)
    ll::write_buffer air( std::uint8_t llid, const std::vector< std::uint8_t >& body )
    {
        auto pdu = this->allocate_receive_buffer();
        assert( pdu.size >= body.size() + 2 );
        pdu_layout::header( pdu, llid | ( sn ? 8 : 0 ) | ( sn ? 4 : 0 ) | ( body.size() << 8 ) );
        std::copy( body.begin(), body.end(), pdu.buffer + 2 );
        sn = !sn;
        return this->received( pdu );
    }

    std::vector< std::uint8_t > deliver()
    {
        const auto sdu = this->next_ll_l2cap_received();
        std::vector< std::uint8_t > result;
        if ( sdu.size > mtu + 6 )
        {
            std::printf( "DEFECT: delivered SDU (%zu bytes) is larger than the reassembly buffer\n", sdu.size );
            ++failures;
        }
        else if ( sdu.size )
        {
            // what link_layer::handle_received_data() hands to the L2CAP layer
            result.assign( sdu.buffer + 2, sdu.buffer + sdu.size );
            this->free_ll_l2cap_received();
        }
        return result;
    }

    bool something_to_transmit()
    {
        return this->pending_outgoing_data_available();
    }
};

static void dump( const char* what, const std::vector< std::uint8_t >& v )
{
    std::printf( "%s [%zu]:", what, v.size() );
    for ( auto c : v ) std::printf( " %02x", c );
    std::printf( "\n" );
}

int main()
{
    std::setvbuf( stdout, nullptr, _IONBF, 0 );

    const std::vector< std::uint8_t > first_a  = { 20, 0, 0x04, 0x00, 0xa1, 0xa2, 0xa3, 0xa4, 0xa5, 0xa6 };
    const std::vector< std::uint8_t > first_b  = { 20, 0, 0x04, 0x00, 0xb1, 0xb2, 0xb3, 0xb4, 0xb5, 0xb6 };
    const std::vector< std::uint8_t > second_b = { 0xb7, 0xb8, 0xb9, 0xba, 0xbb, 0xbc, 0xbd, 0xbe, 0xbf, 0xc0, 0xc1, 0xc2, 0xc3, 0xc4 };

    // Scenario 1: SDU A is started, but never finished. Central starts SDU B (20 bytes payload, two fragments).
    {
        radio_t radio;
        radio.reset_pdu_buffer();

        radio.air( 2, first_a );
        EXPECT( radio.deliver().empty(), "nothing delivered while SDU A is incomplete" );
        radio.air( 2, first_b );
        EXPECT( radio.deliver().empty(), "nothing delivered while SDU B is incomplete" );
        radio.air( 1, second_b );

        const auto sdu = radio.deliver();
        dump( "delivered", sdu );

        std::vector< std::uint8_t > expected = first_b;
        expected.insert( expected.end(), second_b.begin(), second_b.end() );

        EXPECT( sdu == expected, "a new start fragment restarts the reassembly: SDU B is delivered as sent" );
        EXPECT( radio.deliver().empty(), "nothing else is delivered" );
    }

    // Scenario 2: SDU A is started, but never finished. Central then sends a complete, unfragmented SDU C
    // (ATT Write Command, handle 3, value 0x42).
    {
        radio_t radio;
        radio.reset_pdu_buffer();

        const std::vector< std::uint8_t > write_cmd = { 0x04, 0x00, 0x04, 0x00, 0x52, 0x03, 0x00, 0x42 };

        radio.air( 2, first_a );
        EXPECT( radio.deliver().empty(), "nothing delivered while SDU A is incomplete" );
        radio.air( 2, write_cmd );

        EXPECT( radio.deliver() == write_cmd, "unfragmented SDU C is delivered" );
        const auto again = radio.deliver();
        dump( "delivered by the next call", again );
        EXPECT( again.empty(), "SDU C is delivered exactly once" );
    }

    return failures ? 1 : 0;
}
