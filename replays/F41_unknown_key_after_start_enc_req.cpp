// F41 (C28): an encryption request for an unknown key must never lead to an encrypted link.
// Sequence: LL_ENC_REQ for a known EDIV/Rand (the peripheral answers LL_ENC_RSP + LL_START_ENC_REQ and remembers that it asked),
// then - instead of LL_START_ENC_RSP - a second LL_ENC_REQ for an UNKNOWN EDIV/Rand (rejected with LL_REJECT_EXT_IND, the
// encryption is set up with the all zero key find_key() returned), then LL_START_ENC_RSP.
// Before the repair the remembered "LL_START_ENC_REQ was sent" of the first request survived the second one: the link was
// reported as encrypted and a characteristic that requires encryption could be read.
// Build: see replays/README (same command line as the link layer tests: test_radio.cpp test_servers.cpp hexdump.cpp + link layer .cpp).
// (test fixture derived from a demonstration written by a seeding sub-agent; it drives the real link layer through tests/link_layer/connected.hpp)
#define BOOST_TEST_MODULE
#include <boost/test/included/unit_test.hpp>

#include <iterator>
#include <tuple>
#include <array>
#include <cstdint>
#include <cstring>
#include <vector>

#include "connected.hpp"
#include <bluetoe/pairing_status.hpp>

namespace demo {
    std::uint16_t secret_value = 0x4711;

    using secret_service = bluetoe::server<
        bluetoe::service<
            bluetoe::service_uuid< 0x8C8B4094, 0x0DE2, 0x499F, 0xA28A, 0x4EED5BC73CA9 >,
            bluetoe::characteristic<
                bluetoe::characteristic_uuid< 0x8C8B4094, 0x0DE2, 0x499F, 0xA28A, 0x4EED5BC73CAA >,
                bluetoe::bind_characteristic_value< decltype( secret_value ), &secret_value >,
                bluetoe::no_write_access
            >,
            bluetoe::requires_encryption
        >
    >;

    const bluetoe::details::uint128_t example_key = { {
        0x01, 0x80, 0x02, 0x70, 0x03, 0x60, 0x04, 0x50,
        0x05, 0x40, 0x06, 0x30, 0x07, 0x20, 0x08, 0x10
    } };

    /*
     * mocked security manager: exactly one key is known: EDIV = 0x1234, Rand = 0x7766554433221100
     */
    struct security_manager
    {
        template < typename ... >
        class impl
        {
        public:
            template < class OtherConnectionData >
            class channel_data_t : public OtherConnectionData
            {
            public:
                std::pair< bool, bluetoe::details::uint128_t > find_key( std::uint16_t ediv, std::uint64_t rand ) const
                {
                    if ( ediv == 0x1234 && rand == 0x7766554433221100u )
                        return { true, example_key };

                    return { false, bluetoe::details::uint128_t{ { 0 } } };
                }

                void remote_connection_created( const bluetoe::link_layer::device_address& )
                {
                }

                bluetoe::device_pairing_status local_device_pairing_status() const
                {
                    return bluetoe::device_pairing_status::unauthenticated_key;
                }

                template < typename Connection >
                void restore_bonded_cccds( Connection& )
                {
                }
            };

            template < class Connection >
            void l2cap_input( const std::uint8_t*, std::size_t, std::uint8_t*, std::size_t& out_size, Connection& )
            {
                out_size = 0;
            }

            template < class Connection >
            bool security_manager_output_available( Connection& ) const
            {
                return false;
            }

            template < class Connection >
            void l2cap_output( std::uint8_t*, std::size_t& out_size, Connection& )
            {
                out_size = 0;
            }

            static constexpr std::uint16_t channel_id               = bluetoe::l2cap_channel_ids::sm;
            static constexpr std::size_t   minimum_channel_mtu_size = bluetoe::details::default_att_mtu_size;
            static constexpr std::size_t   maximum_channel_mtu_size = bluetoe::details::default_att_mtu_size;
        };

        struct meta_type :
            bluetoe::details::security_manager_meta_type,
            bluetoe::link_layer::details::valid_link_layer_option_meta_type {};
    };
}

struct secure_link : unconnected_base_t< demo::secret_service, test::radio_with_encryption, demo::security_manager, test::buffer_sizes >
{
    secure_link()
    {
        respond_to( 37, valid_connection_request_pdu );
    }

    void enc_req_known_key()
    {
        ll_control_pdu({
            0x03,                                   // LL_ENC_REQ
            0x00, 0x11, 0x22, 0x33,                 // Rand
            0x44, 0x55, 0x66, 0x77,
            0x34, 0x12,                             // EDIV
            0x00, 0x10, 0x20, 0x30,                 // SKDm
            0x40, 0x50, 0x60, 0x70,
            0xab, 0xbc, 0x12, 0x34,                 // IVm
        });
        // LL_ENC_RSP and LL_START_ENC_REQ / LL_REJECT_EXT_IND might need two connection events
        ll_empty_pdus( 3 );
    }

    void enc_req_unknown_key()
    {
        ll_control_pdu({
            0x03,                                   // LL_ENC_REQ
            0x01, 0x02, 0x03, 0x04,                 // Rand
            0x05, 0x06, 0x07, 0x08,
            0x99, 0x99,                             // EDIV
            0x00, 0x10, 0x20, 0x30,                 // SKDm
            0x40, 0x50, 0x60, 0x70,
            0xab, 0xbc, 0x12, 0x34,                 // IVm
        });
        // LL_ENC_RSP and LL_START_ENC_REQ / LL_REJECT_EXT_IND might need two connection events
        ll_empty_pdus( 3 );
    }

    // every PDU of the central is followed by a connection event with an empty PDU to give the peripheral room to respond
    void start_enc_rsp() { ll_control_pdu( { 0x06 } ); ll_empty_pdu(); }
    void pause_enc_req() { ll_control_pdu( { 0x0A } ); ll_empty_pdu(); }
    void pause_enc_rsp() { ll_control_pdu( { 0x0B } ); ll_empty_pdu(); }

    void read_secret()
    {
        ll_data_pdu( {
            0x03, 0x00,         // length
            0x04, 0x00,         // ATT channel
            0x0A, 0x03, 0x00    // ATT Read Request, handle 3
        } );
        ll_empty_pdu();
    }

    /*
     * all ATT responses to the Read Requests in the order they where transmitted:
     * true: the value was delivered; false: Error Response
     */
    std::vector< bool > read_results()
    {
        std::vector< bool > result;

        for ( const auto& event : connection_events() )
        {
            for ( const auto& pdu : event.transmitted_data )
            {
                const auto& d = pdu.data;

                if ( d.size() >= 7 && ( d[ 0 ] & 0x03 ) == 0x02 && d[ 4 ] == 0x04 && d[ 5 ] == 0x00 )
                {
                    if ( d[ 6 ] == 0x0B )
                        result.push_back( true );
                    else if ( d[ 6 ] == 0x01 )
                        result.push_back( false );
                }
            }
        }

        return result;
    }

    void check_reads( std::initializer_list< bool > expected_list )
    {
        const std::vector< bool > expected( expected_list );
        const std::vector< bool > found = read_results();

        BOOST_REQUIRE_EQUAL( found.size(), expected.size() );

        for ( std::size_t i = 0; i != found.size(); ++i )
        {
            if ( found[ i ] != expected[ i ] )
                std::cout << "Read Request #" << ( i + 1 ) << ( found[ i ]
                    ? ": protected value delivered, but the link must not be encrypted"
                    : ": Error Response, but the link should be encrypted" ) << std::endl;

            BOOST_CHECK_EQUAL( found[ i ], expected[ i ] );
        }
    }
};

/*
 * control: the plain procedure works
 */
BOOST_FIXTURE_TEST_CASE( plain_start, secure_link )
{
    read_secret();          // #1 unencrypted
    enc_req_known_key();
    start_enc_rsp();
    read_secret();          // #2 encrypted
    ll_empty_pdus( 3 );

    run();

    check_reads( { false, true } );
}

/*
 * a request for an unknown key in the middle of an encryption start procedure
 */
BOOST_FIXTURE_TEST_CASE( unknown_key_request_replaces_pending_start, secure_link )
{
    enc_req_known_key();    // LL_ENC_RSP, LL_START_ENC_REQ sent
    enc_req_unknown_key();  // LL_ENC_RSP, LL_REJECT_EXT_IND: no key
    start_enc_rsp();        // belongs to no LL_START_ENC_REQ of the current (rejected) request
    read_secret();          // #1 must fail
    ll_empty_pdus( 3 );

    run();

    check_reads( { false } );
}
