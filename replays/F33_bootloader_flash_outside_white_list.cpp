// F33 / C39: the bootloader only checks the white list for the single start address of Start Flash
// ( MemRegions::acceptable( start_address, start_address ) ). Not checked are
//  (1) the pages that follow when the client keeps sending data: controller::find_next_buffer() hands the running
//      address to flash_buffer::set_start_address() without asking MemRegions,
//  (2) the address "one behind" a region (regions have an exclusive end, acceptable( End, End ) is true),
//  (3) the rounding to whole pages in flash_buffer::set_start_address() ( addr_ = address - address % PageSize ):
//      the page that is read and flashed may begin in front of the region.
// In all three cases the handler is asked to read_mem() / start_flash() memory outside of the white list.
//
// run: BT_REPO=<repo> ./run.sh F33_bootloader_flash_outside_white_list.cpp
#include "replay_common.hpp"
#include <bluetoe/services/bootloader.hpp>

static constexpr std::uintptr_t page = 0x100;

template < std::uintptr_t Start, std::uintptr_t End >
struct handler_t
{
    std::pair< const std::uint8_t*, std::size_t > get_version()
    {
        static const std::uint8_t version[] = { 0x47, 0x11 };
        return { version, sizeof( version ) };
    }

    void touch( const char* what, std::uintptr_t address, std::size_t size )
    {
        if ( size == 0 )
            return;

        const bool inside = address >= Start && address + size <= End;
        std::printf( "   %s( 0x%lx, 0x%zx )%s\n", what, static_cast< unsigned long >( address ), size, inside ? "" : "   <-- outside of the white list" );

        if ( !inside )
            ++outside;
    }

    void read_mem( std::uintptr_t address, std::size_t size, std::uint8_t* destination )
    {
        touch( "read_mem", address, size );
        std::fill( destination, destination + size, 0xee );
    }

    b::bootloader::error_codes start_flash( std::uintptr_t address, const std::uint8_t*, std::size_t size )
    {
        touch( "start_flash", address, size );
        ++flashed;
        return b::bootloader::error_codes::success;
    }

    std::uint32_t checksum32( std::uintptr_t, std::size_t ) { return 0; }
    std::uint32_t checksum32( const std::uint8_t*, std::size_t, std::uint32_t crc ) { return crc; }
    std::uint32_t checksum32( std::uintptr_t ) { return 0; }
    std::uint32_t public_checksum32( std::uintptr_t, std::size_t ) { return 0; }
    b::bootloader::error_codes public_read_mem( std::uintptr_t, std::size_t, std::uint8_t* ) { return b::bootloader::error_codes::success; }
    b::bootloader::error_codes run( std::uintptr_t ) { return b::bootloader::error_codes::success; }
    b::bootloader::error_codes reset() { return b::bootloader::error_codes::success; }
    void control_point_notification_call_back() {}
    void data_indication_call_back() {}

    int outside = 0;
    int flashed = 0;
};

template < std::uintptr_t Start, std::uintptr_t End >
using server_t = b::server<
    b::bootloader_service<
        b::bootloader::page_size< page >,
        b::bootloader::handler< handler_t< Start, End > >,
        b::bootloader::white_list< b::bootloader::memory_region< Start, End > > >,
    b::no_gap_service_for_gatt_servers >;

static constexpr std::uint8_t cp_value_handle   = 0x03;
static constexpr std::uint8_t data_value_handle = 0x06;

template < class F >
std::vector< std::uint8_t > start_flash( F& f, std::uintptr_t address )
{
    std::vector< std::uint8_t > pdu = { 0x12, cp_value_handle, 0x00, 0x03 };
    for ( std::size_t i = 0; i != sizeof( address ); ++i, address >>= 8 )
        pdu.push_back( address & 0xff );

    return f.request( pdu );
}

// writes size bytes to the data characteristic; returns the last response
template < class F >
std::vector< std::uint8_t > write_data( F& f, std::size_t size )
{
    std::vector< std::uint8_t > rsp;
    while ( size )
    {
        const std::size_t chunk = std::min< std::size_t >( size, 20 );
        std::vector< std::uint8_t > pdu = { 0x12, data_value_handle, 0x00 };
        pdu.resize( 3 + chunk, 0x55 );
        rsp = f.request( pdu );
        size -= chunk;

        if ( rsp != std::vector< std::uint8_t >{ 0x13 } )
            break;
    }

    return rsp;
}

template < class F >
std::vector< std::uint8_t > flush( F& f )
{
    return f.request( { 0x12, cp_value_handle, 0x00, 0x05 } );
}

template < class F >
void prepare( F& f )
{
    // harness sanity: the handles used are the value handles of the control point and the data characteristic
    const auto decl1 = f.request( { 0x08, 0x01, 0x00, 0xff, 0xff, 0x03, 0x28 } );
    const auto decl2 = f.request( { 0x08, 0x04, 0x00, 0xff, 0xff, 0x03, 0x28 } );
    if ( decl1.size() < 7 || decl1[ 0 ] != 0x09 || decl1[ 5 ] != cp_value_handle || decl2.size() < 7 || decl2[ 0 ] != 0x09 || decl2[ 5 ] != data_value_handle )
    {
        dump( "unexpected attribute layout", decl1 );
        dump( "unexpected attribute layout", decl2 );
        std::exit( 3 );
    }
    f.request( { 0x12, 0x04, 0x00, 0x01, 0x00 } );  // subscribe control point
}

static bool is_error( const std::vector< std::uint8_t >& rsp )
{
    return rsp.size() == 5 && rsp[ 0 ] == 0x01;
}

int main()
{
    {
        std::printf( "--- (1) white list 0x1000..0x1400: Start Flash at 0x1300 (last page), then 0x100 + 1 bytes of data and Flush\n" );
        fixture< server_t< 0x1000, 0x1400 > > f;
        prepare( f );

        dump( "start flash 0x1300", start_flash( f, 0x1300 ) );
        dump( "0x100 bytes", write_data( f, 0x100 ) );
        const auto beyond = write_data( f, 1 );
        dump( "1 more byte (address 0x1400)", beyond );
        dump( "flush", flush( f ) );

        EXPECT( f.outside == 0, "data behind the end of the white listed region is not flashed" );
        EXPECT( is_error( beyond ), "data behind the end of the white listed region is rejected" );
        EXPECT( f.flashed == 1, "the last page of the region was flashed" );
    }

    {
        std::printf( "--- (2) white list 0x1000..0x1400: Start Flash at 0x1400 (first byte behind the region), 1 byte, Flush\n" );
        fixture< server_t< 0x1000, 0x1400 > > f;
        prepare( f );

        const auto rsp = start_flash( f, 0x1400 );
        dump( "start flash 0x1400", rsp );
        write_data( f, 1 );
        flush( f );

        EXPECT( is_error( rsp ), "Start Flash at the first address behind a region is rejected" );
        EXPECT( f.outside == 0, "nothing outside of the white list is read or flashed" );
    }

    {
        std::printf( "--- (3) white list 0x1080..0x1400 (starts in the middle of a page): Start Flash at 0x1080, 1 byte, Flush\n" );
        fixture< server_t< 0x1080, 0x1400 > > f;
        prepare( f );

        dump( "start flash 0x1080", start_flash( f, 0x1080 ) );
        write_data( f, 1 );
        flush( f );

        EXPECT( f.outside == 0, "the page in front of the region start is neither read nor flashed" );
    }

    {
        std::printf( "--- control: white list 0x1000..0x1400: flash the last two pages completely\n" );
        fixture< server_t< 0x1000, 0x1400 > > f;
        prepare( f );

        const auto rsp  = start_flash( f, 0x1200 );
        const auto data = write_data( f, 0x200 );
        EXPECT( rsp == std::vector< std::uint8_t >{ 0x13 } && data == std::vector< std::uint8_t >{ 0x13 } && f.flashed == 2 && f.outside == 0,
            "flashing up to the very end of the region works" );
    }

    REPLAY_END();
}
