// F20 (C21): the deferred LL control PDU is only referenced (defered_ll_control_pdu_ = pdu) while its buffer is
// given back to the receive ring (free_ll_l2cap_received()); PDUs received before the instant overwrite it.
//
// History (test::radio, buffer sizes tx 61, rx 62, in memory PDU layout with 4 bytes overhead):
//   event 0: ATT Find By Type Value Request, 16 bytes payload -> stored at ring offset [0..20), consumed
//   event 2: LL_CHANNEL_MAP_IND( map: channels 0-9, Instant 10 ) -> stored at [20..32), deferred and freed
//   event 3: ATT Write Command with 20 bytes of data (27 bytes payload). There is no room behind offset 32, the
//            ring hands out [0..31), which covers opcode, channel map and the LSB of the instant of the deferred PDU.
//            The last 7 bytes of the written value are 01 00 00 f0 3f 00 0a (a map of the channels 20-29).
//   event 4..29: empty PDUs
//
// Promised behaviour (C21): from the instant (event 10) on, the channel map of the LL_CHANNEL_MAP_IND is used:
// only channels 0-9. Defective behaviour: the map is taken from the payload of the Write Command (channels 20-29),
// peripheral and central hop on different channels, the link is lost.
//
// run: BT_REPO=<repo> ./run.sh F20_deferred_pdu_overwritten.cpp $BT_REPO/tests/test_tools/test_radio.cpp \
//        $BT_REPO/tests/test_tools/test_servers.cpp $BT_REPO/tests/test_tools/hexdump.cpp \
//        $BT_REPO/bluetoe/link_layer/*.cpp $BT_REPO/bluetoe/utility/address.cpp -lboost_unit_test_framework
#include "replay_common.hpp"

#include <boost/test/unit_test.hpp>   // declarations only: connected.hpp / test_radio.cpp refer to BOOST_CHECK

#include <../link_layer/connected.hpp>

int main()
{
    unconnected_base< bluetoe::link_layer::buffer_sizes< 61u, 62u > > ll;   // small_temperature_service, test::radio

    ll.respond_to( 37, valid_connection_request_pdu );

    ll.ll_data_pdu( {
        0x0c, 0x00, 0x04, 0x00,                         // L2CAP: length 12, ATT
        0x06, 0x01, 0x00, 0xff, 0xff, 0x00, 0x28,       // Find By Type Value Request 1-0xffff, Primary Service
        0x01, 0x02, 0x03, 0x04, 0x05 } );               // value
    ll.ll_empty_pdu();
    ll.ll_control_pdu( {
        0x01,                                           // LL_CHANNEL_MAP_IND
        0xff, 0x03, 0x00, 0x00, 0x00,                   // channels 0-9
        0x0a, 0x00 } );                                 // instant 10
    ll.ll_data_pdu( {
        0x17, 0x00, 0x04, 0x00,                         // L2CAP: length 23, ATT
        0x52, 0x03, 0x00,                               // Write Command, handle 3
        0x10, 0x11, 0x12, 0x13, 0x14, 0x15, 0x16, 0x17, 0x18, 0x19, 0x1a, 0x1b, 0x1c,
        0x01, 0x00, 0x00, 0xf0, 0x3f, 0x00, 0x0a } );
    ll.ll_empty_pdus( 26 );

    ll.run();

    std::size_t events_at_or_after_instant = 0;
    std::size_t outside_map                = 0;

    std::printf( "channels from event 10 on:" );
    for ( std::size_t i = 10; i < ll.connection_events().size() && i < 30; ++i )
    {
        const unsigned channel = ll.connection_events()[ i ].channel;
        std::printf( " %u", channel );

        ++events_at_or_after_instant;
        if ( channel > 9 )
            ++outside_map;
    }
    std::printf( "\n" );

    EXPECT( events_at_or_after_instant == 20, "the link is kept beyond the instant" );
    EXPECT( outside_map == 0, "from the instant on, only the channels 0-9 of the LL_CHANNEL_MAP_IND are used" );

    REPLAY_END();
}
