// F38 / C36: LESC-only security manager (bluetoe::lesc_security_manager) with oob_authentication_callback<>.
// lesc_handle_pairing_request() selects the pairing method from has_oob_data_for_remote_device() without ever calling
// request_oob_data_presents_for_remote_device(): the application's OOB callback is never asked, the OOB flag of the
// pairing response is always 0 and OOB is never preferred. (legacy_handle_pairing_request and the combined
// security_manager ask the callback for every pairing request.)
//
// run: BT_REPO=<repo> ./run.sh F38_lesc_only_oob_never_queried.cpp aes.o uECC.o $BT_REPO/bluetoe/utility/address.cpp
#include "replay_common.hpp"
#include <bluetoe/security_manager.hpp>
#include <bluetoe/oob_authentication.hpp>

#define BOOST_REQUIRE( x ) do { if ( !( x ) ) { std::printf( "harness: %s\n", #x ); std::abort(); } } while ( 0 )
#define BOOST_CHECK_EQUAL_COLLECTIONS( a, b, c, d ) static_cast< void >( std::equal( a, b, c ) )
#include <tests/security_manager/test_sm.hpp>

struct oob_t
{
    std::pair< bool, b::oob_authentication_data_t > sm_oob_authentication_data( const b::link_layer::device_address& )
    {
        ++asked;
        return { true, b::oob_authentication_data_t{{ 1, 2, 3, 4, 5, 6, 7, 8, 9, 10, 11, 12, 13, 14, 15, 16 }} };
    }
    int asked = 0;
} oob;

template < class Manager, class ... Options >
struct sm_fixture : test::security_manager_base< Manager, test::all_security_functions, 65, Options... >
{
    std::vector< std::uint8_t > in( const std::vector< std::uint8_t >& pdu )
    {
        std::uint8_t buffer[ 65 ];
        std::size_t  size = sizeof( buffer );
        this->l2cap_input( pdu.data(), pdu.size(), buffer, size, this->connection_data_ );
        return std::vector< std::uint8_t >( buffer, buffer + size );
    }
};

template < class Manager >
void run( const char* name )
{
    oob.asked = 0;
    sm_fixture< Manager, b::oob_authentication_callback< oob_t, oob > > f;
    // Pairing Request: NoInputNoOutput, OOB data present, SC | MITM | bonding, key size 16
    const auto rsp = f.in( { 0x01, 0x03, 0x01, 0x0d, 0x10, 0x00, 0x00 } );
    std::printf( "%s: ", name );
    dump( "pairing response", rsp );
    EXPECT( rsp.size() == 7 && rsp[ 0 ] == 0x02, "pairing request accepted" );
    EXPECT( oob.asked == 1, "the application is asked for OOB data of the requesting device" );
    EXPECT( rsp.size() == 7 && rsp[ 2 ] == 0x01, "the pairing response announces the OOB data the application has for that device" );
}

// F39: the combined security_manager answers a *legacy* pairing request with lesc_local_io_caps(), whose OOB flag is always 0, but selects
// the method from has_oob_data_for_remote_device(): it uses the OOB key as TK while having told the central that it has no OOB data
// (the central then applies the IO capability mapping: both sides compute different confirm values).
void legacy_on_combined()
{
    oob.asked = 0;
    sm_fixture< b::security_manager, b::oob_authentication_callback< oob_t, oob > > f;
    // Pairing Request: NoInputNoOutput, OOB data present, MITM | bonding (no SC), key size 16
    const auto rsp = f.in( { 0x01, 0x03, 0x01, 0x05, 0x10, 0x00, 0x00 } );
    dump( "security_manager (legacy request): pairing response", rsp );
    const bool oob_selected = f.connection_data_.legacy_pairing_algorithm() == b::details::legacy_pairing_algorithm::oob_authentication;
    std::printf( "selected method is OOB: %d, advertised OOB flag: %d\n", int( oob_selected ), rsp.size() == 7 ? rsp[ 2 ] : -1 );
    EXPECT( rsp.size() == 7 && ( rsp[ 2 ] == 0x01 ) == oob_selected, "OOB is selected exactly when both pairing PDUs carry the OOB flag (Core Vol 3 Part H 2.3.5.1)" );
}

// F40: LESC request on the combined manager: the response always advertises OOB flag 0 (lesc_local_io_caps), the selection uses the looked-up data
void lesc_on_combined()
{
    oob.asked = 0;
    sm_fixture< b::security_manager, b::oob_authentication_callback< oob_t, oob > > f;
    // Pairing Request: DisplayYesNo, *no* OOB data at the central, SC | MITM | bonding
    const auto rsp = f.in( { 0x01, 0x01, 0x00, 0x0d, 0x10, 0x00, 0x00 } );
    dump( "security_manager (LESC request, central without OOB data): pairing response", rsp );
    const bool oob_selected = f.connection_data_.lesc_pairing_algorithm() == b::details::lesc_pairing_algorithm::oob_authentication;
    std::printf( "selected method is OOB: %d, advertised OOB flag: %d, OOB flag of the request: 0\n", int( oob_selected ), rsp.size() == 7 ? rsp[ 2 ] : -1 );
    EXPECT( rsp.size() == 7 && ( rsp[ 2 ] == 0x01 ) == oob_selected, "LESC: OOB is selected exactly when one of the two pairing PDUs carries the OOB flag" );
}

int main()
{
    legacy_on_combined();
    lesc_on_combined();
    run< b::security_manager >( "security_manager (LESC request)" );
    run< b::lesc_security_manager >( "lesc_security_manager" );
    REPLAY_END();
}
