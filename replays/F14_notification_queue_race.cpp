// F14 / C13: the notification queue is updated with plain byte read-modify-writes from the producer (any context,
// server::notify) and the consumer (link layer). A producer and a consumer thread hammer the same queue byte; every
// request that was reported "newly queued" must be dequeued exactly once. A lost update shows as a mismatch.
#include "replay_common.hpp"
#include <bluetoe/notification_queue.hpp>
#include <thread>
#include <atomic>
#include <chrono>

struct mixin {};
using queue_t = b::notification_queue< std::tuple< std::integral_constant< int, 4 > >, mixin >;

int main()
{
    queue_t q;
    std::atomic< bool > stop{ false };
    unsigned long queued = 0, dequeued = 0, other = 0;

    std::thread producer( [&]{
        while ( !stop.load( std::memory_order_relaxed ) )
            if ( q.queue_notification( 0 ) ) ++queued;
    } );
    std::thread consumer( [&]{
        while ( !stop.load( std::memory_order_relaxed ) )
        {
            // a second characteristic in the same byte keeps the consumer's read-modify-write busy
            q.queue_notification( 1 );
            auto e = q.dequeue_indication_or_confirmation();
            if ( e.first == b::details::notification_queue_entry_type::notification && e.second == 0 ) ++dequeued;
            else ++other;
        }
    } );
    std::this_thread::sleep_for( std::chrono::seconds( 3 ) );
    stop = true;
    producer.join(); consumer.join();
    for ( int i = 0; i != 8; ++i )
    {
        auto e = q.dequeue_indication_or_confirmation();
        if ( e.first == b::details::notification_queue_entry_type::notification && e.second == 0 ) ++dequeued;
    }
    std::printf( "reported newly queued: %lu, dequeued: %lu\n", queued, dequeued );
    EXPECT( queued == dequeued, "every notification request reported as newly queued is dequeued exactly once" );
    REPLAY_END();
}
