// F34 / C40: csc::details::control_point_handler::csc_write_control_point sets procedure_in_progress_ before it
// validates the length of the request. The three `invalid_pdu` returns (Set Cumulative Value, Request Supported Sensor
// Locations, Update Sensor Location with a wrong length) leave the flag set. No indication is queued for a refused
// write, so csc_read_control_point (the only place that resets the flag) is never reached: every following, well
// formed request is answered with "Procedure Already In Progress" (0xFE) until reset.
#include "replay_common.hpp"
#include <bluetoe/services/csc.hpp>

struct data_handler
{
    std::pair< std::uint32_t, std::uint16_t > cumulative_wheel_revolutions_and_time() { return { wheel, 0 }; }
    std::pair< std::uint16_t, std::uint16_t > cumulative_crank_revolutions_and_time() { return { 0, 0 }; }
    void set_cumulative_wheel_revolutions( std::uint32_t v ) { wheel = v; }
    std::uint32_t wheel = 0;
};

using server_t = b::server<
    b::cycling_speed_and_cadence<
        b::sensor_location::top_of_shoe,
        b::sensor_location::in_shoe,
        b::sensor_location::hip,
        b::csc::wheel_revolution_data_supported,
        b::csc::crank_revolution_data_supported,
        b::csc::handler< data_handler > > >;

using fix = fixture< server_t >;

// value handle of the SC Control Point (0x2A55) by Find Information
static std::uint16_t find_handle( fix& f, std::uint16_t uuid )
{
    for ( std::uint16_t h = 1; h != 40; ++h )
    {
        auto r = f.request( { 0x04, std::uint8_t( h ), 0x00, std::uint8_t( h ), 0x00 } );
        if ( r.size() == 6 && r[ 0 ] == 0x05 && r[ 1 ] == 0x01 && r[ 4 ] == ( uuid & 0xff ) && r[ 5 ] == ( uuid >> 8 ) )
            return h;
    }
    return 0;
}

static std::uint8_t lo( std::uint16_t h ) { return h & 0xff; }
static std::uint8_t hi( std::uint16_t h ) { return h >> 8; }

static void history( const char* name, std::vector< std::uint8_t > malformed )
{
    std::printf( "--- malformed request: %s\n", name );
    fix f;
    const std::uint16_t cp   = find_handle( f, 0x2A55 );
    const std::uint16_t cccd = cp + 1;
    std::printf( "control point value handle %u\n", cp );

    // enable indications on the control point
    auto r = f.request( { 0x12, lo( cccd ), hi( cccd ), 0x02, 0x00 } );
    EXPECT( cp != 0 && r.size() == 1 && r[ 0 ] == 0x13, "control point configured for indications" );

    std::vector< std::uint8_t > pdu = { 0x12, lo( cp ), hi( cp ) };
    pdu.insert( pdu.end(), malformed.begin(), malformed.end() );
    r = f.request( pdu );
    dump( "malformed write ->", r );
    EXPECT( r.size() == 5 && r[ 0 ] == 0x01 && r[ 4 ] == 0x04, "malformed request refused with Invalid PDU" );

    auto out = f.output();
    dump( "l2cap_output", out );
    EXPECT( out.empty(), "no indication pending for the refused request" );

    // a well formed Set Cumulative Value
    r = f.request( { 0x12, lo( cp ), hi( cp ), 0x01, 0x01, 0x20, 0x30, 0x04 } );
    dump( "well formed Set Cumulative Value ->", r );
    EXPECT( r.size() == 1 && r[ 0 ] == 0x13, "following well formed request is accepted (no procedure is in progress)" );
    EXPECT( f.wheel == 0x04302001u, "application received the new cumulative value" );

    f.confirm_cumulative_wheel_revolutions( f );
    out = f.output();
    dump( "l2cap_output", out );
    EXPECT( out.size() == 6 && out[ 0 ] == 0x1D && out[ 3 ] == 0x10 && out[ 4 ] == 0x01 && out[ 5 ] == 0x01, "procedure response indicated: success" );
}

int main()
{
    history( "Set Cumulative Value, 5 parameter bytes",              { 0x01, 0x01, 0x20, 0x30, 0x04, 0x05 } );
    history( "Request Supported Sensor Locations with a parameter",  { 0x04, 0x00 } );
    history( "Update Sensor Location without parameter",             { 0x03 } );
    REPLAY_END();
}
