// F23 (C27): the peripheral initiated PHY update procedure (LL_PHY_REQ) is not supervised by the 40s procedure
// response timeout, unlike the connection parameter request and the version exchange.
//
// History 1: connection with 30ms interval; the application calls phy_update_request_to_2mbit(); LL_PHY_REQ is
//            sent; the central keeps the link alive with empty PDUs for more than 40s (1345 events) but never
//            answers with LL_PHY_UPDATE_IND / LL_UNKNOWN_RSP / LL_REJECT_EXT_IND.
// Promised behaviour (C27, Core Vol 6 Part B 5.2): the link is closed with reason 0x22 (LL Response Timeout).
// Defective behaviour: the procedure stays pending forever, the link is kept.
//
// History 2/3/4 (controls for the repair): the central answers LL_PHY_UPDATE_IND, LL_UNKNOWN_RSP( LL_PHY_REQ ) resp.
//            LL_REJECT_EXT_IND( LL_PHY_REQ ): the link must not be closed after 40s.
//
// run: BT_REPO=<repo> ./run.sh F23_phy_req_no_procedure_timeout.cpp $BT_REPO/tests/test_tools/test_radio.cpp \
//        $BT_REPO/tests/test_tools/test_servers.cpp $BT_REPO/tests/test_tools/hexdump.cpp \
//        $BT_REPO/bluetoe/link_layer/*.cpp $BT_REPO/bluetoe/utility/address.cpp -lboost_unit_test_framework
#include "replay_common.hpp"

#include <boost/test/unit_test.hpp>   // declarations only: connected.hpp / test_radio.cpp refer to BOOST_CHECK

#include <../link_layer/connected.hpp>

struct callbacks_t
{
    template < typename ConnectionData >
    void ll_connection_closed( std::uint8_t reason, const ConnectionData& )
    {
        closed = true;
        closed_reason = reason;
    }

    bool         closed = false;
    std::uint8_t closed_reason = 0;
} callbacks;

struct with_2mbit : unconnected_base_t<
    test::small_temperature_service,
    test::radio_with_2mbit,
    bluetoe::link_layer::connection_callbacks< callbacks_t, callbacks > >
{
    with_2mbit()
    {
        callbacks = callbacks_t();
        respond_to( 37, valid_connection_request_pdu );

        // connection_callbacks wake up the radio (ending test::radio::run(), which restarts the central's sequence
        // numbers) when `requested` and `established` are reported: keep the number of PDUs in event 0 even.
        add_connection_event_respond( test::connection_event_response(
            test::pdu_list_t{ test::pdu_t{ 0x01, 0x00 }, test::pdu_t{ 0x01, 0x00 } } ) );

        ll_function_call( [this](){
            request_accepted = phy_update_request_to_2mbit();
        });
    }

    bool phy_req_sent() const
    {
        for ( const auto& ev : connection_events() )
            for ( const auto& pdu : ev.transmitted_data )
                if ( ( pdu[ 0 ] & 3 ) == 3 && pdu.size() == 5 && pdu[ 2 ] == 0x16 )
                    return true;

        return false;
    }

    bool request_accepted = false;
};

// 1345 * 30ms = 40.35s
static constexpr unsigned events_in_40s = 1345;

int main()
{
    {
        with_2mbit ll;
        bool closed_after_40s = false;

        ll.ll_empty_pdus( events_in_40s );
        ll.ll_function_call( [&](){ closed_after_40s = callbacks.closed; } );
        ll.ll_empty_pdus( 3 );
        ll.run( 1500 );

        if ( !ll.request_accepted || !ll.phy_req_sent() )
        {
            std::printf( "replay broken: no LL_PHY_REQ sent\n" );
            return 2;
        }

        // if the link was closed, the scripted function is not called at all
        closed_after_40s = closed_after_40s || ( callbacks.closed && callbacks.closed_reason == 0x22 );

        std::printf( "no answer: closed: %d, reason: 0x%02x\n", int( callbacks.closed ), callbacks.closed_reason );
        EXPECT( closed_after_40s && callbacks.closed_reason == 0x22,
            "unanswered LL_PHY_REQ closes the link after 40s with reason LL Response Timeout (0x22)" );
    }

    {
        with_2mbit ll;
        bool reached = false, closed_after_40s = false;

        ll.ll_empty_pdus( 3 );
        ll.ll_control_pdu( { 0x18, 0x02, 0x02, 0x14, 0x00 } );     // LL_PHY_UPDATE_IND, 2M, 2M, instant 20
        ll.ll_empty_pdus( events_in_40s );
        ll.ll_function_call( [&](){ reached = true; closed_after_40s = callbacks.closed; } );
        ll.ll_empty_pdus( 3 );
        ll.run( 1500 );

        std::printf( "LL_PHY_UPDATE_IND: reached: %d, closed: %d, reason: 0x%02x\n", int( reached ), int( closed_after_40s ), callbacks.closed_reason );
        EXPECT( reached && !closed_after_40s, "LL_PHY_REQ answered by LL_PHY_UPDATE_IND: the link is kept" );
    }

    {
        with_2mbit ll;
        bool reached = false, closed_after_40s = false;

        ll.ll_empty_pdus( 3 );
        ll.ll_control_pdu( { 0x07, 0x16 } );                        // LL_UNKNOWN_RSP( LL_PHY_REQ )
        ll.ll_empty_pdus( events_in_40s );
        ll.ll_function_call( [&](){ reached = true; closed_after_40s = callbacks.closed; } );
        ll.ll_empty_pdus( 3 );
        ll.run( 1500 );

        std::printf( "LL_UNKNOWN_RSP: reached: %d, closed: %d, reason: 0x%02x\n", int( reached ), int( closed_after_40s ), callbacks.closed_reason );
        EXPECT( reached && !closed_after_40s, "LL_PHY_REQ answered by LL_UNKNOWN_RSP: the link is kept" );
    }

    {
        with_2mbit ll;
        bool reached = false, closed_after_40s = false;

        ll.ll_empty_pdus( 3 );
        ll.ll_control_pdu( { 0x11, 0x16, 0x1a } );                  // LL_REJECT_EXT_IND( LL_PHY_REQ, unsupported remote feature )
        ll.ll_empty_pdus( events_in_40s );
        ll.ll_function_call( [&](){ reached = true; closed_after_40s = callbacks.closed; } );
        ll.ll_empty_pdus( 3 );
        ll.run( 1500 );

        std::printf( "LL_REJECT_EXT_IND: reached: %d, closed: %d, reason: 0x%02x\n", int( reached ), int( closed_after_40s ), callbacks.closed_reason );
        EXPECT( reached && !closed_after_40s, "LL_PHY_REQ answered by LL_REJECT_EXT_IND: the link is kept" );
    }

    REPLAY_END();
}
