// F24 (C28): LL_START_ENC_RSP is accepted without a preceding LL_ENC_REQ / LL_START_ENC_REQ exchange.
//
// History: a central connects to a server whose only characteristic is declared `requires_encryption`.
// The bonding data base is empty (find_key() == not found), no LL_ENC_REQ is ever sent. The central sends a
// single unencrypted LL_START_ENC_RSP and then an ATT Read Request for the protected characteristic value.
//
// Promised behaviour (C28): the link is marked encrypted only after a key for this link was supplied and
// LL_START_ENC_REQ was sent; the read must be refused with Insufficient Authentication / Encryption.
//
// run: BT_REPO=<repo> ./run.sh F24_start_enc_rsp_without_key.cpp $BT_REPO/tests/test_tools/test_radio.cpp \
//        $BT_REPO/tests/test_tools/test_servers.cpp $BT_REPO/tests/test_tools/hexdump.cpp \
//        $BT_REPO/bluetoe/link_layer/*.cpp $BT_REPO/bluetoe/utility/address.cpp -lboost_unit_test_framework
#include "replay_common.hpp"

#include <boost/test/unit_test.hpp>   // declarations only: connected.hpp / test_radio.cpp refer to BOOST_CHECK

#include <../link_layer/connected.hpp>
#include <bluetoe/pairing_status.hpp>

namespace test {
    std::uint16_t secret_value = 0x4711;

    using secret_service = bluetoe::server<
        bluetoe::service<
            bluetoe::service_uuid< 0x8C8B4094, 0x0DE2, 0x499F, 0xA28A, 0x4EED5BC73CA9 >,
            bluetoe::characteristic<
                bluetoe::characteristic_uuid< 0x8C8B4094, 0x0DE2, 0x499F, 0xA28A, 0x4EED5BC73CAA >,
                bluetoe::bind_characteristic_value< decltype( secret_value ), &secret_value >,
                bluetoe::no_write_access
            >,
            bluetoe::requires_encryption
        >
    >;

    // mock as in tests/link_layer/ll_encryption_tests.cpp (but without SM output): a key data base without any key
    struct security_manager
    {
        template < typename ... >
        class impl
        {
        public:
            template < class OtherConnectionData >
            class channel_data_t : public OtherConnectionData
            {
            public:
                std::pair< bool, bluetoe::details::uint128_t > find_key( std::uint16_t, std::uint64_t ) const
                {
                    return { false, { { 0x00 } } };
                }

                void remote_connection_created( const bluetoe::link_layer::device_address& ) {}

                bluetoe::device_pairing_status local_device_pairing_status() const
                {
                    return bluetoe::device_pairing_status::no_key;
                }

                template < typename Connection >
                void restore_bonded_cccds( Connection& ) {}
            };

            template < class Connection >
            void l2cap_input( const std::uint8_t*, std::size_t, std::uint8_t*, std::size_t& out_size, Connection& ) { out_size = 0; }

            template < class Connection >
            bool security_manager_output_available( Connection& ) const { return false; }

            template < class Connection >
            void l2cap_output( std::uint8_t*, std::size_t& out_size, Connection& ) { out_size = 0; }

            static constexpr std::uint16_t channel_id               = bluetoe::l2cap_channel_ids::sm;
            static constexpr std::size_t   minimum_channel_mtu_size = bluetoe::details::default_att_mtu_size;
            static constexpr std::size_t   maximum_channel_mtu_size = bluetoe::details::default_att_mtu_size;
        };

        struct meta_type :
            bluetoe::details::security_manager_meta_type,
            bluetoe::link_layer::details::valid_link_layer_option_meta_type {};
    };
}

struct link_layer_with_security : unconnected_base_t< test::secret_service, test::radio_with_encryption, test::security_manager, test::buffer_sizes >
{
};

int main()
{
    link_layer_with_security ll;

    ll.respond_to( 37, valid_connection_request_pdu );
    ll.ll_empty_pdu();
    ll.ll_control_pdu( { 0x06 } );                  // LL_START_ENC_RSP out of the blue
    ll.ll_empty_pdu();
    ll.ll_data_pdu( { 0x03, 0x00, 0x04, 0x00,       // L2CAP: length 3, ATT
                      0x0A, 0x03, 0x00 } );         // ATT Read Request, handle 3 (characteristic value)
    ll.ll_empty_pdu();
    ll.ll_empty_pdu();

    ll.run();

    bool transmit_encrypted = false;
    bool value_disclosed    = false;
    bool read_refused       = false;

    for ( const auto& ev : ll.connection_events() )
    {
        transmit_encrypted = transmit_encrypted || ev.transmit_encryption_at_start_of_event;

        for ( const auto& pdu : ev.transmitted_data )
        {
            if ( ( pdu[ 0 ] & 3 ) != 2 || pdu.size() < 7 )
                continue;

            dump( "ATT response", pdu.data );

            // Read Response with the value 0x4711
            if ( pdu[ 6 ] == 0x0B && pdu.size() == 9 && pdu[ 7 ] == 0x11 && pdu[ 8 ] == 0x47 )
                value_disclosed = true;

            // Error Response to Read Request: Insufficient Authentication (5) or Insufficient Encryption (0x0f)
            if ( pdu[ 6 ] == 0x01 && pdu.size() == 11 && pdu[ 7 ] == 0x0A && ( pdu[ 10 ] == 0x05 || pdu[ 10 ] == 0x0f ) )
                read_refused = true;
        }
    }

    EXPECT( !transmit_encrypted, "transmit encryption is not started by a LL_START_ENC_RSP that answers no LL_START_ENC_REQ" );
    EXPECT( !value_disclosed, "value of a `requires_encryption` characteristic is not readable on a link without key" );
    EXPECT( read_refused, "Read Request is answered with Insufficient Authentication/Encryption" );

    REPLAY_END();
}
