// F05 / C07 (C01, C05): the permission probe of Prepare Write Request is not built from the connection.
// server::handle_prepair_write_request probes with attribute_access_arguments::check_write( this ): default
// security attributes (not encrypted, no key) and a null client characteristic configuration store.
//  (1) Prepare Write to a characteristic that requires encryption is refused on an encrypted link, where the
//      plain Write Request to the same handle succeeds.
//  (2) Prepare Write to a CCCD handle dereferences the null store (ASan: SEGV / assert without NDEBUG).
#include "replay_common.hpp"
#include <csignal>
#include <unistd.h>

std::uint8_t secret[ 40 ];
std::uint8_t open_value[ 4 ];

// (3) residual, reported as "residual:" only (not repaired by the small fix, needs a distinct access type):
//     the probe is a zero length write, so it reaches user write handlers.
static int blob_handler_calls = 0;
static std::uint8_t blob_handler( std::size_t, std::size_t, const std::uint8_t* ) { ++blob_handler_calls; return b::error_codes::success; }
static std::uint8_t typed_handler( std::uint16_t ) { return b::error_codes::success; }

using server_t = b::server<
    b::shared_write_queue< 64 >,
    b::service< b::service_uuid16< 0x1000 >,
        // handles 2 (decl) 3 (value) 4 (CCCD)
        b::characteristic< b::characteristic_uuid16< 0x1001 >, b::bind_characteristic_value< std::uint8_t[ 40 ], &secret >,
            b::requires_encryption, b::notify >,
        // handles 5 (decl) 6 (value) 7 (CCCD)
        b::characteristic< b::characteristic_uuid16< 0x1002 >, b::bind_characteristic_value< std::uint8_t[ 4 ], &open_value >,
            b::notify >,
        // handles 8 (decl) 9 (value)
        b::characteristic< b::characteristic_uuid16< 0x1003 >, b::free_write_blob_handler< &blob_handler > >,
        // handles 10 (decl) 11 (value)
        b::characteristic< b::characteristic_uuid16< 0x1004 >, b::free_write_handler< std::uint16_t, &typed_handler > >
    >,
    b::no_gap_service_for_gatt_servers >;

static void on_crash( int )
{
    static const char msg[] = "DEFECT: Prepare Write to a CCCD handle crashed (null client characteristic configuration store)\n";
    if ( write( 1, msg, sizeof( msg ) - 1 ) ) {}
    _exit( 1 );
}

int main()
{
    std::setvbuf( stdout, nullptr, _IONBF, 0 );
    fixture< server_t > f;
    f.con.is_encrypted( true );
    f.con.pairing_status( b::device_pairing_status::unauthenticated_key );

    // (1) reference: Write Request to the protected value (handle 3) on the encrypted link
    auto wr = f.request( { 0x12, 0x03, 0x00, 0x11, 0x22 } );
    dump( "write request  h=3", wr );
    EXPECT( wr.size() == 1 && wr[ 0 ] == 0x13, "Write Request to encrypted-only characteristic succeeds on encrypted link" );

    // same attribute, same link, as Prepare Write Request offset 0
    auto pw = f.request( { 0x16, 0x03, 0x00, 0x00, 0x00, 0x33, 0x44 } );
    dump( "prepare write  h=3", pw );
    EXPECT( pw.size() == 7 && pw[ 0 ] == 0x17, "Prepare Write to the same characteristic on the same encrypted link is accepted" );

    auto ex = f.request( { 0x18, 0x01 } );
    dump( "execute write", ex );
    EXPECT( ex.size() == 1 && ex[ 0 ] == 0x19 && secret[ 0 ] == 0x33 && secret[ 1 ] == 0x44, "Execute Write applies the queued value" );

    // and an unencrypted link is still refused by the probe
    {
        fixture< server_t > g;
        auto r = g.request( { 0x16, 0x03, 0x00, 0x00, 0x00, 0x55 } );
        dump( "prepare write  h=3 (unencrypted link)", r );
        EXPECT( r.size() == 5 && r[ 0 ] == 0x01 && r[ 4 ] == 0x05, "Prepare Write on an unencrypted link is refused with Insufficient Authentication" );
    }

    // (2) Prepare Write to the CCCD of the unprotected characteristic (handle 7)
    std::signal( SIGSEGV, on_crash );
    std::signal( SIGABRT, on_crash );
    auto cw = f.request( { 0x16, 0x07, 0x00, 0x00, 0x00, 0x01, 0x00 } );
    dump( "prepare write  h=7 (CCCD)", cw );
    EXPECT( cw.size() == 7 && cw[ 0 ] == 0x17, "Prepare Write to a CCCD is answered" );
    auto rd = f.request( { 0x0A, 0x07, 0x00 } );
    dump( "read CCCD before execute", rd );
    EXPECT( rd.size() == 3 && rd[ 1 ] == 0x00, "the probe did not change the subscription" );
    ex = f.request( { 0x18, 0x01 } );
    rd = f.request( { 0x0A, 0x07, 0x00 } );
    dump( "read CCCD after execute", rd );
    EXPECT( ex.size() == 1 && ex[ 0 ] == 0x19 && rd.size() == 3 && rd[ 1 ] == 0x01, "Execute Write subscribes" );

    // (3) residual behaviour of the probe-as-zero-length-write design (informational)
    auto bw = f.request( { 0x16, 0x09, 0x00, 0x00, 0x00, 0x01, 0x02 } );
    dump( "prepare write  h=9 (blob write handler)", bw );
    std::printf( "residual: user blob write handler invoked %d time(s) by Prepare Write alone (before any Execute Write)\n", blob_handler_calls );
    auto tw = f.request( { 0x16, 0x0B, 0x00, 0x00, 0x00, 0x01, 0x02 } );
    dump( "prepare write  h=11 (uint16 write handler)", tw );
    if ( tw.size() == 5 && tw[ 0 ] == 0x01 )
        std::printf( "residual: Prepare Write of a well formed uint16 value is refused with error 0x%02x (probe deserialises 0 bytes)\n", tw[ 4 ] );

    REPLAY_END();
}
