// F10 (C07): the link layer never calls server::client_disconnected(); the shared write queue that was allocated by
// a client is not released when that client disconnects.
//
// History (server with shared_write_queue< 30 > and one writable 16 bit characteristic, value handle 3):
//   connection 1: three Prepare Write Requests ( handle 3, offset 0, value 0x4711 ) fill 24 of the 30 bytes of the
//                 queue; then the central disconnects with LL_TERMINATE_IND without executing the writes.
//   connection 2: (the link layer uses the same connection_data_ object for every connection)
//                 Prepare Write Request ( handle 3, offset 0, value 0x2222 ), Execute Write Request ( 0x01 ).
//
// Promised behaviour (C07): prepared writes are per client and are dropped when the client disconnects; the second
// client finds an empty queue, its Prepare Write succeeds and the Execute Write writes 0x2222 and nothing else.
// Defective behaviour: the second client inherits the queue of the first one: its Prepare Write is refused with
// Prepare Queue Full (0x09) and its Execute Write executes the writes prepared by the first client (value 0x4711).
//
// run: BT_REPO=<repo> ./run.sh F10_write_queue_survives_disconnect.cpp $BT_REPO/tests/test_tools/test_radio.cpp \
//        $BT_REPO/tests/test_tools/test_servers.cpp $BT_REPO/tests/test_tools/hexdump.cpp \
//        $BT_REPO/bluetoe/link_layer/*.cpp $BT_REPO/bluetoe/utility/address.cpp -lboost_unit_test_framework
#include "replay_common.hpp"

#include <boost/test/unit_test.hpp>   // declarations only: connected.hpp / test_radio.cpp refer to BOOST_CHECK

#include <../link_layer/connected.hpp>

std::uint16_t value = 1;

using write_queue_server = bluetoe::server<
    bluetoe::shared_write_queue< 30 >,
    bluetoe::service<
        bluetoe::service_uuid< 0x8C8B4094, 0x0DE2, 0x499F, 0xA28A, 0x4EED5BC73CA9 >,
        bluetoe::characteristic<
            bluetoe::characteristic_uuid< 0x8C8B4094, 0x0DE2, 0x499F, 0xA28A, 0x4EED5BC73CAA >,
            bluetoe::bind_characteristic_value< std::uint16_t, &value >
        >
    >,
    bluetoe::no_gap_service_for_gatt_servers
>;

using link_layer_t = unconnected_base_t< write_queue_server, test::radio, test::buffer_sizes >;

int main()
{
    link_layer_t ll;

    // two connections
    ll.respond_to( 37, valid_connection_request_pdu );
    ll.respond_to( 37, valid_connection_request_pdu );

    // connection 1 (the central of test::radio does not restart its sequence numbers with the second connection,
    // so the number of PDUs in the first connection has to be even)
    for ( int i = 0; i != 3; ++i )
    {
        ll.ll_data_pdu( { 0x07, 0x00, 0x04, 0x00, 0x16, 0x03, 0x00, 0x00, 0x00, 0x11, 0x47 } );
        ll.ll_empty_pdu();
    }
    ll.ll_empty_pdu();
    ll.ll_control_pdu( { 0x02, 0x13 } );    // LL_TERMINATE_IND, remote user terminated connection

    // connection 2
    ll.ll_empty_pdu();
    ll.ll_data_pdu( { 0x07, 0x00, 0x04, 0x00, 0x16, 0x03, 0x00, 0x00, 0x00, 0x22, 0x22 } );
    ll.ll_empty_pdu();
    ll.ll_data_pdu( { 0x02, 0x00, 0x04, 0x00, 0x18, 0x01 } );
    ll.ll_empty_pdu();
    ll.ll_empty_pdu();

    ll.end_of_simulation( bluetoe::link_layer::delta_time::seconds( 3 ) );
    ll.run();

    // collect all ATT responses
    std::vector< std::vector< std::uint8_t > > responses;

    for ( const auto& ev : ll.connection_events() )
        for ( const auto& pdu : ev.transmitted_data )
            if ( ( pdu[ 0 ] & 3 ) == 2 && pdu.size() > 6 )
            {
                responses.push_back( std::vector< std::uint8_t >( pdu.data.begin() + 6, pdu.data.end() ) );
                dump( "ATT response", responses.back() );
            }

    std::printf( "value after second connection: 0x%04x\n", unsigned( value ) );

    if ( responses.size() != 5 || responses[ 0 ][ 0 ] != 0x17 || responses[ 1 ][ 0 ] != 0x17 || responses[ 2 ][ 0 ] != 0x17 )
    {
        std::printf( "replay broken: expected 3 Prepare Write Responses in the first and 2 responses in the second connection\n" );
        return 2;
    }

    const std::vector< std::uint8_t > prepare_response = { 0x17, 0x03, 0x00, 0x00, 0x00, 0x22, 0x22 };
    const std::vector< std::uint8_t > execute_response = { 0x19 };

    EXPECT( responses[ 3 ] == prepare_response, "Prepare Write Request of the second client succeeds (no Prepare Queue Full)" );
    EXPECT( responses[ 4 ] == execute_response, "Execute Write Request of the second client succeeds" );
    EXPECT( value == 0x2222, "only the write prepared by the second client is executed" );

    REPLAY_END();
}
