// F08 / C06: details::value_handler_base::value_impl::characteristic_value_access (all free_/mixin_ read handlers)
// calls the read handler for every access of type `read`; has_read_access (= has_read_handler && !no_read_access) is
// only used to build the properties byte of the characteristic declaration. A characteristic declared with
// no_read_access + notify + read handler (the documented way to feed notifications of a not readable characteristic,
// used by the CSC / bootloader control points) announces "not readable" but answers ATT Read Requests with the value.
// The notification in server::l2cap_output uses the very same access type, so the value implementation can not tell
// a client read from a notification: repairing needs a distinct access type / argument for all value implementations.
#include "replay_common.hpp"

static int handler_calls = 0;
static std::uint8_t read_secret( std::size_t read_size, std::uint8_t* out_buffer, std::size_t& out_size )
{
    ++handler_calls;
    out_size = std::min< std::size_t >( read_size, 2 );
    const std::uint8_t v[] = { 0x5E, 0xC7 };
    std::copy( v, v + out_size, out_buffer );
    return b::error_codes::success;
}

using server_t = b::server<
    b::service< b::service_uuid16< 0x1000 >,
        // handles: 2 declaration, 3 value, 4 CCCD
        b::characteristic< b::characteristic_uuid16< 0x1001 >,
            b::free_read_handler< &read_secret >, b::no_read_access, b::notify > >,
    b::no_gap_service_for_gatt_servers >;

int main()
{
    fixture< server_t > f;

    auto decl = f.request( { 0x0A, 0x02, 0x00 } );
    dump( "characteristic declaration", decl );
    EXPECT( decl.size() == 6 && decl[ 1 ] == 0x10, "declared properties: notify only (0x10), not readable" );

    auto rd = f.request( { 0x0A, 0x03, 0x00 } );
    dump( "Read Request value handle 3", rd );
    EXPECT( rd.size() == 5 && rd[ 0 ] == 0x01 && rd[ 4 ] == 0x02, "Read Request to the not readable characteristic is refused with Read Not Permitted" );
    EXPECT( handler_calls == 0, "the read handler is not invoked by a client read" );

    auto rbt = f.request( { 0x08, 0x01, 0x00, 0xFF, 0xFF, 0x01, 0x10 } );
    dump( "Read By Type 0x1001", rbt );
    EXPECT( rbt.size() >= 1 && rbt[ 0 ] == 0x01, "Read By Type Request does not deliver the value either" );

    // the feature that must survive a repair: the handler feeds the notification
    f.request( { 0x12, 0x04, 0x00, 0x01, 0x00 } );
    f.notify< b::characteristic_uuid16< 0x1001 > >();
    auto n = f.output();
    dump( "notification", n );
    EXPECT( n.size() == 5 && n[ 0 ] == 0x1B && n[ 3 ] == 0x5E && n[ 4 ] == 0xC7, "notification carries the handler's value" );

    REPLAY_END();
}
