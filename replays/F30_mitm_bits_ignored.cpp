// F30 / C36: legacy_select_pairing_algorithm() / lesc_select_pairing_algorithm() have an unnamed auth_req parameter.
// Core spec Vol 3, Part H, 2.3.5.1: "If both devices have not set the MITM option in the Authentication
// Requirements Flags, then the IO capabilities shall be ignored and the Just Works association model shall be used."
// Bluetoe (without require_man_in_the_middle_protection, i.e. MITM = 0 in its Pairing Response) still selects
// passkey entry / numeric comparison from the IO capabilities when the central's request has MITM = 0 as well.
//
// History (legacy): peripheral = display only, central = KeyboardDisplay, both AuthReq = 0. A central that follows the
// specification uses Just Works (TK = 0); the peripheral generates and uses a passkey as TK, so the confirm value check
// fails and pairing is impossible.
//
// run: BT_REPO=<repo> ./run.sh F30_mitm_bits_ignored.cpp aes.o uECC.o $BT_REPO/bluetoe/utility/address.cpp
//      (aes.o / uECC.o: tests/test_tools/aes.c, uECC.c compiled with gcc -std=c99 [-DuECC_CURVE=uECC_secp256r1])
#include "replay_common.hpp"
#include <bluetoe/security_manager.hpp>

#define BOOST_REQUIRE( x ) do { if ( !( x ) ) { std::printf( "harness: %s\n", #x ); std::abort(); } } while ( 0 )
#define BOOST_CHECK_EQUAL_COLLECTIONS( a, b, c, d ) static_cast< void >( std::equal( a, b, c ) )
#include <tests/security_manager/test_sm.hpp>

struct io_t
{
    void sm_pairing_numeric_output( int ) { ++shown; }
    void sm_pairing_yes_no( b::pairing_yes_no_response& r ) { ++asked; r.yes_no_response( true ); }
    int shown = 0;
    int asked = 0;
} io;

template < class Manager, class ... Options >
struct sm_fixture : test::security_manager_base< Manager, test::all_security_functions, 65, Options... >
{
    std::vector< std::uint8_t > in( const std::vector< std::uint8_t >& pdu )
    {
        std::uint8_t buffer[ 65 ];
        std::size_t  size = sizeof( buffer );
        this->l2cap_input( pdu.data(), pdu.size(), buffer, size, this->connection_data_ );
        return std::vector< std::uint8_t >( buffer, buffer + size );
    }

    std::vector< std::uint8_t > out()
    {
        std::uint8_t buffer[ 65 ];
        std::size_t  size = sizeof( buffer );
        this->l2cap_output( buffer, size, this->connection_data_ );
        return std::vector< std::uint8_t >( buffer, buffer + size );
    }
};

static const char* name( b::device_pairing_status s )
{
    switch ( s ) {
    case b::device_pairing_status::no_key: return "no_key";
    case b::device_pairing_status::unauthenticated_key: return "unauthenticated_key";
    case b::device_pairing_status::authenticated_key: return "authenticated_key";
    default: return "authenticated_key_with_secure_connection";
    }
}

// legacy pairing by a central that uses the given TK; true if the peripheral answered the Pairing Random with its random
template < class F >
bool legacy_pairing( F& f, std::uint8_t io_capability, std::uint8_t auth_req, const b::details::uint128_t& tk )
{
    const std::vector< std::uint8_t > request = { 0x01, io_capability, 0x00, auth_req, 0x10, 0x00, 0x00 };
    const auto response = f.in( request );
    dump( "pairing response", response );
    if ( response.size() != 7 || response[ 0 ] != 0x02 ) return false;
    std::printf( "MITM flag in the response: %d, MITM flag in the request: %d\n", ( response[ 3 ] >> 2 ) & 1, ( auth_req >> 2 ) & 1 );

    const b::details::uint128_t mrand = {{ 0xE0, 0x2E, 0x70, 0xC6, 0x4E, 0x27, 0x88, 0x63, 0x0E, 0x6F, 0xAD, 0x56, 0x21, 0xD5, 0x83, 0x57 }};
    const auto mconfirm = f.c1( tk, mrand, f.connection_data().c1_p1(), f.connection_data().c1_p2() );

    std::vector< std::uint8_t > confirm( 17, 0x03 );
    std::copy( mconfirm.begin(), mconfirm.end(), confirm.begin() + 1 );
    const auto sconfirm = f.in( confirm );
    if ( sconfirm.size() != 17 || sconfirm[ 0 ] != 0x03 ) return false;

    std::vector< std::uint8_t > random( 17, 0x04 );
    std::copy( mrand.begin(), mrand.end(), random.begin() + 1 );
    const auto srand = f.in( random );
    dump( "answer to pairing random", srand );

    return srand.size() == 17 && srand[ 0 ] == 0x04;
}

int main()
{
    const b::details::uint128_t just_works_tk = {{ 0 }};

    {
        std::printf( "--- legacy, peripheral DisplayOnly (MITM not required), central KeyboardDisplay with AuthReq = 0, central uses Just Works as specified\n" );
        io = io_t();
        sm_fixture< b::legacy_security_manager, b::pairing_numeric_output< io_t, io > > f;
        const bool completed = legacy_pairing( f, 0x04, 0x00, just_works_tk );
        std::printf( "completed: %d, passkeys displayed: %d, status: %s\n", completed, io.shown, name( f.connection_data().local_device_pairing_status() ) );

        EXPECT( completed, "with MITM = 0 on both sides, a central using Just Works (TK = 0) can pair" );
        EXPECT( io.shown == 0, "with MITM = 0 on both sides no passkey is displayed" );
    }

    {
        std::printf( "--- LESC, peripheral DisplayYesNo (MITM not required), central DisplayYesNo with AuthReq = SC only\n" );
        io = io_t();
        sm_fixture< b::lesc_security_manager, b::pairing_numeric_output< io_t, io >, b::pairing_yes_no< io_t, io > > f;
        const auto response = f.in( { 0x01, 0x01, 0x00, 0x08, 0x10, 0x00, 0x00 } );
        dump( "pairing response", response );
        const bool just_works = f.connection_data().lesc_pairing_algorithm() == b::details::lesc_pairing_algorithm::just_works;

        EXPECT( just_works, "with MITM = 0 on both sides, LESC Just Works is selected (not numeric comparison)" );
    }

    {
        std::printf( "--- control: central sets MITM = 1: passkey entry is selected and displayed\n" );
        io = io_t();
        sm_fixture< b::legacy_security_manager, b::pairing_numeric_output< io_t, io > > f;
        const b::details::uint128_t passkey = {{ 0xC7, 0x4c }};   // test::legacy_security_functions::create_passkey()
        const bool completed = legacy_pairing( f, 0x04, 0x04, passkey );

        EXPECT( completed && io.shown == 1 && f.connection_data().local_device_pairing_status() == b::device_pairing_status::authenticated_key,
            "with MITM = 1 in the request passkey entry is used" );
    }

    REPLAY_END();
}
