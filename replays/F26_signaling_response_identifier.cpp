// F26 / C31: signaling_channel::l2cap_input() completes the pending Connection Parameter Update procedure on ANY
// Connection Parameter Update Response (code 0x13); the identifier of the response is not compared with the identifier
// of the request that was sent. (Core Spec Vol 3, Part A, 4: a response with a not matching identifier is silently discarded.)
#include <iterator>
#include <tuple>
#include <array>
#include <cstdint>
#include <cstddef>
#include <cstring>
#include <cstdio>
#include <cassert>
#include <vector>
#include <initializer_list>
#include <bluetoe/l2cap_signaling_channel.hpp>

static int failures = 0;
#define EXPECT( cond, text ) do { if ( !( cond ) ) { std::printf( "DEFECT: %s\n", text ); ++failures; } else { std::printf( "ok: %s\n", text ); } } while ( 0 )

struct channel : bluetoe::l2cap::signaling_channel<>
{
    std::vector< std::uint8_t > input( std::initializer_list< std::uint8_t > pdu )
    {
        std::uint8_t buffer[ 23 ];
        std::size_t  size = sizeof( buffer );
        this->l2cap_input( pdu.begin(), pdu.size(), buffer, size, *this );
        return std::vector< std::uint8_t >( buffer, buffer + size );
    }

    std::vector< std::uint8_t > output()
    {
        std::uint8_t buffer[ 23 ];
        std::size_t  size = sizeof( buffer );
        this->l2cap_output( buffer, size, *this );
        return std::vector< std::uint8_t >( buffer, buffer + size );
    }
};

static void dump( const char* what, const std::vector< std::uint8_t >& v )
{
    std::printf( "%s [%zu]:", what, v.size() );
    for ( auto c : v ) std::printf( " %02x", c );
    std::printf( "\n" );
}

int main()
{
    channel c;

    EXPECT( c.connection_parameter_update_request( 0x10, 0x20, 0, 0x100 ), "first request queued" );
    const auto request = c.output();
    dump( "request", request );
    EXPECT( request.size() == 12 && request[ 0 ] == 0x12, "request transmitted" );
    const std::uint8_t id = request[ 1 ];

    // a response that does not belong to the request: identifier differs
    const auto reaction = c.input( { 0x13, static_cast< std::uint8_t >( id + 0x41 ), 0x02, 0x00, 0x00, 0x00 } );
    dump( "reaction to response with wrong identifier", reaction );
    EXPECT( reaction.empty(), "response with wrong identifier is silently discarded" );

    EXPECT( !c.connection_parameter_update_request( 0x30, 0x40, 0, 0x100 ),
        "procedure still pending after a response with wrong identifier: no second request accepted" );
    const auto second = c.output();
    dump( "output after wrong response", second );
    EXPECT( second.empty(), "no second request on air while the first is not answered" );

    // now the real response arrives
    const auto real = c.input( { 0x13, id, 0x02, 0x00, 0x00, 0x00 } );
    dump( "reaction to the matching response", real );
    EXPECT( real.empty(), "matching response is consumed without a reaction (no Command Reject)" );

    EXPECT( c.connection_parameter_update_request( 0x30, 0x40, 0, 0x100 ), "next request accepted after the matching response" );
    const auto next = c.output();
    dump( "next request", next );
    EXPECT( next.size() == 12 && next[ 1 ] != id && next[ 1 ] != 0, "next request uses a new, non zero identifier" );

    // a truncated response (no identifier at all) does not complete the procedure either
    EXPECT( c.input( { 0x13 } ).empty(), "truncated response discarded" );
    EXPECT( !c.connection_parameter_update_request( 0x30, 0x40, 0, 0x100 ), "procedure still pending after truncated response" );

    return failures ? 1 : 0;
}
