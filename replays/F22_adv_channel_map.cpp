// F22 / C24: variable_advertising_channel_map::next_channel() seeks the next enabled channel with the test
// ( 1u << current_channel_index_ ) == 0, which is never true. A disabled channel between two enabled channels is
// not skipped: with the channel map { 37, 39 } the advertiser also transmits on channel 38.
//
// link with: $BT_REPO/tests/test_tools/test_radio.cpp $BT_REPO/tests/test_tools/test_servers.cpp $BT_REPO/tests/test_tools/hexdump.cpp $BT_REPO/tests/test_tools/buffer_io.cpp
//            $BT_REPO/tests/test_tools/address_io.cpp $BT_REPO/bluetoe/link_layer/*.cpp $BT_REPO/bluetoe/utility/address.cpp
#include <iterator>
#include <tuple>
#include <array>
#include <cstdint>
#include <cstddef>
#include <cstring>
#include <cstdio>
#include <map>

// test_radio.cpp uses BOOST_CHECK in its check_xxx() functions (not used here), the framework has to be linked
#define BOOST_TEST_NO_MAIN
#include <boost/test/included/unit_test.hpp>

#include <bluetoe/link_layer.hpp>
#include <bluetoe/server.hpp>
#include "test_radio.hpp"
#include "test_servers.hpp"

static int failures = 0;
#define EXPECT( cond, text ) do { if ( !( cond ) ) { std::printf( "DEFECT: %s\n", text ); ++failures; } else { std::printf( "ok: %s\n", text ); } } while ( 0 )

struct advertiser_t : bluetoe::link_layer::link_layer<
    test::small_temperature_service, test::radio,
    bluetoe::link_layer::variable_advertising_channel_map,
    bluetoe::link_layer::no_auto_start_advertising >
{
};

static std::map< unsigned, unsigned > channels_used( std::initializer_list< unsigned > removed )
{
    advertiser_t ll;

    for ( unsigned c : removed )
        ll.remove_channel_from_advertsing_channel_map( c );

    ll.start_advertising();
    ll.run();

    std::map< unsigned, unsigned > result;
    ll.all_data( [&]( const test::advertising_data& d ) { ++result[ d.channel ]; } );

    std::printf( "channel map without {" );
    for ( unsigned c : removed ) std::printf( " %u", c );
    std::printf( " }: PDUs on 37: %u, 38: %u, 39: %u\n", result[ 37 ], result[ 38 ], result[ 39 ] );

    return result;
}

int main()
{
    std::setvbuf( stdout, nullptr, _IONBF, 0 );

    {
        auto used = channels_used( { 38 } );
        EXPECT( used[ 38 ] == 0, "channel map { 37, 39 }: nothing transmitted on the disabled channel 38" );
        EXPECT( used[ 37 ] > 0 && used[ 39 ] > 0, "channel map { 37, 39 }: both enabled channels are used" );
        EXPECT( used[ 37 ] == used[ 39 ] || used[ 37 ] == used[ 39 ] + 1, "channel map { 37, 39 }: channels are used in turn" );
    }
    {
        auto used = channels_used( { 37 } );
        EXPECT( used[ 37 ] == 0 && used[ 38 ] > 0 && used[ 39 ] > 0, "channel map { 38, 39 }" );
    }
    {
        auto used = channels_used( { 39 } );
        EXPECT( used[ 39 ] == 0 && used[ 37 ] > 0 && used[ 38 ] > 0, "channel map { 37, 38 }" );
    }
    {
        auto used = channels_used( { 37, 38 } );
        EXPECT( used[ 37 ] == 0 && used[ 38 ] == 0 && used[ 39 ] > 0, "channel map { 39 }" );
    }
    {
        auto used = channels_used( {} );
        EXPECT( used[ 37 ] > 0 && used[ 38 ] > 0 && used[ 39 ] > 0, "channel map { 37, 38, 39 }" );
    }

    return failures ? 1 : 0;
}
