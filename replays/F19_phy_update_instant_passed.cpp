// F19 (C21): LL_PHY_UPDATE_IND whose instant already passed is deferred instead of ending the link.
//
// History: connection on a radio with 2 MBit support; 10 connection events take place, then the central
// sends LL_PHY_UPDATE_IND (C->P 2M, P->C 2M) with instant 2 (connEventCount is 10, so the instant is 8 events
// in the past), followed by an ATT Read Request.
//
// Promised behaviour (C21, Core Vol 6 Part B 5.1.10 / 5.5.1): an instant that has passed ends the link
// with reason 0x28 (Instant Passed), like LL_CONNECTION_UPDATE_IND and LL_CHANNEL_MAP_IND do.
// Defective behaviour: the PDU is deferred until the 16 bit event counter wraps to 2 again (65528 events,
// 32 minutes at 30ms); meanwhile handle_received_data() handles no PDU at all: the ATT server is dead.
//
// run: BT_REPO=<repo> ./run.sh F19_phy_update_instant_passed.cpp $BT_REPO/tests/test_tools/test_radio.cpp \
//        $BT_REPO/tests/test_tools/test_servers.cpp $BT_REPO/tests/test_tools/hexdump.cpp \
//        $BT_REPO/bluetoe/link_layer/*.cpp $BT_REPO/bluetoe/utility/address.cpp -lboost_unit_test_framework
#include "replay_common.hpp"

#include <boost/test/unit_test.hpp>   // declarations only: connected.hpp / test_radio.cpp refer to BOOST_CHECK

#include <../link_layer/connected.hpp>

struct callbacks_t
{
    template < typename ConnectionData >
    void ll_connection_closed( std::uint8_t reason, const ConnectionData& )
    {
        closed = true;
        closed_reason = reason;
    }

    bool         closed = false;
    std::uint8_t closed_reason = 0;
} callbacks;

struct with_2mbit : unconnected_base_t<
    test::small_temperature_service,
    test::radio_with_2mbit,
    bluetoe::link_layer::connection_callbacks< callbacks_t, callbacks > >
{
};

int main()
{
    with_2mbit ll;

    ll.respond_to( 37, valid_connection_request_pdu );

    // connection_callbacks wake up the radio (ending test::radio::run(), which restarts the central's sequence
    // numbers) when `requested` and `established` are reported: keep the number of PDUs in event 0 even.
    ll.add_connection_event_respond( test::connection_event_response(
        test::pdu_list_t{ test::pdu_t{ 0x01, 0x00 }, test::pdu_t{ 0x01, 0x00 } } ) );
    ll.ll_empty_pdus( 9 );
    ll.ll_control_pdu( {
        0x18,                       // LL_PHY_UPDATE_IND
        0x02,                       // Central -> Peripheral: 2MBit
        0x02,                       // Peripheral -> Central: 2MBit
        0x02, 0x00                  // Instant: 2 (passed)
    } );
    ll.ll_data_pdu( { 0x03, 0x00, 0x04, 0x00,       // L2CAP: length 3, ATT
                      0x0A, 0x03, 0x00 } );         // ATT Read Request, handle 3
    ll.ll_empty_pdus( 20 );

    ll.run( 4 );

    bool att_answered = false;
    std::size_t events_after_update = 0;

    for ( std::size_t i = 0; i != ll.connection_events().size(); ++i )
    {
        if ( i > 10 )
            ++events_after_update;

        for ( const auto& pdu : ll.connection_events()[ i ].transmitted_data )
            if ( ( pdu[ 0 ] & 3 ) == 2 && pdu.size() > 6 && pdu[ 6 ] == 0x0B )
                att_answered = true;
    }

    std::printf( "connection events: %zu, ATT answered: %d, closed: %d reason: 0x%02x\n",
        ll.connection_events().size(), int( att_answered ), int( callbacks.closed ), callbacks.closed_reason );

    EXPECT( callbacks.closed && callbacks.closed_reason == 0x28,
        "LL_PHY_UPDATE_IND with a passed instant ends the link with reason Instant Passed (0x28)" );
    EXPECT( events_after_update <= 1,
        "no further connection events are scheduled on the link after the passed instant was detected" );

    REPLAY_END();
}
