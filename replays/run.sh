#!/bin/sh
# usage: run.sh <replay.cpp> [extra sources]   -- builds against /repo (or $BT_REPO) and runs; exit 1 = defect demonstrated
R=${BT_REPO:-/repo}
src=$1; shift
out=$(mktemp -d /tmp/replay.XXXXXX)
g++ -std=gnu++17 -O1 -g -DNDEBUG -fsanitize=address,undefined -pthread -I$R -I$R/bluetoe/utility/include -I$R/bluetoe/link_layer/include -I$R/bluetoe/sm/include -I$R/tests/test_tools -I$(dirname $0) "$src" "$@" -o $out/replay 2>$out/err || { cat $out/err | head -30; rm -rf $out; exit 3; }
$out/replay; rc=$?
rm -rf $out
exit $rc
