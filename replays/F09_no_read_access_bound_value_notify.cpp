// F09 / C06, C10: bind_characteristic_value< T, &v > + no_read_access + notify. The declaration announces "notify,
// not readable", which is a legitimate GATT characteristic. server::l2cap_output obtains the value to notify through
// attribute.access( read ) -- the same access type a client read uses -- and bind_characteristic_value dispatches
// `read` on has_read_access: the access yields read_not_permitted and l2cap_output silently drops the notification.
// Such a characteristic can never be notified. (fixed_value has the same structure.)
// Mirror image of F08; repairing both needs a way to tell "read for notification" from "read by the client".
#include "replay_common.hpp"

std::uint8_t value = 0x42;

using server_t = b::server<
    b::service< b::service_uuid16< 0x1000 >,
        // handles: 2 declaration, 3 value, 4 CCCD
        b::characteristic< b::characteristic_uuid16< 0x1001 >,
            b::bind_characteristic_value< std::uint8_t, &value >, b::no_read_access, b::no_write_access, b::notify > >,
    b::no_gap_service_for_gatt_servers >;

int main()
{
    fixture< server_t > f;

    auto decl = f.request( { 0x0A, 0x02, 0x00 } );
    dump( "characteristic declaration", decl );
    EXPECT( decl.size() == 6 && decl[ 1 ] == 0x10, "declared properties: notify only (0x10)" );

    auto rd = f.request( { 0x0A, 0x03, 0x00 } );
    dump( "Read Request value handle 3", rd );
    EXPECT( rd.size() == 5 && rd[ 0 ] == 0x01 && rd[ 4 ] == 0x02, "client read is refused with Read Not Permitted" );

    auto sub = f.request( { 0x12, 0x04, 0x00, 0x01, 0x00 } );
    EXPECT( sub.size() == 1 && sub[ 0 ] == 0x13, "client subscribes for notifications" );

    const bool queued = f.notify( value );
    EXPECT( queued, "server::notify( value ) reports the notification as queued" );

    auto n = f.output();
    dump( "l2cap_output", n );
    EXPECT( n.size() == 4 && n[ 0 ] == 0x1B && n[ 1 ] == 0x03 && n[ 3 ] == 0x42, "subscribed client receives the notification with the bound value" );

    REPLAY_END();
}
