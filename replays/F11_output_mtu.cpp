// F11 / C08: notifications are not bounded by the negotiated MTU.
#include "replay_common.hpp"
std::uint8_t big[ 40 ];
using server_t = b::server<
    b::service< b::service_uuid16< 0x1000 >,
        b::characteristic< b::characteristic_uuid16< 0x1001 >, b::bind_characteristic_value< std::uint8_t[ 40 ], &big >, b::notify > >,
    b::no_gap_service_for_gatt_servers, b::max_mtu_size< 65 > >;

int main()
{
    fixture< server_t > f;
    // client never sent Exchange MTU: negotiated MTU is 23
    dump( "subscribe", f.request( { 0x12, 0x04, 0x00, 0x01, 0x00 } ) );
    f.notify( big );
    auto pdu = f.output( 65 );   // link layer offers its full 65 byte buffer
    dump( "notification", pdu );
    std::printf( "negotiated mtu = %u\n", (unsigned)f.con.negotiated_mtu() );
    EXPECT( pdu.size() <= f.con.negotiated_mtu(), "notification PDU not longer than negotiated ATT MTU" );
    REPLAY_END();
}
