// F27 / C32, C33: LESC numeric comparison with an asynchronous user answer.
// A DHKey check (Ea) that arrives while the user has not answered yet is dropped by
// lesc_handle_pairing_dhkey_check (out_size = 0, nothing stored); after the user answers "yes",
// lesc_l2cap_output sends the peripheral's DHKey check (Eb), calls lesc_pairing_completed() and offers the
// LTK -- the central's Ea has never been compared with f6(...).
//
// run: BT_REPO=<repo> ./run.sh F27_lesc_dhkey_unchecked.cpp aes.o uECC.o $BT_REPO/bluetoe/utility/address.cpp
//      (aes.o / uECC.o: tests/test_tools/aes.c, uECC.c compiled with gcc -std=c99 [-DuECC_CURVE=uECC_secp256r1])
#include "replay_common.hpp"
#include <bluetoe/security_manager.hpp>

// test_sm.hpp (crypto reference functions + fixture) uses a few boost macros inside fixture functions that this
// replay does not call; give them harmless definitions to stay independent from boost
#define BOOST_REQUIRE( x ) do { if ( !( x ) ) { std::printf( "harness: %s\n", #x ); std::abort(); } } while ( 0 )
#define BOOST_CHECK_EQUAL_COLLECTIONS( a, b, c, d ) static_cast< void >( std::equal( a, b, c ) )
#include <tests/security_manager/test_sm.hpp>

struct pairing_io_t
{
    void sm_pairing_yes_no( b::pairing_yes_no_response& r ) { response_ = &r; }
    void sm_pairing_numeric_output( int ) {}
    void answer( bool yes ) { response_->yes_no_response( yes ); }
    b::pairing_yes_no_response* response_ = nullptr;
} pairing_io;

template < class Manager >
struct sm_fixture : test::security_manager_base< Manager, test::all_security_functions, 65,
    b::pairing_numeric_output< pairing_io_t, pairing_io >,
    b::pairing_yes_no< pairing_io_t, pairing_io > >
{
    std::vector< std::uint8_t > in( const std::vector< std::uint8_t >& pdu )
    {
        std::uint8_t buffer[ 65 ];
        std::size_t  size = sizeof( buffer );
        this->l2cap_input( pdu.data(), pdu.size(), buffer, size, this->connection_data_ );
        return std::vector< std::uint8_t >( buffer, buffer + size );
    }

    std::vector< std::uint8_t > out()
    {
        std::uint8_t buffer[ 65 ];
        std::size_t  size = sizeof( buffer );
        this->l2cap_output( buffer, size, this->connection_data_ );
        return std::vector< std::uint8_t >( buffer, buffer + size );
    }
};

static const std::vector< std::uint8_t > pairing_request = { 0x01, 0x01 /* DisplayYesNo */, 0x00, 0x08 /* SC */, 0x10, 0x07, 0x07 };
static const std::vector< std::uint8_t > public_key = {
    0x0C,
    0xe6, 0x9d, 0x35, 0x0e, 0x48, 0x01, 0x03, 0xcc, 0xdb, 0xfd, 0xf4, 0xac, 0x11, 0x91, 0xf4, 0xef,
    0xb9, 0xa5, 0xf9, 0xe9, 0xa7, 0x83, 0x2c, 0x5e, 0x2c, 0xbe, 0x97, 0xf2, 0xd2, 0x03, 0xb0, 0x20,
    0x8b, 0xd2, 0x89, 0x15, 0xd0, 0x8e, 0x1c, 0x74, 0x24, 0x30, 0xed, 0x8f, 0xc2, 0x45, 0x63, 0x76,
    0x5c, 0x15, 0x52, 0x5a, 0xbf, 0x9a, 0x32, 0x63, 0x6d, 0xeb, 0x2a, 0x65, 0x49, 0x9c, 0x80, 0xdc };
static const std::vector< std::uint8_t > pairing_random = { 0x04, 0,0,0,0, 0,0,0,0, 0,0,0,0, 0,0,0,0 };
// a DHKey check value an attacker made up: sixteen zero bytes
static const std::vector< std::uint8_t > bogus_dhkey_check = { 0x0D, 0,0,0,0, 0,0,0,0, 0,0,0,0, 0,0,0,0 };
// the genuine Ea for this exchange (from tests/security_manager/authentication_stage_tests2.cpp)
static const std::vector< std::uint8_t > good_dhkey_check = { 0x0D,
    0x68, 0xd6, 0x70, 0x63, 0xae, 0x09, 0x87, 0x88, 0xa0, 0x19, 0x56, 0xa0, 0xca, 0xf0, 0x5d, 0x9d };

template < class F >
void until_user_is_asked( F& f )
{
    pairing_io.response_ = nullptr;
    f.in( pairing_request );
    f.in( public_key );
    f.out();                    // pairing confirm
    f.in( pairing_random );     // displays the number, asks the user; answer is pending
}

template < class Manager >
void run( const char* name )
{
    std::printf( "--- %s\n", name );
    using state_t = b::details::sm_pairing_state;

    {   // history 1: bogus Ea arrives while waiting for the user, then the user says yes
        sm_fixture< Manager > f;
        until_user_is_asked( f );
        dump( "bogus DHKey check while waiting ->", f.in( bogus_dhkey_check ) );
        pairing_io.answer( true );
        const auto pdu = f.out();
        dump( "output after user said yes", pdu );

        EXPECT( pdu.empty() || pdu[ 0 ] != 0x0D, "no DHKey check (Eb) is sent when the central's Ea was wrong" );
        EXPECT( f.connection_data().state() != state_t::pairing_completed, "pairing is not completed with an unverified Ea" );
        EXPECT( !f.connection_data().find_key( 0, 0 ).first, "no LTK is offered after a pairing with a wrong Ea" );
    }

    {   // history 2: the user says yes before the central sent any DHKey check; the link layer polls l2cap_output
        sm_fixture< Manager > f;
        until_user_is_asked( f );
        pairing_io.answer( true );
        const auto pdu = f.out();
        dump( "output after user said yes, no Ea received", pdu );

        EXPECT( pdu.empty() || pdu[ 0 ] != 0x0D, "no DHKey check (Eb) is sent before the central's Ea was received" );
        EXPECT( f.connection_data().state() != state_t::pairing_completed, "pairing is not completed before Ea was received" );

        // the genuine exchange must still work
        const auto resp = f.in( good_dhkey_check );
        dump( "genuine DHKey check ->", resp );
        EXPECT( resp.size() == 17 && resp[ 0 ] == 0x0D, "genuine Ea after the user's yes is answered with Eb" );
        EXPECT( f.connection_data().state() == state_t::pairing_completed, "genuine exchange completes" );
    }

    {   // history 3 (must keep working): genuine Ea while waiting, then yes
        sm_fixture< Manager > f;
        until_user_is_asked( f );
        const auto none = f.in( good_dhkey_check );
        pairing_io.answer( true );
        const auto pdu = f.out();
        EXPECT( none.empty() && pdu.size() == 17 && pdu[ 0 ] == 0x0D, "genuine Ea while waiting + yes => Eb" );
        EXPECT( f.connection_data().find_key( 0, 0 ).first, "genuine exchange offers the LTK" );
    }
}

int main()
{
    run< b::lesc_security_manager >( "lesc_security_manager" );
    run< b::security_manager >( "security_manager" );
    REPLAY_END();
}
