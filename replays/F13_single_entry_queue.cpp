// F13 / C12: notification_queue_impl< 1, C > (specialisation used for a priority level with exactly one characteristic)
// keeps one three valued enum { empty, notification, indication }. A characteristic configured with notify and indicate
// can have both requested at the same time; the general implementation keeps two bits per characteristic and delivers
// both, the specialisation refuses the second request: server::indicate() returns false ("already queued") although no
// indication is queued and the indication is never sent.
#include "replay_common.hpp"

std::uint8_t val_a = 0xA1;
std::uint8_t val_b = 0xB2;

using char_a = b::characteristic< b::characteristic_uuid16< 0x1001 >, b::bind_characteristic_value< std::uint8_t, &val_a >, b::notify, b::indicate >;
using char_b = b::characteristic< b::characteristic_uuid16< 0x1002 >, b::bind_characteristic_value< std::uint8_t, &val_b >, b::notify, b::indicate >;

// exactly one characteristic with a CCCD -> notification_queue_impl< 1 >
using single_t = b::server< b::service< b::service_uuid16< 0x1000 >, char_a >, b::no_gap_service_for_gatt_servers >;
// two characteristics with a CCCD        -> notification_queue_impl< 2 > (reference behaviour)
using double_t = b::server< b::service< b::service_uuid16< 0x1000 >, char_a, char_b >, b::no_gap_service_for_gatt_servers >;

template < class Server >
static void history( const char* name, bool indication_first )
{
    std::printf( "--- %s, %s requested first\n", name, indication_first ? "indication" : "notification" );
    fixture< Server > f;
    // enable notifications and indications of a (CCCD handle 4)
    auto r = f.request( { 0x12, 0x04, 0x00, 0x03, 0x00 } );
    EXPECT( r.size() == 1 && r[ 0 ] == 0x13, "CCCD := 0x0003 accepted" );

    bool first, second;
    if ( indication_first ) { first = f.indicate( val_a ); second = f.notify( val_a ); }
    else                    { first = f.notify( val_a );   second = f.indicate( val_a ); }

    EXPECT( first,  "first request is queued" );
    EXPECT( second, "request of the other kind is queued too (it is not 'already queued')" );

    bool got_notification = false, got_indication = false;
    for ( int i = 0; i != 3; ++i )
    {
        auto pdu = f.output();
        dump( "l2cap_output", pdu );
        if ( pdu.size() == 4 && pdu[ 0 ] == 0x1B && pdu[ 1 ] == 0x03 ) got_notification = true;
        if ( pdu.size() == 4 && pdu[ 0 ] == 0x1D && pdu[ 1 ] == 0x03 ) got_indication = true;
    }
    EXPECT( got_notification, "the notification is sent" );
    EXPECT( got_indication,   "the indication is sent" );
}

int main()
{
    history< double_t >( "two characteristics (general queue)", false );
    history< double_t >( "two characteristics (general queue)", true );
    history< single_t >( "one characteristic (single entry queue)", false );
    history< single_t >( "one characteristic (single entry queue)", true );
    REPLAY_END();
}
