// F17 / C19: ll_l2cap_sdu_buffer::add_to_receive_buffer() computes the clamp copy_size but copies [begin, end).
// A continuation fragment that carries more bytes than the SDU still misses (or that arrives while no reassembly
// is in progress) is written beyond the announced SDU / beyond receive_buffer_ into the members that follow.
//
// The real ll_data_pdu_buffer is used as BufferedRadio; PDUs enter through received() as from the radio ISR.
#include <iterator>
#include <tuple>
#include <array>
#include <cstdint>
#include <cstddef>
#include <cstring>
#include <cstdio>
#include <cassert>
#include <vector>
#include <bluetoe/ll_data_pdu_buffer.hpp>
#include <bluetoe/ll_l2cap_sdu_buffer.hpp>

static int failures = 0;
#define EXPECT( cond, text ) do { if ( !( cond ) ) { std::printf( "DEFECT: %s\n", text ); ++failures; } else { std::printf( "ok: %s\n", text ); } } while ( 0 )

namespace ll = bluetoe::link_layer;

struct lock_guard_t {};

static constexpr std::size_t mtu = 40;

struct radio_t : ll::ll_l2cap_sdu_buffer< ll::ll_data_pdu_buffer< 200, 600, radio_t >, radio_t, mtu >
{
    using lock_guard = lock_guard_t;
    using pdu_layout = ll::default_pdu_layout;

    void increment_receive_packet_counter()  {}
    void increment_transmit_packet_counter() {}
    void pdu_receive_data_callback( const ll::write_buffer& ) {}

    bool sn = false;

    // what the radio ISR does with a received data PDU with valid CRC
    // (SN and NESN as a well behaving central that received every response would set them)
    ll::write_buffer air( std::uint8_t llid, const std::vector< std::uint8_t >& body )
    {
        auto pdu = this->allocate_receive_buffer();
        assert( pdu.size >= body.size() + 2 );
        pdu_layout::header( pdu, llid | ( sn ? 8 : 0 ) | ( sn ? 4 : 0 ) | ( body.size() << 8 ) );
        std::copy( body.begin(), body.end(), pdu.buffer + 2 );
        sn = !sn;
        return this->received( pdu );
    }

    std::vector< std::uint8_t > deliver()
    {
        const auto sdu = this->next_ll_l2cap_received();
        std::vector< std::uint8_t > result;
        if ( sdu.size > mtu + 6 )
        {
            std::printf( "DEFECT: delivered SDU (%zu bytes) is larger than the reassembly buffer\n", sdu.size );
            ++failures;
        }
        else if ( sdu.size )
        {
            // what link_layer::handle_received_data() hands to the L2CAP layer
            result.assign( sdu.buffer + 2, sdu.buffer + sdu.size );
            this->free_ll_l2cap_received();
        }
        return result;
    }

    bool something_to_transmit()
    {
        return this->pending_outgoing_data_available();
    }
};

static void dump( const char* what, const std::vector< std::uint8_t >& v )
{
    std::printf( "%s [%zu]:", what, v.size() );
    for ( auto c : v ) std::printf( " %02x", c );
    std::printf( "\n" );
}

int main()
{
    std::setvbuf( stdout, nullptr, _IONBF, 0 );

    // Scenario 1: default LL payload size (27), ATT MTU 40.
    // Start fragment announces a 40 byte L2CAP payload and carries 4 + 23 bytes. 17 bytes are missing.
    // The continuation fragment carries 27 bytes (a legal LL PDU size): 10 bytes too much.
    {
        radio_t radio;
        radio.reset_pdu_buffer();

        std::vector< std::uint8_t > start = { 40, 0, 0x04, 0x00 };
        for ( int i = 0; i != 23; ++i ) start.push_back( 0x40 + i );

        std::vector< std::uint8_t > cont;
        for ( int i = 0; i != 17; ++i ) cont.push_back( 0x80 + i );
        // the 10 excess bytes; with g++ / x86-64 they end up in: 1 byte padding, receive_size_, low 7 bytes of receive_buffer_used_
        const std::uint8_t excess[] = { 0, 17, 0, 3, 0, 0, 0, 0, 0, 0 };
        cont.insert( cont.end(), std::begin( excess ), std::end( excess ) );

        radio.air( 2, start );
        EXPECT( radio.deliver().empty(), "nothing delivered while the SDU is incomplete" );
        radio.air( 1, cont );

        const auto sdu = radio.deliver();
        dump( "delivered", sdu );

        std::vector< std::uint8_t > expected = start;
        expected.insert( expected.end(), cont.begin(), cont.begin() + 17 );

        EXPECT( sdu == expected, "SDU delivered with exactly the announced 4 + 40 bytes, excess bytes of the last fragment dropped" );
    }

    // Scenario 2: LL payload size raised to 251 (LL length update), ATT MTU 40: reassembly buffer is 46 bytes.
    // A continuation fragment arrives while no SDU is being reassembled. It must be ignored.
    {
        radio_t radio;
        radio.reset_pdu_buffer();
        radio.max_rx_size( 251 );

        // with g++ / x86-64: 46 bytes receive_buffer_, padding, receive_size_, receive_buffer_used_ (all 0), then 46 bytes
        // transmit_buffer_, then transmit_size_
        std::vector< std::uint8_t > stray( 57, 0 );
        const std::uint8_t forged[ 46 ] = { 0x00, 0x00, 0x04, 0x00, 0x04, 0x00, 0x1b, 0x03, 0x00, 0x66 };  // ATT notification, handle 3
        stray.insert( stray.end(), std::begin( forged ), std::end( forged ) );
        stray.push_back( 10 );
        stray.push_back( 0 );

        radio.air( 1, stray );
        const auto sdu = radio.deliver();
        dump( "delivered", sdu );
        EXPECT( sdu.empty(), "stray continuation fragment delivers nothing" );

        radio.next_ll_l2cap_received();
        const bool injected = radio.something_to_transmit();
        if ( injected )
        {
            // next connection event: central sends an empty PDU, the response is:
            const auto out = radio.air( 1, {} );
            dump( "peripheral now transmits", std::vector< std::uint8_t >( out.buffer, out.buffer + out.size ) );
        }
        EXPECT( !injected, "stray continuation fragment does not make the peripheral transmit a PDU" );
        EXPECT( radio.allocate_l2cap_transmit_buffer( 10 ).size != 0, "L2CAP transmit buffer still available after stray fragment" );
    }

    // Scenario 3: plain reassembly still works
    {
        radio_t radio;
        radio.reset_pdu_buffer();

        radio.air( 2, { 30, 0, 0x04, 0x00, 1, 2, 3, 4, 5, 6, 7, 8, 9, 10 } );
        radio.air( 1, { 11, 12, 13, 14, 15, 16, 17, 18, 19, 20 } );
        radio.air( 1, { 21, 22, 23, 24, 25, 26, 27, 28, 29, 30 } );
        std::vector< std::uint8_t > expected = { 30, 0, 0x04, 0x00 };
        for ( int i = 1; i <= 30; ++i ) expected.push_back( i );
        EXPECT( radio.deliver() == expected, "three fragments are reassembled to the original SDU" );
    }

    return failures ? 1 : 0;
}
