// Common prelude for replay programs: concrete demonstrations of findings against the real code.
// Replays are run once during triage (./run.sh), never by a check.
#ifndef VERIF_REPLAY_COMMON_HPP
#define VERIF_REPLAY_COMMON_HPP
#include <iterator>
#include <tuple>
#include <array>
#include <cstdint>
#include <cstddef>
#include <cstring>
#include <cstdio>
#include <cstdlib>
#include <algorithm>
#include <vector>
#include <initializer_list>
#include <bluetoe/server.hpp>
#include <bluetoe/service.hpp>
#include <bluetoe/characteristic.hpp>
#include <bluetoe/link_state.hpp>

namespace b = bluetoe;

template < class Server >
struct fixture : Server
{
    using conn_t = typename Server::template channel_data_t< b::details::link_state >;
    conn_t       con;
    std::uint8_t out[ 300 ];
    std::size_t  out_size;

    fixture() { this->notification_callback( &cb, this ); }

    std::vector< std::uint8_t > request( std::initializer_list< std::uint8_t > in, std::size_t buffer = 23 )
    {
        std::vector< std::uint8_t > v( in );
        return request( v, buffer );
    }
    std::vector< std::uint8_t > request( const std::vector< std::uint8_t >& v, std::size_t buffer = 23 )
    {
        out_size = buffer;
        std::memset( out, 0xAA, sizeof( out ) );
        this->l2cap_input( v.data(), v.size(), out, out_size, con );
        return std::vector< std::uint8_t >( out, out + out_size );
    }
    std::vector< std::uint8_t > output( std::size_t buffer = 23 )
    {
        out_size = buffer;
        this->l2cap_output( out, out_size, con );
        return std::vector< std::uint8_t >( out, out + out_size );
    }
    static bool cb( const b::details::notification_data& item, void* that, b::details::notification_type type )
    {
        auto& c = static_cast< fixture* >( that )->con;
        switch ( type ) {
        case b::details::notification_type::notification: return c.queue_notification( item.client_characteristic_configuration_index() );
        case b::details::notification_type::indication:   return c.queue_indication( item.client_characteristic_configuration_index() );
        case b::details::notification_type::confirmation: c.indication_confirmed(); return true;
        }
        return true;
    }
};

inline void dump( const char* what, const std::vector< std::uint8_t >& v )
{
    std::printf( "%s [%zu]:", what, v.size() );
    for ( auto c : v ) std::printf( " %02x", c );
    std::printf( "\n" );
}

static int failures = 0;
#define EXPECT( cond, text ) do { if ( !( cond ) ) { std::printf( "DEFECT: %s\n", text ); ++failures; } else { std::printf( "ok: %s\n", text ); } } while ( 0 )
#define REPLAY_END() return failures ? 1 : 0

#endif
