// F25 (C29): connection_callbacks: the result of events_.try_push() is dropped by all producers; the event ring has
// room for 4 events, handle_connection_events() runs once per radio callback (end_event / timeout / adv_received).
//
// History: connection established (reported). In the next, single connection event the central sends (MD bit set)
//          LL_REJECT_IND, LL_REJECT_IND, LL_REJECT_IND, LL_REJECT_IND, LL_TERMINATE_IND.
//          All five PDUs are handled by one call to end_event(): 4 x `rejected` fill the ring, `closed` is dropped.
//
// Promised behaviour (C29): every connection that was reported as established is reported as closed
// (ll_connection_closed() with the reason of the LL_TERMINATE_IND, 0x13), before the next connection is reported.
// Defective behaviour: ll_connection_closed() is never called; the application believes to be connected while the
// link layer is advertising again, and sees a second ll_connection_established() without a close in between.
//
// run: BT_REPO=<repo> ./run.sh F25_connection_event_lost.cpp $BT_REPO/tests/test_tools/test_radio.cpp \
//        $BT_REPO/tests/test_tools/test_servers.cpp $BT_REPO/tests/test_tools/hexdump.cpp \
//        $BT_REPO/bluetoe/link_layer/*.cpp $BT_REPO/bluetoe/utility/address.cpp -lboost_unit_test_framework
#include "replay_common.hpp"

#include <boost/test/unit_test.hpp>   // declarations only: connected.hpp / test_radio.cpp refer to BOOST_CHECK

#include <../link_layer/connected.hpp>
#include <string>

struct callbacks_t
{
    template < typename ConnectionData >
    void ll_connection_established( const bluetoe::link_layer::connection_details&, const bluetoe::link_layer::connection_addresses&, const ConnectionData& )
    {
        log += "E";
    }

    template < typename ConnectionData >
    void ll_connection_closed( std::uint8_t reason, const ConnectionData& )
    {
        if ( log.find( 'C' ) == std::string::npos )
            closed_reason = reason;

        log += "C";
    }

    template < typename ConnectionData >
    void ll_rejected( std::uint8_t, const ConnectionData& )
    {
        log += "r";
    }

    std::string  log;
    std::uint8_t closed_reason = 0;     // of the first close
} callbacks;

using link_layer_t = unconnected_base<
    test::buffer_sizes,
    bluetoe::link_layer::connection_callbacks< callbacks_t, callbacks > >;

int main()
{
    link_layer_t ll;

    static const test::pdu_t empty{ 0x01, 0x00 };
    static const test::pdu_t reject{ 0x03, 0x02, 0x0d, 0x1a };      // LL_REJECT_IND, unsupported remote feature
    static const test::pdu_t terminate{ 0x03, 0x02, 0x02, 0x13 };   // LL_TERMINATE_IND, remote user terminated connection

    // connection 1
    ll.respond_to( 37, valid_connection_request_pdu );

    // connection_callbacks wake up the radio (ending test::radio::run(), which restarts the central's sequence
    // numbers) when events are reported: keep the number of PDUs in every connection event even.
    ll.add_connection_event_respond( test::connection_event_response( test::pdu_list_t{ empty, empty } ) );
    ll.add_connection_event_respond( test::connection_event_response(
        test::pdu_list_t{ reject, reject, reject, reject, terminate, empty } ) );

    // connection 2
    ll.respond_to( 37, valid_connection_request_pdu );
    ll.add_connection_event_respond( test::connection_event_response( test::pdu_list_t{ empty, empty } ) );
    ll.add_connection_event_respond( test::connection_event_response( test::pdu_list_t{ empty, empty } ) );

    ll.end_of_simulation( bluetoe::link_layer::delta_time::seconds( 2 ) );
    ll.run( 8 );

    std::printf( "reported events (E established, r rejected, C closed): %s\n", callbacks.log.c_str() );

    const auto first_established  = callbacks.log.find( 'E' );
    const auto second_established = first_established == std::string::npos ? std::string::npos : callbacks.log.find( 'E', first_established + 1 );
    const auto first_closed       = callbacks.log.find( 'C' );

    if ( first_established == std::string::npos || second_established == std::string::npos )
    {
        std::printf( "replay broken: two established connections expected\n" );
        return 2;
    }

    EXPECT( first_closed != std::string::npos && first_closed < second_established && callbacks.closed_reason == 0x13,
        "the first connection is reported as closed (reason 0x13) before the second one is reported as established" );

    REPLAY_END();
}
