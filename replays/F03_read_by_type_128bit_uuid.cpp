// F03 / C02: Read By Type Request with a 128 bit characteristic UUID never matches: uuid_filter asks the attribute with
// attribute_access_type::compare_128bit_uuid, but no attribute access function implements that access type.
#include "replay_common.hpp"

std::uint8_t v1 = 0x41, v2 = 0x42, v3 = 0x43;

using server_t = b::server<
    b::service< b::service_uuid< 0x8C8B4094, 0x0DE2, 0x499F, 0xA28A, 0x4EED5BC73CA9 >,
        b::characteristic< b::characteristic_uuid< 0x8C8B4094, 0x0DE2, 0x499F, 0xA28A, 0x4EED5BC73CAA >, b::bind_characteristic_value< std::uint8_t, &v1 > >,
        b::characteristic< b::characteristic_uuid16< 0xAAA2 >, b::bind_characteristic_value< std::uint8_t, &v2 > >,
        b::characteristic< b::characteristic_uuid< 0x8C8B4094, 0x0DE2, 0x499F, 0xA28A, 0x4EED5BC73CAC >, b::bind_characteristic_value< std::uint8_t, &v3 > > >,
    b::no_gap_service_for_gatt_servers >;

using bytes = std::vector< std::uint8_t >;

int main()
{
    fixture< server_t > f;

    // Find Information shows that attribute 3 has the type 8C8B4094-0DE2-499F-A28A-4EED5BC73CAA
    auto rsp = f.request( { 0x04, 0x03, 0x00, 0x03, 0x00 } );
    dump( "Find Information 3..3", rsp );
    EXPECT( ( rsp == bytes{ 0x05, 0x02, 0x03, 0x00, 0xAA, 0x3C, 0xC7, 0x5B, 0xED, 0x4E, 0x8A, 0xA2, 0x9F, 0x49, 0xE2, 0x0D, 0x94, 0x40, 0x8B, 0x8C } ),
        "attribute 0x0003 has the 128 bit type 8C8B4094-0DE2-499F-A28A-4EED5BC73CAA" );

    // Read Using Characteristic UUID: Read By Type Request 0x0001..0xffff with that very same 128 bit UUID
    rsp = f.request( { 0x08, 0x01, 0x00, 0xff, 0xff, 0xAA, 0x3C, 0xC7, 0x5B, 0xED, 0x4E, 0x8A, 0xA2, 0x9F, 0x49, 0xE2, 0x0D, 0x94, 0x40, 0x8B, 0x8C } );
    dump( "Read By Type 128 bit uuid", rsp );
    EXPECT( ( rsp == bytes{ 0x09, 0x03, 0x03, 0x00, 0x41 } ), "Read By Type with the 128 bit UUID of attribute 0x0003 returns its value" );

    // control: the 16 bit sibling works
    rsp = f.request( { 0x08, 0x01, 0x00, 0xff, 0xff, 0xA2, 0xAA } );
    dump( "Read By Type 16 bit uuid", rsp );
    EXPECT( ( rsp == bytes{ 0x09, 0x03, 0x05, 0x00, 0x42 } ), "Read By Type with the 16 bit UUID of attribute 0x0005 returns its value" );

    rsp = f.request( { 0x08, 0x01, 0x00, 0xff, 0xff, 0xAC, 0x3C, 0xC7, 0x5B, 0xED, 0x4E, 0x8A, 0xA2, 0x9F, 0x49, 0xE2, 0x0D, 0x94, 0x40, 0x8B, 0x8C } );
    dump( "Read By Type second 128 bit uuid", rsp );
    EXPECT( ( rsp == bytes{ 0x09, 0x03, 0x07, 0x00, 0x43 } ), "Read By Type with the 128 bit UUID of attribute 0x0007 returns its value" );

    // a 128 bit UUID, that is not used by any attribute
    rsp = f.request( { 0x08, 0x01, 0x00, 0xff, 0xff, 0xAB, 0x3C, 0xC7, 0x5B, 0xED, 0x4E, 0x8A, 0xA2, 0x9F, 0x49, 0xE2, 0x0D, 0x94, 0x40, 0x8B, 0x8C } );
    dump( "Read By Type unknown 128 bit uuid", rsp );
    EXPECT( ( rsp == bytes{ 0x01, 0x08, 0x01, 0x00, 0x0a } ), "Read By Type with an unknown 128 bit UUID answers Attribute Not Found" );

    REPLAY_END();
}
