// F32 / C39: bootloader control point, opcode Read (0x08): bootloader_write_control_point() reads the start and the
// end address (2 * sizeof( std::uint8_t* ) bytes) from the written value without looking at write_size. A write of
// the single opcode byte makes the bootloader interpret the 16 bytes behind the value (whatever the receive buffer
// contains there) as addresses and start a Read procedure with them. All other opcodes with parameters check
// write_size first and answer Invalid Attribute Value Length.
//
// run: BT_REPO=<repo> ./run.sh F32_bootloader_read_no_length_check.cpp
#include "replay_common.hpp"
#include <bluetoe/services/bootloader.hpp>

struct handler_t
{
    std::pair< const std::uint8_t*, std::size_t > get_version()
    {
        static const std::uint8_t version[] = { 0x47, 0x11 };
        return { version, sizeof( version ) };
    }

    void read_mem( std::uintptr_t address, std::size_t size, std::uint8_t* destination )
    {
        for ( ; size; --size, ++address, ++destination )
            *destination = static_cast< std::uint8_t >( address );
    }

    std::uint32_t checksum32( std::uintptr_t, std::size_t ) { return 0; }
    std::uint32_t checksum32( const std::uint8_t*, std::size_t, std::uint32_t crc ) { return crc; }
    std::uint32_t checksum32( std::uintptr_t ) { return 0; }
    std::uint32_t public_checksum32( std::uintptr_t, std::size_t ) { return 0; }

    b::bootloader::error_codes public_read_mem( std::uintptr_t address, std::size_t size, std::uint8_t* destination )
    {
        std::printf( "   public_read_mem( 0x%lx, %zu )\n", static_cast< unsigned long >( address ), size );
        ++public_reads;
        read_mem( address, size, destination );
        return b::bootloader::error_codes::success;
    }

    b::bootloader::error_codes start_flash( std::uintptr_t, const std::uint8_t*, std::size_t ) { return b::bootloader::error_codes::success; }
    b::bootloader::error_codes run( std::uintptr_t ) { return b::bootloader::error_codes::success; }
    b::bootloader::error_codes reset() { return b::bootloader::error_codes::success; }
    void control_point_notification_call_back() {}
    void data_indication_call_back() { ++read_procedures_started; }

    int read_procedures_started = 0;
    int public_reads = 0;
};

using server_t = b::server<
    b::bootloader_service<
        b::bootloader::page_size< 0x100 >,
        b::bootloader::handler< handler_t >,
        b::bootloader::white_list< b::bootloader::memory_region< 0x1000, 0x1400 > > >,
    b::no_gap_service_for_gatt_servers >;

static constexpr std::uint8_t cp_value_handle   = 0x03;
static constexpr std::uint8_t data_value_handle = 0x06;

static void add_ptr( std::vector< std::uint8_t >& v, std::uintptr_t p )
{
    for ( std::size_t i = 0; i != sizeof( p ); ++i, p >>= 8 )
        v.push_back( p & 0xff );
}

int main()
{
    fixture< server_t > f;

    // harness sanity: the handles used below are the control point and data value handles
    const auto decl = f.request( { 0x08, 0x01, 0x00, 0xff, 0xff, 0x03, 0x28 }, 100 );
    if ( decl.size() < 2 + 5 || decl[ 0 ] != 0x09 || decl[ 2 + 3 ] != cp_value_handle )
    {
        dump( "unexpected attribute layout", decl );
        return 3;
    }
    f.request( { 0x12, 0x04, 0x00, 0x01, 0x00 } );  // subscribe control point
    f.request( { 0x12, 0x07, 0x00, 0x02, 0x00 } );  // subscribe data

    // The receive buffer: earlier it held a complete, legitimate Read request for 0x1000..0x1020. Now a write of just
    // the opcode arrives (4 byte ATT PDU); the bytes behind it are leftovers that are not part of the written value.
    std::vector< std::uint8_t > receive_buffer = { 0x12, cp_value_handle, 0x00, 0x08 };
    add_ptr( receive_buffer, 0x1000 );
    add_ptr( receive_buffer, 0x1020 );
    const std::size_t pdu_size = 4;

    std::uint8_t out[ 23 ];
    std::size_t  out_size = sizeof( out );
    f.l2cap_input( receive_buffer.data(), pdu_size, out, out_size, f.con );
    const std::vector< std::uint8_t > response( out, out + out_size );
    dump( "response to Read with no addresses (value = 08)", response );

    const std::vector< std::uint8_t > invalid_length = { 0x01, 0x12, cp_value_handle, 0x00, 0x0d };
    EXPECT( response == invalid_length, "Read opcode without addresses is rejected with Invalid Attribute Value Length" );
    EXPECT( f.read_procedures_started == 0, "no Read procedure is started from bytes that are not part of the written value" );

    // a truncated request (only the start address) is rejected as well
    std::vector< std::uint8_t > truncated = { 0x12, cp_value_handle, 0x00, 0x08 };
    add_ptr( truncated, 0x1000 );
    truncated.resize( truncated.size() + sizeof( std::uintptr_t ), 0x10 );  // bytes behind the PDU
    out_size = sizeof( out );
    f.read_procedures_started = 0;
    f.l2cap_input( truncated.data(), 4 + sizeof( std::uintptr_t ), out, out_size, f.con );
    EXPECT( std::vector< std::uint8_t >( out, out + out_size ) == invalid_length && f.read_procedures_started == 0,
        "Read opcode with only a start address is rejected with Invalid Attribute Value Length" );

    // control: a complete request still works
    std::vector< std::uint8_t > complete = { 0x12, cp_value_handle, 0x00, 0x08 };
    add_ptr( complete, 0x1000 );
    add_ptr( complete, 0x1010 );
    f.read_procedures_started = 0;
    const auto ok = f.request( complete );
    EXPECT( ok == std::vector< std::uint8_t >{ 0x13 } && f.read_procedures_started == 1, "complete Read request is accepted" );

    REPLAY_END();
}
