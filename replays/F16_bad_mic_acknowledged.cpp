// F16 / C17, C16, C15: ll_data_pdu_buffer::acknowledge( read_buffer ) -- the function the radio ISR calls for a PDU
// with valid CRC but invalid MIC -- toggles next_expected_sequence_number_ when the PDU is NEW ( SN == expected ).
// The central then sees NESN != its SN, treats the PDU as delivered and never resends it, but the peripheral
// neither stored it nor advanced its receive packet counter.
#include <iterator>
#include <tuple>
#include <array>
#include <cstdint>
#include <cstddef>
#include <cstring>
#include <cstdio>
#include <initializer_list>
#include <bluetoe/ll_data_pdu_buffer.hpp>

static int failures = 0;
#define EXPECT( cond, text ) do { if ( !( cond ) ) { std::printf( "DEFECT: %s\n", text ); ++failures; } else { std::printf( "ok: %s\n", text ); } } while ( 0 )

struct lock_guard_t {};

struct radio_t : bluetoe::link_layer::ll_data_pdu_buffer< 100, 100, radio_t >
{
    using lock_guard = lock_guard_t;
    using layout     = bluetoe::link_layer::pdu_layout_by_radio< radio_t >::pdu_layout;

    int rx_counter = 0;
    int tx_counter = 0;

    void increment_receive_packet_counter()  { ++rx_counter; }
    void increment_transmit_packet_counter() { ++tx_counter; }

    bluetoe::link_layer::read_buffer incoming( std::initializer_list< std::uint8_t > body, bool sn, bool nesn )
    {
        auto pdu = this->allocate_receive_buffer();
        std::uint16_t header = 2 | ( body.size() << 8 ) | ( sn ? 8 : 0 ) | ( nesn ? 4 : 0 );
        layout::header( pdu, header );
        std::copy( body.begin(), body.end(), layout::body( pdu ).first );
        return pdu;
    }

    // radio ISR: CRC ok, MIC ok
    bluetoe::link_layer::write_buffer good( std::initializer_list< std::uint8_t > body, bool sn, bool nesn )
    {
        return this->received( incoming( body, sn, nesn ) );
    }

    // radio ISR: CRC ok, MIC not ok
    bluetoe::link_layer::write_buffer bad_mic( std::initializer_list< std::uint8_t > body, bool sn, bool nesn )
    {
        return this->acknowledge( incoming( body, sn, nesn ) );
    }

    static bool nesn_of( bluetoe::link_layer::write_buffer b )
    {
        return ( layout::header( b ) & 4 ) != 0;
    }
};

int main()
{
    radio_t radio;
    radio.reset_pdu_buffer();

    // connection event 1: central sends its very first data PDU ( SN = 0, NESN = 0 ), CRC is ok but the MIC is broken
    const auto response = radio.bad_mic( { 0xde, 0xad, 0xbe, 0xef, 1, 2, 3, 4 }, false, false );

    std::printf( "response NESN = %d, receive packet counter = %d, stored = %zu\n",
        (int)radio_t::nesn_of( response ), radio.rx_counter, radio.next_received().size );

    EXPECT( radio.next_received().size == 0, "PDU with bad MIC is not handed to the link layer" );
    EXPECT( radio.rx_counter == 0, "receive packet counter not advanced by a PDU with bad MIC" );
    EXPECT( radio_t::nesn_of( response ) == false, "new PDU with bad MIC is not acknowledged (NESN in response still asks for SN 0)" );

    // connection event 2: the central resends (as it must, if it was not acknowledged) the PDU, this time undamaged
    radio.good( { 0x11, 0x22 }, false, true );
    EXPECT( radio.next_received().size != 0, "the resent, now valid PDU with SN 0 is delivered" );
    EXPECT( radio.rx_counter == 1, "receive packet counter advanced exactly once for the delivered PDU" );

    // the other direction must still work: a resent PDU (SN != expected) with bad MIC acknowledges our transmission
    {
        radio_t r2;
        r2.reset_pdu_buffer();
        auto out = r2.allocate_transmit_buffer( radio_t::layout::data_channel_pdu_memory_size( 1 ) );
        radio_t::layout::header( out, 2 | ( 1 << 8 ) );
        r2.commit_transmit_buffer( out );

        r2.good( { 0x11 }, false, false );             // new PDU, stored; our PDU goes out with SN 0
        const auto again = r2.bad_mic( { 0x11 }, false, true );   // resent by central (our ack got lost), acks our SN 0
        EXPECT( r2.tx_counter == 1, "resent PDU with bad MIC still acknowledges the transmitted PDU" );
        EXPECT( r2.rx_counter == 1, "resent PDU with bad MIC does not advance the receive counter" );
        EXPECT( radio_t::nesn_of( again ) == true, "resent PDU stays acknowledged" );
    }

    return failures ? 1 : 0;
}
