// F28 / C35: combined security manager (bluetoe::security_manager), LESC pairing.
// When lesc_select_pairing_algorithm() selects passkey entry or OOB, the LESC handlers nevertheless run the
// Just Works exchange (a single confirm/random round with f4(..., 0), DHKey check f6 with r = 0, no passkey is
// displayed or read, no OOB data is used). security_connection_data::lesc_pairing_completed() then reports
// authenticated_key for every algorithm other than just_works.
//
// run: BT_REPO=<repo> ./run.sh F28_lesc_status_without_protocol.cpp aes.o uECC.o $BT_REPO/bluetoe/utility/address.cpp
//      (aes.o / uECC.o: tests/test_tools/aes.c, uECC.c compiled with gcc -std=c99 [-DuECC_CURVE=uECC_secp256r1])
#include "replay_common.hpp"
#include <bluetoe/security_manager.hpp>

#define BOOST_REQUIRE( x ) do { if ( !( x ) ) { std::printf( "harness: %s\n", #x ); std::abort(); } } while ( 0 )
#define BOOST_CHECK_EQUAL_COLLECTIONS( a, b, c, d ) static_cast< void >( std::equal( a, b, c ) )
#include <tests/security_manager/test_sm.hpp>

struct display_t
{
    void sm_pairing_numeric_output( int ) { ++shown; }
    int shown = 0;
} display;

template < class Manager, class ... Options >
struct sm_fixture : test::security_manager_base< Manager, test::all_security_functions, 65, Options... >
{
    std::vector< std::uint8_t > in( const std::vector< std::uint8_t >& pdu )
    {
        std::uint8_t buffer[ 65 ];
        std::size_t  size = sizeof( buffer );
        this->l2cap_input( pdu.data(), pdu.size(), buffer, size, this->connection_data_ );
        return std::vector< std::uint8_t >( buffer, buffer + size );
    }

    std::vector< std::uint8_t > out()
    {
        std::uint8_t buffer[ 65 ];
        std::size_t  size = sizeof( buffer );
        this->l2cap_output( buffer, size, this->connection_data_ );
        return std::vector< std::uint8_t >( buffer, buffer + size );
    }
};

// The central: key pair "A" of the Core specification's sample data (Vol 3, Part H, D.1), little endian
static const std::array< std::uint8_t, 32 > central_private_key = {{
    0xbd, 0x1a, 0x3c, 0xcd, 0xa6, 0xb8, 0x99, 0x58, 0x99, 0xb7, 0x40, 0xeb, 0x7b, 0x60, 0xff, 0x4a,
    0x50, 0x3f, 0x10, 0xd2, 0xe3, 0xb3, 0xc9, 0x74, 0x38, 0x5f, 0xc5, 0xa3, 0xd4, 0xf6, 0x49, 0x3f }};
static const std::vector< std::uint8_t > central_public_key = {
    0x0C,
    0xe6, 0x9d, 0x35, 0x0e, 0x48, 0x01, 0x03, 0xcc, 0xdb, 0xfd, 0xf4, 0xac, 0x11, 0x91, 0xf4, 0xef,
    0xb9, 0xa5, 0xf9, 0xe9, 0xa7, 0x83, 0x2c, 0x5e, 0x2c, 0xbe, 0x97, 0xf2, 0xd2, 0x03, 0xb0, 0x20,
    0x8b, 0xd2, 0x89, 0x15, 0xd0, 0x8e, 0x1c, 0x74, 0x24, 0x30, 0xed, 0x8f, 0xc2, 0x45, 0x63, 0x76,
    0x5c, 0x15, 0x52, 0x5a, 0xbf, 0x9a, 0x32, 0x63, 0x6d, 0xeb, 0x2a, 0x65, 0x49, 0x9c, 0x80, 0xdc };

// A central that drives nothing but the LESC Just Works exchange (one round, ra = rb = 0), whatever was "selected".
// returns true, if the peripheral answered with its DHKey check
template < class F >
bool just_works_exchange( F& f, std::uint8_t io_capability, std::uint8_t oob_flag, std::uint8_t auth_req )
{
    const b::link_layer::random_device_address central_address( { 0xa6, 0xa5, 0xa4, 0xa3, 0xa2, 0xa1 } );

    const auto rsp = f.in( { 0x01, io_capability, oob_flag, auth_req, 0x10, 0x00, 0x00 } );
    dump( "pairing response", rsp );
    if ( rsp.size() != 7 || rsp[ 0 ] != 0x02 ) return false;

    const auto pkb = f.in( central_public_key );
    if ( pkb.size() != 65 || pkb[ 0 ] != 0x0c ) return false;

    const auto cb = f.out();
    if ( cb.size() != 17 || cb[ 0 ] != 0x03 ) return false;

    const b::details::uint128_t na = {{ 0 }};
    std::vector< std::uint8_t > random( 17, 0 );
    random[ 0 ] = 0x04;
    const auto rnd = f.in( random );
    if ( rnd.size() != 17 || rnd[ 0 ] != 0x04 ) return false;

    b::details::uint128_t nb;
    std::copy( rnd.begin() + 1, rnd.end(), nb.begin() );

    // Just Works check of Cb = f4( PKbx, PKax, Nb, 0 ) as the central would do it
    const auto expected_cb = f.f4( &pkb[ 1 ], &central_public_key[ 1 ], nb, 0 );
    std::printf( "peripheral's confirm value is the Just Works one f4( PKb, PKa, Nb, 0 ): %s\n",
        std::equal( expected_cb.begin(), expected_cb.end(), cb.begin() + 1 ) ? "yes" : "no" );

    // Ea = f6( MacKey, Na, Nb, 0, IOcapA, A, B )
    const auto dh_key = f.p256( central_private_key.data(), &pkb[ 1 ] );
    b::details::uint128_t mac_key, ltk;
    std::tie( mac_key, ltk ) = f.f5( dh_key, na, nb, central_address, f.local_address() );
    const b::details::uint128_t zero = {{ 0 }};
    const b::details::io_capabilities_t io_caps = {{ io_capability, oob_flag, auth_req }};
    const auto ea = f.f6( mac_key, na, nb, zero, io_caps, central_address, f.local_address() );

    std::vector< std::uint8_t > dhkey_check( 17, 0x0D );
    std::copy( ea.begin(), ea.end(), dhkey_check.begin() + 1 );
    const auto eb = f.in( dhkey_check );
    dump( "answer to DHKey check (r = 0)", eb );

    return eb.size() == 17 && eb[ 0 ] == 0x0D;
}

static const char* name( b::device_pairing_status s )
{
    switch ( s ) {
    case b::device_pairing_status::no_key: return "no_key";
    case b::device_pairing_status::unauthenticated_key: return "unauthenticated_key";
    case b::device_pairing_status::authenticated_key: return "authenticated_key";
    default: return "authenticated_key_with_secure_connection";
    }
}

int main()
{
    {
        std::printf( "--- display only peripheral, central claims KeyboardOnly => passkey_entry_display selected\n" );
        sm_fixture< b::security_manager, b::pairing_numeric_output< display_t, display > > f;
        const bool completed = just_works_exchange( f, 0x02 /* KeyboardOnly */, 0x00, 0x08 /* SC */ );
        const auto status = f.connection_data().local_device_pairing_status();
        std::printf( "pairing completed: %d, passkeys displayed: %d, status: %s\n", completed, display.shown, name( status ) );

        EXPECT( !( completed && display.shown == 0 && status == b::device_pairing_status::authenticated_key ),
            "a Just Works exchange (no passkey displayed) is not reported as authenticated_key" );
    }

    {
        std::printf( "--- no IO capabilities, no OOB callback configured, central sets the OOB data flag => oob_authentication selected\n" );
        sm_fixture< b::security_manager > f;
        const bool completed = just_works_exchange( f, 0x03 /* NoInputNoOutput */, 0x01 /* OOB data present */, 0x08 /* SC */ );
        const auto status = f.connection_data().local_device_pairing_status();
        std::printf( "pairing completed: %d, status: %s\n", completed, name( status ) );

        EXPECT( !( completed && status == b::device_pairing_status::authenticated_key ),
            "a Just Works exchange with just the OOB flag set in the request is not reported as authenticated_key" );
    }

    {
        std::printf( "--- control: plain Just Works\n" );
        sm_fixture< b::security_manager > f;
        const bool completed = just_works_exchange( f, 0x03, 0x00, 0x08 );
        EXPECT( completed && f.connection_data().local_device_pairing_status() == b::device_pairing_status::unauthenticated_key,
            "Just Works completes with unauthenticated_key" );
    }

    REPLAY_END();
}
