// F07 / C04: details::service_handles (service.hpp), which provides the value of an include declaration (start and
// end group handle of the included service), counts attributes starting from handle 1. Handles fixed with
// attribute_handle<> / attribute_handles<> -- at the included service itself or at any service / characteristic in
// front of it -- are ignored: the include declaration names handles where the included service is not.
#include "replay_common.hpp"

using plain_included = b::service<
    b::service_uuid16< 0x1111 >,
    b::is_secondary_service,
    b::characteristic< b::characteristic_uuid16< 0x2222 >, b::fixed_uint8_value< 0x11 > > >;

using fixed_included = b::service<
    b::service_uuid16< 0x1111 >,
    b::is_secondary_service,
    b::attribute_handle< 0x0100 >,
    b::characteristic< b::characteristic_uuid16< 0x2222 >, b::fixed_uint8_value< 0x11 > > >;

using including_service = b::service<
    b::service_uuid16< 0x3333 >,
    b::include_service< b::service_uuid16< 0x1111 > >,
    b::characteristic< b::characteristic_uuid16< 0x4444 >, b::fixed_uint8_value< 0x22 > > >;

using fixed_leading_service = b::service<
    b::service_uuid16< 0x5555 >,
    b::attribute_handle< 0x0010 >,
    b::characteristic< b::characteristic_uuid16< 0x6666 >, b::fixed_uint8_value< 0x33 >, b::attribute_handles< 0x0020, 0x0022 > > >;

// the include declaration is the second attribute of the including service
template < class Server >
static void check( const char* name, std::uint16_t include_handle )
{
    std::printf( "--- %s\n", name );
    fixture< Server > f;

    const auto include = f.request( { 0x0a, std::uint8_t( include_handle & 0xff ), std::uint8_t( include_handle >> 8 ) } );
    dump( "read include declaration", include );

    if ( include.size() != 7 || include[ 0 ] != 0x0b )
    {
        EXPECT( false, "include declaration readable" );
        return;
    }

    const std::uint16_t start = include[ 1 ] | ( include[ 2 ] << 8 );
    const std::uint16_t end   = include[ 3 ] | ( include[ 4 ] << 8 );
    std::printf( "include declaration: included service 0x%02x%02x at 0x%04x..0x%04x\n", include[ 6 ], include[ 5 ], start, end );

    const auto declaration = f.request( { 0x0a, include[ 1 ], include[ 2 ] } );
    dump( "read start handle", declaration );
    EXPECT( ( declaration == std::vector< std::uint8_t >{ 0x0b, 0x11, 0x11 } ), "start handle of the include declaration is the declaration of service 0x1111" );

    const auto last = f.request( { 0x0a, include[ 3 ], include[ 4 ] } );
    dump( "read end group handle", last );
    EXPECT( ( last == std::vector< std::uint8_t >{ 0x0b, 0x11 } ), "end group handle of the include declaration is the last attribute of service 0x1111 (value 0x11)" );

    // where is the service really? Sweep with ATT Find Information: declaration 0x2801 and its last attribute 0x2222
    std::uint16_t real_start = 0, real_end = 0;
    for ( unsigned from = 1; from != 0; )
    {
        const auto rsp = f.request( { 0x04, std::uint8_t( from & 0xff ), std::uint8_t( from >> 8 ), 0xff, 0xff } );
        if ( rsp.size() < 6 || rsp[ 0 ] != 0x05 || rsp[ 1 ] != 0x01 )
            break;

        unsigned handle = 0;
        for ( std::size_t i = 2; i + 4 <= rsp.size(); i += 4 )
        {
            handle = rsp[ i ] | ( rsp[ i + 1 ] << 8 );
            const unsigned uuid = rsp[ i + 2 ] | ( rsp[ i + 3 ] << 8 );
            if ( uuid == 0x2801 ) real_start = handle;
            if ( uuid == 0x2222 ) real_end   = handle;
        }

        from = handle < from ? 0 : handle + 1;
    }
    std::printf( "Find Information: service 0x1111 at 0x%04x..0x%04x\n", real_start, real_end );
    EXPECT( start == real_start && end == real_end, "include declaration and attribute discovery agree on the handle range of service 0x1111" );
}

int main()
{
    check< b::server< including_service, plain_included, b::no_gap_service_for_gatt_servers > >(
        "no fixed handles", 0x0002 );

    check< b::server< including_service, fixed_included, b::no_gap_service_for_gatt_servers > >(
        "included service with attribute_handle< 0x100 >", 0x0002 );

    check< b::server< fixed_leading_service, including_service, plain_included, b::no_gap_service_for_gatt_servers > >(
        "service with fixed handles in front of including and included service", 0x0024 );

    check< b::server< fixed_included, including_service, b::no_gap_service_for_gatt_servers > >(
        "included service with attribute_handle< 0x100 > in front of the including service", 0x0104 );

    REPLAY_END();
}
