// F21 (C22): the connection interval of a CONNECT_IND (and LL_CONNECTION_UPDATE_IND) is never range-checked.
//
// History 1: a CONNECT_IND with WinSize 0, WinOffset 0, Interval 0, Latency 0, Timeout 720ms is received while
//            advertising.
// History 2: a CONNECT_IND with WinSize 1, WinOffset 0, Interval 4000 (5s), Latency 0, Timeout 3200 (32s).
//
// Promised behaviour (C22, Core Vol 6 Part B 2.3.3.1 / 4.5.2): connInterval is within 7.5ms (6) and 4s (3200);
// a connect request with other values is ignored, the device keeps advertising.
// Defective behaviour: the link layer enters the connection state with a connection interval of 0 (every
// supervision computation `n * connection_interval_` is 0, a central that answers once keeps the device in a
// connection where time_since_last_event never grows) resp. 5s.
//
// run: BT_REPO=<repo> ./run.sh F21_connect_ind_interval_range.cpp $BT_REPO/tests/test_tools/test_radio.cpp \
//        $BT_REPO/tests/test_tools/test_servers.cpp $BT_REPO/tests/test_tools/hexdump.cpp \
//        $BT_REPO/bluetoe/link_layer/*.cpp $BT_REPO/bluetoe/utility/address.cpp -lboost_unit_test_framework
#include "replay_common.hpp"

#include <boost/test/unit_test.hpp>   // declarations only: connected.hpp / test_radio.cpp refer to BOOST_CHECK

#include <../link_layer/connected.hpp>

static std::vector< std::uint8_t > connect_ind( std::uint8_t win_size, std::uint16_t win_offset, std::uint16_t interval, std::uint16_t latency, std::uint16_t timeout )
{
    return {
        0xc5, 0x22,                         // header
        0x3c, 0x1c, 0x62, 0x92, 0xf0, 0x48, // InitA: 48:f0:92:62:1c:3c (random)
        0x47, 0x11, 0x08, 0x15, 0x0f, 0xc0, // AdvA:  c0:0f:15:08:11:47 (random)
        0x5a, 0xb3, 0x9a, 0xaf,             // Access Address
        0x08, 0x81, 0xf6,                   // CRC Init
        win_size,
        static_cast< std::uint8_t >( win_offset ), static_cast< std::uint8_t >( win_offset >> 8 ),
        static_cast< std::uint8_t >( interval ),   static_cast< std::uint8_t >( interval >> 8 ),
        static_cast< std::uint8_t >( latency ),    static_cast< std::uint8_t >( latency >> 8 ),
        static_cast< std::uint8_t >( timeout ),    static_cast< std::uint8_t >( timeout >> 8 ),
        0xff, 0xff, 0xff, 0xff, 0x1f,       // used channel map
        0xaa                                // hop increment and sleep clock accuracy
    };
}

int main()
{
    {
        unconnected ll;
        ll.respond_to( 37, connect_ind( 0, 0, 0, 0, 72 ) );
        ll.end_of_simulation( bluetoe::link_layer::delta_time::seconds( 1 ) );
        ll.run();

        std::printf( "interval 0: %zu connection events scheduled", ll.connection_events().size() );
        if ( !ll.connection_events().empty() )
            std::printf( ", first with connection interval %u us", unsigned( ll.connection_events()[ 0 ].connection_interval.usec() ) );
        std::printf( "\n" );

        EXPECT( ll.connection_events().empty(), "CONNECT_IND with connInterval 0 is ignored" );
    }

    {
        unconnected ll;
        ll.respond_to( 37, connect_ind( 1, 0, 4000, 0, 3200 ) );
        ll.end_of_simulation( bluetoe::link_layer::delta_time::seconds( 1 ) );
        ll.run();

        std::printf( "interval 4000: %zu connection events scheduled\n", ll.connection_events().size() );

        EXPECT( ll.connection_events().empty(), "CONNECT_IND with connInterval 5s (> 4s) is ignored" );
    }

    {
        // control: the limits are valid
        unconnected ll;
        ll.respond_to( 37, connect_ind( 1, 0, 6, 0, 72 ) );
        ll.end_of_simulation( bluetoe::link_layer::delta_time::seconds( 1 ) );
        ll.run();

        if ( ll.connection_events().empty() )
        {
            std::printf( "replay broken: CONNECT_IND with connInterval 7.5ms must be accepted\n" );
            return 2;
        }
    }

    {
        unconnected ll;
        ll.respond_to( 37, connect_ind( 1, 0, 3200, 0, 3200 ) );
        ll.end_of_simulation( bluetoe::link_layer::delta_time::seconds( 1 ) );
        ll.run();

        if ( ll.connection_events().empty() )
        {
            std::printf( "replay broken: CONNECT_IND with connInterval 4s must be accepted\n" );
            return 2;
        }
    }

    REPLAY_END();
}
