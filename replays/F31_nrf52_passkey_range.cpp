// F31 / C38: bluetoe/bindings/nordic/nrf52/security_tool_box.cpp, security_tool_box::create_passkey() returns three raw
// random bytes as little endian number: 0 .. 16777215. A passkey is a six digit decimal number 000000 .. 999999
// (Core spec Vol 3, Part H, 2.3.5.2); the value is handed to pairing_numeric_output<>::sm_pairing_numeric_output( int )
// for display and used as TK. About 94% of the generated values can not be entered on the central.
//
// The file needs Nordic's nrf.h, which is not part of the repository. This replay compiles the REAL, unmodified
// security_tool_box.cpp on the host by pre-defining the include guard of <bluetoe/nrf.hpp> and providing the two
// peripherals the file uses (RNG, ECB) as emulations; only the RNG is exercised.
//
// run: BT_REPO=<repo> ./run.sh F31_nrf52_passkey_range.cpp -fpermissive -I$BT_REPO/bluetoe/bindings/nordic/nrf52/include \
//          -I$BT_REPO/bluetoe/bindings/nordic/include $BT_REPO/bluetoe/utility/address.cpp
//      ( -fpermissive: the file casts a pointer to std::uint32_t for the ECB DMA pointer, which is fine on the 32 bit target )
#include "replay_common.hpp"
#include <random>

// --- emulation of the parts of <bluetoe/nrf.hpp> / nrf.h that security_tool_box.cpp uses
#define BLUETOE_BINDINGS_NRF_HPP

static std::vector< std::uint8_t > scripted_bytes;   // consumed first
static std::mt19937                prng( 4711 );
static unsigned long               bytes_drawn = 0;

static std::uint8_t next_random_byte()
{
    ++bytes_drawn;

    if ( !scripted_bytes.empty() )
    {
        const std::uint8_t result = scripted_bytes.front();
        scripted_bytes.erase( scripted_bytes.begin() );
        return result;
    }

    return static_cast< std::uint8_t >( prng() >> 11 );
}

namespace bluetoe {
namespace nrf {
    struct fake_rng_t
    {
        struct task_t {
            fake_rng_t* self;
            void operator=( int ) { self->EVENTS_VALRDY = 1; }
        } TASKS_START{ this };

        int EVENTS_VALRDY = 0;

        struct value_t {
            operator std::uint8_t() const { return next_random_byte(); }
        } VALUE;
    };

    struct fake_ecb_t
    {
        std::uint32_t ECBDATAPTR;
        std::uint32_t TASKS_STARTECB;
        std::uint32_t EVENTS_ENDECB;
        std::uint32_t EVENTS_ERRORECB;
    };

    static fake_rng_t fake_rng;
    static fake_ecb_t fake_ecb;

    static fake_rng_t* const nrf_random = &fake_rng;
    static fake_ecb_t* const nrf_aes    = &fake_ecb;
}
}

// --- the real thing
#include <bluetoe/bindings/nordic/nrf52/security_tool_box.cpp>

// --- micro-ecc is referenced by other functions of the file, not by create_passkey()
extern "C" {
    void uECC_set_rng( uECC_RNG_Function ) {}
    int  uECC_make_key( uint8_t*, uint8_t* ) { return 0; }
    int  uECC_shared_secret( const uint8_t*, const uint8_t*, uint8_t* ) { return 0; }
    int  uECC_valid_public_key( const uint8_t* ) { return 0; }
}

static std::uint32_t passkey_value( const bluetoe::details::uint128_t& key )
{
    // exactly what pairing_numeric_output<>::sm_pairing_numeric_output() displays
    return bluetoe::details::read_32bit( key.data() );
}

int main()
{
    bluetoe::nrf52_details::security_tool_box box;

    // history 1: the RNG delivers ff ff ff (then random bytes)
    scripted_bytes = { 0xff, 0xff, 0xff };
    const auto first = box.create_passkey();
    std::printf( "RNG bytes ff ff ff ... => passkey to be displayed: %u\n", passkey_value( first ) );
    EXPECT( passkey_value( first ) <= 999999, "passkey generated from RNG bytes ff ff ff ... is a six digit number" );
    EXPECT( std::all_of( first.begin() + 4, first.end(), []( std::uint8_t c ) { return c == 0; } ), "upper 96 bits of the TK are zero" );

    // history 2: pseudo random byte stream
    static constexpr unsigned runs    = 200000;
    static constexpr unsigned buckets = 10;
    unsigned too_large = 0;
    unsigned histogram[ buckets ] = { 0 };
    std::uint32_t largest = 0;
    bytes_drawn = 0;

    for ( unsigned i = 0; i != runs; ++i )
    {
        const auto value = passkey_value( box.create_passkey() );
        largest = std::max( largest, value );

        if ( value > 999999 )
            ++too_large;
        else
            ++histogram[ value / 100000 ];
    }

    std::printf( "%u passkeys from a pseudo random stream: %u (%.1f%%) larger than 999999, largest: %u, RNG bytes per passkey: %.2f\n",
        runs, too_large, 100.0 * too_large / runs, largest, 1.0 * bytes_drawn / runs );
    EXPECT( too_large == 0, "all generated passkeys are in 000000 .. 999999" );

    if ( too_large == 0 )
    {
        // uniform: every 100000-bucket holds runs/10 values; allow 5% deviation (sigma is ~0.7%)
        bool uniform = true;
        for ( unsigned b = 0; b != buckets; ++b )
        {
            std::printf( "   %u00000..%u99999: %u\n", b, b, histogram[ b ] );
            uniform = uniform && histogram[ b ] > runs / buckets * 95 / 100 && histogram[ b ] < runs / buckets * 105 / 100;
        }
        EXPECT( uniform, "generated passkeys are uniformly distributed over 000000 .. 999999" );
    }

    REPLAY_END();
}
