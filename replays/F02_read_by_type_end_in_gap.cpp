// F02 / C02: server::last_handle_index() does not step back when the ending handle lies in a gap between attribute handles.
#include "replay_common.hpp"

std::uint8_t v1 = 0x41, v2 = 0x42;

// attribute handles fixed by the application: 0x10..0x12, 0x20..0x22
using fixed_server = b::server<
    b::service< b::service_uuid16< 0x1111 >, b::attribute_handle< 0x10 >,
        b::characteristic< b::characteristic_uuid16< 0xAAA1 >, b::bind_characteristic_value< std::uint8_t, &v1 > > >,
    b::service< b::service_uuid16< 0x2222 >, b::attribute_handle< 0x20 >,
        b::characteristic< b::characteristic_uuid16< 0xAAA1 >, b::bind_characteristic_value< std::uint8_t, &v2 > > >,
    b::no_gap_service_for_gatt_servers >;

using bytes = std::vector< std::uint8_t >;

int main()
{
    fixture< fixed_server > f;

    // Read By Type Request 0x0001..0x0015, <<Primary Service>>
    auto rsp = f.request( { 0x08, 0x01, 0x00, 0x15, 0x00, 0x00, 0x28 } );
    dump( "0x0001..0x0015 <<Primary Service>>", rsp );
    EXPECT( ( rsp == bytes{ 0x09, 0x04, 0x10, 0x00, 0x11, 0x11 } ),
        "Read By Type 0x0001-0x0015 reports only the attribute 0x0010, not 0x0020" );

    // Read By Type Request 0x0001..0x001f, characteristic value 0xAAA1
    rsp = f.request( { 0x08, 0x01, 0x00, 0x1f, 0x00, 0xA1, 0xAA } );
    dump( "0x0001..0x001f 0xAAA1", rsp );
    EXPECT( ( rsp == bytes{ 0x09, 0x03, 0x12, 0x00, 0x41 } ),
        "Read By Type 0x0001-0x001f reports only the value at 0x0012" );

    // Read By Type Request 0x0013..0x001f, <<Primary Service>>: no attribute in range at all
    rsp = f.request( { 0x08, 0x13, 0x00, 0x1f, 0x00, 0x00, 0x28 } );
    dump( "0x0013..0x001f <<Primary Service>>", rsp );
    EXPECT( ( rsp == bytes{ 0x01, 0x08, 0x13, 0x00, 0x0a } ),
        "Read By Type 0x0013-0x001f (completely inside the gap) answers Attribute Not Found" );

    // Read By Type Request 0x0001..0x0005, <<Primary Service>>: range in front of the very first attribute
    rsp = f.request( { 0x08, 0x01, 0x00, 0x05, 0x00, 0x00, 0x28 } );
    dump( "0x0001..0x0005 <<Primary Service>>", rsp );
    EXPECT( ( rsp == bytes{ 0x01, 0x08, 0x01, 0x00, 0x0a } ),
        "Read By Type 0x0001-0x0005 (in front of the first attribute) answers Attribute Not Found" );

    // exact hits still work
    rsp = f.request( { 0x08, 0x01, 0x00, 0x20, 0x00, 0x00, 0x28 } );
    dump( "0x0001..0x0020 <<Primary Service>>", rsp );
    EXPECT( ( rsp == bytes{ 0x09, 0x04, 0x10, 0x00, 0x11, 0x11, 0x20, 0x00, 0x22, 0x22 } ),
        "Read By Type 0x0001-0x0020 reports both service declarations" );

    rsp = f.request( { 0x08, 0x01, 0x00, 0xff, 0xff, 0xA1, 0xAA } );
    dump( "0x0001..0xffff 0xAAA1", rsp );
    EXPECT( ( rsp == bytes{ 0x09, 0x03, 0x12, 0x00, 0x41, 0x22, 0x00, 0x42 } ),
        "Read By Type 0x0001-0xffff reports both values" );

    REPLAY_END();
}
