// F37 (C11): an indication that is dequeued but not transmitted (client not subscribed at that moment) is still recorded as
// "outstanding": no confirmation can ever arrive for it, so every later indication on that connection is held back for ever.
#include "replay_common.hpp"

static std::uint8_t value = 0x42;

using srv = b::server<
    b::no_gap_service_for_gatt_servers,
    b::service< b::service_uuid16< 0x1234 >,
        b::characteristic< b::characteristic_uuid16< 0x2001 >, b::bind_characteristic_value< std::uint8_t, &value >, b::indicate >
    >
>;

int main()
{
    fixture< srv > f;
    // handles: 1 service, 2 declaration, 3 value, 4 CCCD
    f.indicate( value );                       // accepted by the queue, client has not subscribed
    auto o1 = f.output();
    dump( "output while unsubscribed", o1 );
    EXPECT( o1.empty(), "nothing is sent to a client that has not subscribed" );

    auto w = f.request( { 0x12, 0x04, 0x00, 0x02, 0x00 } );   // client enables indications
    dump( "write CCCD", w );
    EXPECT( w.size() == 1 && w[ 0 ] == 0x13, "CCCD written" );

    f.indicate( value );
    auto o2 = f.output();
    dump( "output after subscribing", o2 );
    EXPECT( o2.size() == 4 && o2[ 0 ] == 0x1d, "the indication requested after subscribing is transmitted (no indication is outstanding at the client)" );
    REPLAY_END();
}
