// F09b / C06: fixed_value + no_read_access + notify: the notification is dropped because l2cap_output reads the value
// with the client read access type.
#include "replay_common.hpp"
using server_t = b::server<
    b::service< b::service_uuid16< 0x1000 >,
        b::characteristic< b::characteristic_uuid16< 0x1001 >, b::fixed_uint8_value< 0x42 >, b::no_read_access, b::notify > >,
    b::no_gap_service_for_gatt_servers >;
int main()
{
    fixture< server_t > f;
    dump( "subscribe", f.request( { 0x12, 0x04, 0x00, 0x01, 0x00 } ) );
    const bool queued = f.template notify< b::characteristic_uuid16< 0x1001 > >();
    auto pdu = f.output();
    dump( "notification", pdu );
    EXPECT( queued && pdu.size() == 4 && pdu[ 0 ] == 0x1b && pdu[ 3 ] == 0x42, "subscribed client receives the notification of a characteristic declared no_read_access + notify" );
    REPLAY_END();
}
