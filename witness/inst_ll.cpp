// Instantiation witness: link layers over the repository's host test radio (parse only).
#include "wit_sm.hpp"
#include <bluetoe/link_layer.hpp>
#include <bluetoe/l2cap_signaling_channel.hpp>
#include <bluetoe/white_list.hpp>
#include <bluetoe/io_capabilities.hpp>
#include "test_radio.hpp"

namespace wit {

std::uint8_t llv1, llv2;

using ll_server = b::server<
    svc16< 0x4000,
        chr16< 0x4001, b::bind_characteristic_value< std::uint8_t, &llv1 >, b::notify, b::indicate >,
        chr16< 0x4002, b::bind_characteristic_value< std::uint8_t, &llv2 > > >,
    b::shared_write_queue< 50 > >;

using ll_enc_server = b::server<
    svc16< 0x4000,
        chr16< 0x4001, b::bind_characteristic_value< std::uint8_t, &llv1 >, b::notify, b::indicate >,
        chr16< 0x4002, b::bind_characteristic_value< std::uint8_t, &llv2 >, b::requires_encryption > >,
    b::shared_write_queue< 50 > >;

template < std::size_t T, std::size_t R, typename CB >
struct sec_radio : test::radio_with_encryption< T, R, CB >, sec_functions_extra {};

namespace ll = b::link_layer;

template < class LL >
void drive_ll()
{
    static LL l;
    l.run();
    l.disconnect();
    l.notify( llv1 );
    l.indicate( llv1 );
}

struct cbs_t {
    template < class C > void ll_connection_requested( const ll::connection_details&, const ll::connection_addresses&, C& ) {}
    template < class C > void ll_connection_established( const ll::connection_details&, const ll::connection_addresses&, C& ) {}
    template < class C > void ll_connection_changed( const ll::connection_details&, C& ) {}
    template < class C > void ll_connection_closed( std::uint8_t, C& ) {}
    template < class C > void ll_connection_attempt_timeout( C& ) {}
    template < class C > void ll_version( std::uint8_t, std::uint16_t, std::uint16_t, const C& ) {}
    template < class C > void ll_rejected( std::uint8_t, const C& ) {}
    template < class C > void ll_unknown( std::uint8_t, const C& ) {}
    template < class C > void ll_remote_features( std::uint8_t[ 8 ], const C& ) {}
    template < class C > void ll_phy_updated( ll::phy_ll_encoding::phy_ll_encoding_t, ll::phy_ll_encoding::phy_ll_encoding_t, const C& ) {}
} cbs;

void instantiate()
{
    drive_ll< ll::link_layer< ll_server, test::radio > >();
    drive_ll< ll::link_layer< ll_server, test::radio,
        ll::connection_callbacks< cbs_t, cbs >,
        ll::variable_advertising_channel_map,
        ll::variable_advertising_interval,
        ll::no_auto_start_advertising,
        ll::white_list< 4 >,
        ll::connectable_undirected_advertising, ll::connectable_directed_advertising, ll::scannable_undirected_advertising, ll::non_connectable_undirected_advertising,
        ll::peripheral_latency_strict,
        ll::sleep_clock_accuracy_ppm< 100 >,
        ll::buffer_sizes< 100, 100 >
        > >();
    drive_ll< ll::link_layer< ll_enc_server, sec_radio, b::legacy_security_manager > >();
    drive_ll< ll::link_layer< ll_enc_server, sec_radio, b::lesc_security_manager > >();
    drive_ll< ll::link_layer< ll_enc_server, sec_radio, b::security_manager, b::enable_bonding > >();
    drive_ll< ll::link_layer< ll_server, test::radio, ll::peripheral_latency_ignored, ll::static_address< 0xc0, 1, 2, 3, 4, 5 > > >();
    drive_ll< ll::link_layer< ll_server, test::radio, ll::peripheral_latency_strict_plus, ll::desired_connection_parameters< 10, 20, 0, 4, 100, 200 > > >();
}

}
