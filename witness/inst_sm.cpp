// Instantiation witness: security managers x IO capability configurations x bonding.
#include "wit_sm.hpp"
#include <bluetoe/io_capabilities.hpp>
#include <bluetoe/oob_authentication.hpp>

namespace wit {

struct io_cb {
    void sm_pairing_numeric_output( int ) {}
    void sm_pairing_yes_no( b::pairing_yes_no_response& ) {}
    int  sm_pairing_passkey() { return 0; }
    std::pair< bool, std::array< std::uint8_t, 16 > > sm_oob_authentication_data( const b::link_layer::device_address& ) { return {}; }
};
io_cb cb;

using disp  = b::pairing_numeric_output< io_cb, cb >;
using yesno = b::pairing_yes_no< io_cb, cb >;
using keyb  = b::pairing_keyboard< io_cb, cb >;
using oob   = b::oob_authentication_callback< io_cb, cb >;

void instantiate()
{
    { static sm_base< b::legacy_security_manager > s; s.drive(); }
    { static sm_base< b::lesc_security_manager > s; s.drive(); }
    { static sm_base< b::security_manager > s; s.drive(); }
    { static sm_base< b::legacy_security_manager, disp > s; s.drive(); }
    { static sm_base< b::legacy_security_manager, keyb > s; s.drive(); }
    { static sm_base< b::legacy_security_manager, disp, keyb > s; s.drive(); }
    { static sm_base< b::legacy_security_manager, oob > s; s.drive(); }
    { static sm_base< b::lesc_security_manager, disp, yesno > s; s.drive(); }
    { static sm_base< b::security_manager, disp, yesno > s; s.drive(); }
    { static sm_base< b::security_manager, disp, yesno, b::pairing_no_just_works > s; s.drive(); }
    { static sm_base< b::security_manager, oob, b::enable_bonding > s; s.drive(); }
}

}
