// Instantiation witness: predefined services (cycling speed and cadence, bootloader) with declaration-only handlers.
#include "wit_common.hpp"
#include <bluetoe/sensor_location.hpp>
#include <bluetoe/services/csc.hpp>
#include <bluetoe/services/bootloader.hpp>
#include <bluetoe/services/bas.hpp>

namespace wit {

struct csc_handler {
    std::pair< std::uint32_t, std::uint16_t > cumulative_wheel_revolutions_and_time();
    std::pair< std::uint16_t, std::uint16_t > cumulative_crank_revolutions_and_time();
    void set_cumulative_wheel_revolutions( std::uint32_t );
};

using csc_one = b::server< b::cycling_speed_and_cadence<
    b::sensor_location::top_of_shoe, b::csc::wheel_revolution_data_supported, b::csc::crank_revolution_data_supported, b::csc::handler< csc_handler > > >;
using csc_multi = b::server< b::cycling_speed_and_cadence<
    b::sensor_location::top_of_shoe, b::sensor_location::in_shoe, b::sensor_location::hip,
    b::csc::wheel_revolution_data_supported, b::csc::crank_revolution_data_supported, b::csc::handler< csc_handler > > >;
using csc_crank_only = b::server< b::cycling_speed_and_cadence<
    b::sensor_location::hip, b::sensor_location::in_shoe, b::csc::crank_revolution_data_supported, b::csc::handler< csc_handler > > >;

struct boot_handler {
    std::pair< const std::uint8_t*, std::size_t > get_version();
    void read_mem( std::uintptr_t, std::size_t, std::uint8_t* );
    std::uint32_t checksum32( std::uintptr_t, std::size_t );
    std::uint32_t checksum32( const std::uint8_t*, std::size_t, std::uint32_t );
    std::uint32_t checksum32( std::uintptr_t );
    b::bootloader::error_codes public_read_mem( std::uintptr_t, std::size_t, std::uint8_t* );
    std::uint32_t public_checksum32( std::uintptr_t, std::size_t );
    b::bootloader::error_codes start_flash( std::uintptr_t, const std::uint8_t*, std::size_t );
    b::bootloader::error_codes run( std::uintptr_t );
    b::bootloader::error_codes reset();
    void control_point_notification_call_back();
    void data_indication_call_back();
};

using boot_two = b::server< b::bootloader_service<
    b::bootloader::page_size< 0x100 >, b::bootloader::handler< boot_handler >,
    b::bootloader::white_list< b::bootloader::memory_region< 0x1000, 0x1400 >, b::bootloader::memory_region< 0x2000, 0x2400 > > > >;
using boot_one = b::server< b::bootloader_service<
    b::bootloader::page_size< 0x400 >, b::bootloader::handler< boot_handler >,
    b::bootloader::white_list< b::bootloader::memory_region< 0x8000, 0x10000 > > > >;

void instantiate()
{
    drive< csc_one >();
    drive< csc_multi >();
    drive< csc_crank_only >();
    drive< boot_two >();
    drive< boot_one >();
}
}
