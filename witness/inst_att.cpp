// Instantiation witness: server configurations the properties quantify over but the pinned tests
// rarely or never instantiate. Parsed only; drive<>() forces instantiation of the request handlers.
#include "inst_att_decls.hpp"

namespace wit {

void instantiate()
{
    drive< srv_values >();
    drive< srv_layout >();
    drive< srv_one_cccd >();
    drive< srv_prio >();
    drive< srv_nine >();
    drive< srv_mixin >();
    drive< srv_includes >();

    static srv_prio s;
    s.notify( v8a );
    s.indicate( v8b );
    s.notify< b::characteristic_uuid16< 0x3003 > >();
    s.indicate< b::characteristic_uuid16< 0x3101 > >();
}

}
