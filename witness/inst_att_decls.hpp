// Declarations of the ATT witness family (shared by the instantiation unit and the static_assert witnesses).
#ifndef VERIF_INST_ATT_DECLS_HPP
#define VERIF_INST_ATT_DECLS_HPP
#include "wit_common.hpp"
#include <bluetoe/descriptor.hpp>
#include <bluetoe/server_name.hpp>
#include <bluetoe/appearance.hpp>
#include <bluetoe/adv_service_list.hpp>
#include <bluetoe/peripheral_connection_interval_range.hpp>
#include <bluetoe/mixin.hpp>

namespace wit {

inline std::uint8_t  v8a, v8b, v8c, v8d, v8e, v8f, v8g, v8h, v8i, v8j;
inline std::uint32_t v32;
inline std::uint8_t  blob[ 30 ];
inline const std::uint8_t cblob[ 4 ] = { 1, 2, 3, 4 };
inline constexpr char name_str[] = "witness";
inline constexpr std::uint8_t fixed_blob[] = { 1, 2, 3 };

inline std::uint8_t read_h( std::size_t, std::uint8_t*, std::size_t& ) { return 0; }
inline std::uint8_t read_blob_h( std::size_t, std::size_t, std::uint8_t*, std::size_t& ) { return 0; }
inline std::uint8_t write_h( std::size_t, const std::uint8_t* ) { return 0; }
inline std::uint8_t write_blob_h( std::size_t, std::size_t, const std::uint8_t* ) { return 0; }
inline std::uint8_t write_u8( std::uint8_t ) { return 0; }

struct mix {
    std::uint8_t rd( std::size_t, std::uint8_t*, std::size_t& ) { return 0; }
    std::uint8_t wr( std::size_t, const std::uint8_t* ) { return 0; }
};

// 1. plain, one service, all value kinds x permission options
using srv_values = b::server<
    svc16< 0x1000,
        chr16< 0x1001, b::bind_characteristic_value< std::uint8_t, &v8a > >,
        chr16< 0x1002, b::bind_characteristic_value< std::uint8_t, &v8b >, b::no_read_access >,
        chr16< 0x1003, b::bind_characteristic_value< std::uint8_t, &v8c >, b::no_write_access >,
        chr16< 0x1004, b::bind_characteristic_value< const std::uint8_t[ 4 ], &cblob > >,
        chr16< 0x1005, b::bind_characteristic_value< std::uint8_t[ 30 ], &blob >, b::write_without_response >,
        chr16< 0x1006, b::bind_characteristic_value< std::uint32_t, &v32 >, b::only_write_without_response >,
        chr16< 0x1007, b::fixed_uint8_value< 0x42 > >,
        chr16< 0x1008, b::fixed_uint16_value< 0x4242 >, b::no_read_access >,
        chr16< 0x1009, b::cstring_value< name_str > >,
        chr16< 0x100a, b::fixed_blob_value< fixed_blob, 3 > >,
        chr16< 0x100b, b::free_read_handler< &read_h > >,
        chr16< 0x100c, b::free_read_blob_handler< &read_blob_h >, b::free_write_blob_handler< &write_blob_h > >,
        chr16< 0x100d, b::free_raw_write_handler< &write_h > >,
        chr16< 0x100e, b::free_write_handler< std::uint8_t, &write_u8 >, b::no_read_access >,
        chr16< 0x100f, b::free_read_handler< &read_h >, b::free_raw_write_handler< &write_h >, b::no_read_access, b::notify >
    >,
    b::no_gap_service_for_gatt_servers
>;

// 2. primary + secondary + include, fixed handles with gaps
using svc_secondary = b::service< b::service_uuid16< 0x2222 >, b::is_secondary_service,
    chr16< 0x2223, b::bind_characteristic_value< std::uint8_t, &v8d > > >;

using srv_layout = b::server<
    svc16< 0x2000,
        b::include_service< b::service_uuid16< 0x2222 > >,
        chr16< 0x2001, b::bind_characteristic_value< std::uint8_t, &v8a >, b::notify >,
        chr16< 0x2002, b::bind_characteristic_value< std::uint8_t, &v8b >, b::indicate, b::attribute_handles< 0x20, 0x22, 0x30 > >
    >,
    svc_secondary,
    svc16< 0x2100, b::attribute_handle< 0x100 >,
        chr16< 0x2101, b::bind_characteristic_value< std::uint8_t, &v8c >, b::notify, b::indicate >,
        chr16< 0x2102, b::bind_characteristic_value< std::uint8_t, &v8e >, b::attribute_handle< 0x200 > >
    >,
    b::no_gap_service_for_gatt_servers
>;

// 3. CCCD counts 1 / 5 / 9 with priorities, write queue, larger MTU, encryption options
using srv_one_cccd = b::server<
    svc16< 0x3000, chr16< 0x3001, b::bind_characteristic_value< std::uint8_t, &v8a >, b::notify, b::indicate > >,
    b::no_gap_service_for_gatt_servers, b::max_mtu_size< 65 >
>;

using srv_prio = b::server<
    b::higher_outgoing_priority< b::service_uuid16< 0x3100 > >,
    svc16< 0x3000,
        chr16< 0x3001, b::bind_characteristic_value< std::uint8_t, &v8a >, b::notify >,
        chr16< 0x3002, b::bind_characteristic_value< std::uint8_t, &v8b >, b::indicate >,
        chr16< 0x3003, b::bind_characteristic_value< std::uint8_t, &v8c >, b::notify >,
        chr16< 0x3004, b::bind_characteristic_value< std::uint8_t, &v8d >, b::notify >,
        b::higher_outgoing_priority< b::characteristic_uuid16< 0x3003 > >
    >,
    svc16< 0x3100,
        chr16< 0x3101, b::bind_characteristic_value< std::uint8_t, &v8e >, b::notify, b::indicate >,
        b::requires_encryption
    >,
    b::shared_write_queue< 64 >,
    b::max_mtu_size< 100 >,
    b::no_gap_service_for_gatt_servers
>;

// the same characteristic UUID in two services, the second service with the higher priority (by-UUID lookups must tell them apart)
using srv_dup_uuid = b::server<
    b::higher_outgoing_priority< b::service_uuid16< 0x3900 > >,
    svc16< 0x3800,
        chr16< 0x3801, b::bind_characteristic_value< std::uint8_t, &v8a >, b::notify >,
        chr16< 0x3802, b::bind_characteristic_value< std::uint8_t, &v8b >, b::indicate >
    >,
    svc16< 0x3900,
        chr16< 0x3801, b::bind_characteristic_value< std::uint8_t, &v8c >, b::notify >
    >,
    b::no_gap_service_for_gatt_servers
>;

using srv_nine = b::server<
    svc16< 0x3200,
        chr16< 0x3201, b::bind_characteristic_value< std::uint8_t, &v8a >, b::notify >,
        chr16< 0x3202, b::bind_characteristic_value< std::uint8_t, &v8b >, b::notify >,
        chr16< 0x3203, b::bind_characteristic_value< std::uint8_t, &v8c >, b::notify >,
        chr16< 0x3204, b::bind_characteristic_value< std::uint8_t, &v8d >, b::notify >,
        chr16< 0x3205, b::bind_characteristic_value< std::uint8_t, &v8e >, b::indicate >,
        chr16< 0x3206, b::bind_characteristic_value< std::uint8_t, &v8f >, b::notify >,
        chr16< 0x3207, b::bind_characteristic_value< std::uint8_t, &v8g >, b::notify >,
        chr16< 0x3208, b::bind_characteristic_value< std::uint8_t, &v8h >, b::notify >,
        chr16< 0x3209, b::bind_characteristic_value< std::uint8_t, &v8i >, b::notify, b::may_require_encryption >
    >,
    b::requires_encryption,
    b::server_name< name_str >,
    b::appearance::keyboard,
    b::list_of_16_bit_service_uuids< b::service_uuid16< 0x3200 > >
>;

// 4. gap service, 128 bit uuids, mixin handlers
using srv_mixin = b::server<
    b::mixin< mix >,
    b::service<
        b::service_uuid< 0x8C8B4094, 0x0DE2, 0x499F, 0xA28A, 0x4EED5BC73CA9 >,
        b::characteristic<
            b::characteristic_uuid< 0x8C8B4094, 0x0DE2, 0x499F, 0xA28A, 0x4EED5BC73CAA >,
            b::mixin_read_handler< mix, &mix::rd >, b::mixin_write_handler< mix, &mix::wr >, b::notify
        >
    >
>;


// 5. include declarations in several positions, fixed handles on included services, descriptors
inline std::uint8_t l1, l2, l3, l4, l5;
inline constexpr char desc_str[] = "desc";
using inc_target_a = b::service< b::service_uuid16< 0x5100 >, b::is_secondary_service,
    chr16< 0x5101, b::bind_characteristic_value< std::uint8_t, &l1 >, b::notify > >;
using inc_target_b = b::service< b::service_uuid16< 0x5200 >, b::is_secondary_service, b::attribute_handle< 0x80 >,
    chr16< 0x5201, b::bind_characteristic_value< std::uint8_t, &l2 >, b::attribute_handles< 0x90, 0x92 > >,
    chr16< 0x5202, b::bind_characteristic_value< std::uint8_t, &l3 >, b::indicate > >;
using srv_includes = b::server<
    svc16< 0x5000,
        b::include_service< b::service_uuid16< 0x5100 > >,
        b::include_service< b::service_uuid16< 0x5200 > >,
        chr16< 0x5001, b::bind_characteristic_value< std::uint8_t, &l4 >, b::characteristic_name< desc_str >, b::notify >,
        chr16< 0x5002, b::bind_characteristic_value< std::uint8_t, &l5 > > >,
    inc_target_a,
    svc16< 0x5300, b::attribute_handle< 0x40 >,
        b::include_service< b::service_uuid16< 0x5200 > >,
        chr16< 0x5301, b::fixed_uint8_value< 1 > > >,
    inc_target_b,
    b::no_gap_service_for_gatt_servers >;

// 6. a characteristic that pins only its declaration (attribute_handle< H >) and has more than two attributes
using srv_pinned = b::server<
    svc16< 0x6000,
        chr16< 0x6001, b::bind_characteristic_value< std::uint8_t, &v8a >, b::notify, b::attribute_handle< 0x20 > >,
        chr16< 0x6002, b::bind_characteristic_value< std::uint8_t, &v8b >, b::characteristic_name< desc_str >, b::indicate, b::attribute_handle< 0x30 > >,
        chr16< 0x6003, b::bind_characteristic_value< std::uint8_t, &v8c > >
    >,
    b::no_gap_service_for_gatt_servers >;

    // compile-time permutation test for a tuple of std::integral_constant< std::size_t, I >
    template < class T > struct is_permutation;
    template < class... Is >
    struct is_permutation< std::tuple< Is... > >
    {
        static constexpr bool contains( std::size_t v ) {
            const std::size_t vals[] = { Is::value..., 0 };
            for ( std::size_t i = 0; i != sizeof...( Is ); ++i ) if ( vals[ i ] == v ) return true;
            return false;
        }
        static constexpr bool all() {
            for ( std::size_t v = 0; v != sizeof...( Is ); ++v ) if ( !contains( v ) ) return false;
            return true;
        }
        static constexpr bool value = all();
    };
}
#endif
