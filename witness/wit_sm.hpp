// Declaration-only security tool box for instantiation witnesses (parse only, never linked).
#ifndef VERIF_WIT_SM_HPP
#define VERIF_WIT_SM_HPP
#include "wit_common.hpp"
#include <bluetoe/security_manager.hpp>
#include <bluetoe/address.hpp>

namespace wit {
    struct sec_functions_extra
    {
        b::details::uint128_t create_passkey();
        b::details::longterm_key_t create_long_term_key();
        bool is_valid_public_key( const std::uint8_t* ) const;
        std::pair< b::details::ecdh_public_key_t, b::details::ecdh_private_key_t > generate_keys();
        b::details::uint128_t select_random_nonce();
        b::details::ecdh_shared_secret_t p256( const std::uint8_t*, const std::uint8_t* );
        b::details::uint128_t f4( const std::uint8_t*, const std::uint8_t*, const std::array< std::uint8_t, 16 >&, std::uint8_t );
        std::pair< b::details::uint128_t, b::details::uint128_t > f5( const b::details::ecdh_shared_secret_t, const b::details::uint128_t&, const b::details::uint128_t&,
            const b::link_layer::device_address&, const b::link_layer::device_address& );
        b::details::uint128_t f6( const b::details::uint128_t&, const b::details::uint128_t&, const b::details::uint128_t&, const b::details::uint128_t&,
            const b::details::io_capabilities_t&, const b::link_layer::device_address&, const b::link_layer::device_address& );
        std::uint32_t g2( const std::uint8_t*, const std::uint8_t*, const b::details::uint128_t&, const b::details::uint128_t& );
    };

    struct sec_functions : sec_functions_extra
    {
        b::link_layer::device_address local_address() const;
        b::details::uint128_t create_srand();
        b::details::uint128_t s1( const b::details::uint128_t&, const b::details::uint128_t&, const b::details::uint128_t& );
        b::details::uint128_t c1( const b::details::uint128_t&, const b::details::uint128_t&, const b::details::uint128_t&, const b::details::uint128_t& ) const;
    };

    template < class Manager, typename ... Options >
    struct sm_base : Manager::template impl< sm_base< Manager, Options... >, Options... >, sec_functions
    {
        using manager_type      = typename Manager::template impl< sec_functions, Options... >;
        using connection_data_t = typename manager_type::template channel_data_t< b::details::link_state >;
        connection_data_t con;

        void drive()
        {
            std::uint8_t in[ 80 ] = { 0 }, out[ 80 ];
            std::size_t  size = sizeof( out );
            con.remote_connection_created( b::link_layer::device_address() );
            this->l2cap_input( in, sizeof( in ), out, size, con );
            size = sizeof( out );
            this->l2cap_output( out, size, con );
            static_cast< void >( con.find_key( 0, 0 ) );
            static_cast< void >( con.local_device_pairing_status() );
        }
    };
}
#endif
